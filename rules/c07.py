"""C07 Each descriptor owned by an AsyncFd is closed exactly once, the right way."""
import re

from .kernel import (resolve_upvars, specialise_value, ExprBuilder, Loc, access_path, bool_call_switches, subexprs, variant_edges,
                     is_local, const_val)
from . import families as fam
from . import life
from . import sqe

EXPLANATION = (
    'Decides: (R1) AsyncFd implements neither Clone nor Copy (facts; use-after-close/move witnesses in the '
    'thorough tier); (R2) every AsyncFd::from_raw call wraps a descriptor whose origin is the kernel result of '
    'the operation, a resources component, a libc call in the same function, IntoRawFd::into_raw_fd, a '
    'parameter of an unsafe fn or a constant, and no origin is wrapped twice; (R3) the kind used to encode the '
    'request in fill_submission has the same origin as the kind given to from_raw in the sibling '
    'map_ok/map_next; (R4) <AsyncFd as Drop>::drop: every path queues a close or closes synchronously (no '
    'early return); on the Ok edge of add no synchronous close, on the Err edge exactly one of libc::close '
    '(File) / close_direct_fd (Direct); the queued request carries CLOSE_USER_DATA and skips the success CQE; '
    '(R5) close encodings vs ABI: File => sqe.fd = fd, Direct => file_index = fd+1 with sqe.fd untouched, '
    'files_update.offset = fd with value -1, fd() masks bit 31, from_raw sets it iff Direct, kind() reads the '
    'sign; (R6) AsyncFd::close moves self into ManuallyDrop, reads sq once and passes (fd, kind) to Close; '
    '(R7) standard stream handles are wrapped in ManuallyDrop and their Drop only drops the queue handle; (R8) '
    'operations that produce descriptors must look at the completion result when the operation was abandoned '
    '(necessary for closing it) — known finding K1; (R9) a Close future abandoned before completion must leave '
    'the descriptor owned by something that closes it — known finding K7; (R10) who may suppress Drop of a '
    'descriptor-owning value: an AsyncFd goes into ManuallyDrop / mem::forget only at the sanctioned sites (stdio, '
    'close), and a wrapper type (Signals, ReceiveSignals, Watcher, ..) taken apart that way moves every '
    'descriptor-owning field out. The process descriptor table at run time is not decided.'
)
NOT_DECIDED = "the run-time descriptor table; kernel semantics of CLOSE"
ASSUMPTIONS = ["a CLOSE request queued to a live ring is eventually submitted (C12)"]

FROM_RAW = 'fd::AsyncFd::from_raw'
ASYNCFD_DROP = 'io_uring::fd::<impl std::ops::Drop for fd::AsyncFd>::drop'
CLOSE_FILE_FD = 'io_uring::io::close_file_fd'
CLOSE_DIRECT_FD = 'io_uring::io::close_direct_fd'

MAP_FNS = [('io_uring::op::Op', 'map_ok'), ('io_uring::op::FdOp', 'map_ok'), ('io_uring::op::FdIter', 'map_next'),
           ('io_uring::op::OpExtract', 'map_ok_extract'), ('io_uring::op::FdOpExtract', 'map_ok_extract')]
ROLES_MAP = {'io_uring::op::Op': {1: 'sq', 2: 'resources', 3: 'op_return'},
             'io_uring::op::OpExtract': {1: 'sq', 2: 'resources', 3: 'op_return'},
             'io_uring::op::FdOp': {1: 'fd', 2: 'resources', 3: 'op_return'},
             'io_uring::op::FdOpExtract': {1: 'fd', 2: 'resources', 3: 'op_return'},
             'io_uring::op::FdIter': {1: 'fd', 2: 'resources', 3: 'op_return'}}
ROLES_FILL = {'io_uring::op::Op': {1: 'resources', 2: 'args', 3: 'submission'},
              'io_uring::op::FdOp': {1: 'fd', 2: 'resources', 3: 'args', 4: 'submission'},
              'io_uring::op::FdIter': {1: 'fd', 2: 'resources', 3: 'args', 4: 'submission'}}


def r1_unique_owner(r, facts):
    for tr in ('std::clone::Clone', 'std::marker::Copy'):
        has = facts.has_impl(tr, 'fd::AsyncFd')
        r.inst('AsyncFd: %s impl = %s' % (tr, has))
        r.require(not has, 'AsyncFd:%s' % tr, 'AsyncFd implements %s: two owners would close the same descriptor twice' % tr)
    a = facts.adt('fd::AsyncFd')
    r.require(a['has_dtor'], 'AsyncFd:Drop', 'AsyncFd has no Drop impl: descriptors are never closed')
    # positive control: the matcher sees a Clone impl that exists
    r.require(facts.has_impl('std::clone::Clone', 'fd::Kind'), 'positive-control', 'impl matcher no longer finds `impl Clone for fd::Kind`')
    r.floor(2)


def role_roots(f, roles, e):
    """roots of e with params replaced by role names"""
    out = set()
    for rt in sqe.roots_of(f, e):
        if rt[0] == 'param':
            role = None
            for idx, name in roles.items():
                if rt[1] in (f.local_name(idx), 'arg%d' % idx, '_%d' % idx):
                    role = name
            out.add(('role', role or rt[1], rt[2]))
        elif rt[0] == 'const':
            out.add(('const', rt[1], rt[2]))
        elif rt[0] == 'call':
            out.add(('call', rt[1]))
        else:
            out.add(rt)
    return out


def classify_fd_origin(f, roles, e, g_unsafe):
    rr = role_roots(f, roles, e)
    roles_seen = {x[1] for x in rr if x[0] == 'role'}
    calls = {x[1] for x in rr if x[0] == 'call'}
    if any(c.startswith('libc::') for c in calls):
        return 'libc-call'
    if any(c.endswith('IntoRawFd::into_raw_fd') for c in calls):
        return 'into_raw_fd'
    if roles_seen == {'op_return'}:
        return 'kernel-result'
    if roles_seen == {'resources'}:
        return 'resources'
    if not roles_seen and all(x[0] == 'const' for x in rr) and rr:
        return 'constant'
    if g_unsafe and roles_seen and all(x[0] in ('role',) for x in rr):
        return 'unsafe-param'
    return None


def from_raw_sites(facts):
    out = []
    for g, loc, t in facts.callers.get(FROM_RAW, []):
        if t['k'] == 'call' and not g.blocks[loc[0]]['cleanup']:
            out.append((g, loc, t))
    return out


def map_fn_roles(facts):
    m = {}
    for tr, meth in MAP_FNS:
        for i, f in facts.impl_fns(tr, meth):
            m[f.path] = (tr, i, ROLES_MAP[tr])
    return m


def r2_wrap_once(r, facts):
    mroles = map_fn_roles(facts)
    per_fn = {}
    for g, loc, t in from_raw_sites(facts):
        eb = ExprBuilder(g, multi='phi')
        e = eb.operand(t['args'][0])
        roles = mroles.get(g.path, (None, None, {}))[2]
        origin = classify_fd_origin(g, roles, e, g.j.get('unsafe'))
        if origin is None and g.kind == 'closure' and e[0] == 'arg' and e[1] == 2:
            # `fds.map(|fd| AsyncFd::from_raw(fd, ..))`: the closure runs once per element of the array it is mapped over;
            # the origin is that of the array in the function that creates the closure
            from .kernel import closure_captures
            parent, _caps = closure_captures(facts, g)
            if parent is not None:
                pe = ExprBuilder(parent, multi='phi')
                for l2, t2 in parent.calls():
                    if (t2.get('callee') or '').endswith('::map') and 'array' in (t2.get('callee') or '') and len(t2['args']) == 2:
                        clo = pe.operand(t2['args'][1])
                        if clo[0] == 'agg' and g.path in str(clo[1:3]) or any(s_['rv'].get('closure') == g.path and is_local(t2['args'][1], s_['lhs']['l']) for _, s_ in parent.assigns() if s_['rv']['k'] == 'agg'):
                            proles = mroles.get(parent.path, (None, None, {}))[2]
                            origin = classify_fd_origin(parent, proles, pe.operand(t2['args'][0]), parent.j.get('unsafe'))
                            if origin is not None:
                                origin += ' (each element of the mapped array once)'
        # pipe: resources.0[index local] -> resolve the index constant
        idx = None
        pl = t['args'][0]
        for x in subexprs(e):
            if x[0] == 'proj':
                for p in x[2]:
                    mc = re.match(r'^\[(\d+)\]$', p)
                    if mc:
                        idx = int(mc.group(1))
                    m = re.match(r'^\[_(\d+)\]$', p)
                    if m:
                        d = g.single_def(int(m.group(1)))
                        if d and d[1] == 'assign' and d[2]['k'] == 'use':
                            idx = const_val(d[2]['op'])
        r.inst('%s: fd <- %s [%s]%s' % (g.path, e, origin, '' if idx is None else ' index=%s' % idx), g.where(loc))
        r.require(origin is not None, 'origin:%s' % g.path, 'AsyncFd::from_raw wraps a descriptor of unrecognised origin: %s' % (e,), g.where(loc))
        per_fn.setdefault(g.path, []).append((loc, e, idx, g))
    for path, sites in per_fn.items():
        if len(sites) < 2:
            continue
        g = sites[0][3]
        keys = [(str(e), idx) for loc, e, idx, _ in sites]
        r.require(len(set(keys)) == len(keys) and all(k[1] is not None for k in keys), 'twice:%s' % path,
                  'the same descriptor is wrapped by two AsyncFds in %s (%s): it would be closed twice' % (path, keys), g.where(sites[0][0]))
        # and the two sites are not in a loop
    r.floor(12, 'from_raw call sites')


def fill_of(facts, self_ty):
    for tr in ('io_uring::op::Op', 'io_uring::op::FdOp', 'io_uring::op::FdIter'):
        for i, f in facts.impl_fns(tr, 'fill_submission'):
            if i['self'] == self_ty:
                yield tr, f


def r3_kind_agreement(r, facts):
    mroles = map_fn_roles(facts)
    seen_ops = set()
    for g, loc, t in from_raw_sites(facts):
        if g.path not in mroles:
            continue
        tr, impl, roles = mroles[g.path]
        op = impl['self']
        eb = ExprBuilder(g, multi='phi')
        kmap = role_roots(g, roles, eb.operand(t['args'][1]))
        kmap = {x for x in kmap if x[0] != 'call' or 'kind' in x[1]}
        fills = list(fill_of(facts, op))
        if not r.require(bool(fills), 'kind:%s' % op, 'no fill_submission sibling found for %s' % op, g.where(loc)):
            continue
        if (op, tuple(sorted(kmap))) in seen_ops:
            continue
        seen_ops.add((op, tuple(sorted(kmap))))
        ok = False
        detail = []
        for ftr, f in fills:
            if ftr == 'io_uring::op::FdOp' and any(x[0] == 'io_uring::op::Op' for x in fills) and op.startswith('io_uring::fd::ToDirectOp'):
                continue
            fe = ExprBuilder(f, multi='phi')
            froles = ROLES_FILL[ftr]
            # the kind the kernel is asked for: create_flags (file_index = ALLOC for direct descriptors); cloexec_flag alone
            # only adds O_CLOEXEC for regular descriptors and requests nothing
            ksubs = set()
            kcloexec = set()
            for l2, t2 in f.calls():
                n = t2.get('callee') or ''
                if n in ('fd::Kind::create_flags', 'io_uring::fd::<impl fd::Kind>::create_flags'):
                    rr = role_roots(f, froles, fe.operand(t2['args'][0]))
                    ksubs |= {x for x in rr if x[0] != 'call' or 'kind' in x[1]}
                if n == 'fd::Kind::cloexec_flag':
                    rr = role_roots(f, froles, fe.operand(t2['args'][0]))
                    kcloexec |= {x for x in rr if x[0] != 'call' or 'kind' in x[1]}
            if not ksubs and kcloexec and not any(x[0] == 'const' for x in kmap):
                detail.append('fill_submission never calls create_flags for the kind %s the result is wrapped as' % sorted(map(str, kmap)))
            elif not ksubs:
                # constant kinds: decided by the opcode
                fm = sqe.flowmap(f, facts, sub_param=max(froles))
                opc = fm.get(0, {}).get('consts', set())
                if kmap == {('const', None, 'fd::Kind::File{}')} or any(x[0] == 'const' and 'Kind::File' in str(x[2]) for x in kmap) or str(eb.operand(t['args'][1])).startswith('fd::Kind::File'):
                    ok = facts.const('io_uring::libc::IORING_OP_FIXED_FD_INSTALL') in opc
                    detail.append('const File with opcode %s' % sorted(opc))
                elif str(eb.operand(t['args'][1])).startswith('fd::Kind::Direct'):
                    alloc = facts.const('io_uring::libc::IORING_FILE_INDEX_ALLOC')
                    ok = facts.const('io_uring::libc::IORING_OP_FILES_UPDATE') in opc and (alloc & 0xffffffffffffffff) in {c & 0xffffffffffffffff for c in fm.get(8, {}).get('consts', set())}
                    detail.append('const Direct with opcode %s off=%s' % (sorted(opc), sorted(fm.get(8, {}).get('consts', set()))))
            else:
                norm = lambda s: {(x[0], x[1], x[2] if len(x) > 2 else None) for x in s}
                ok = norm(ksubs) == norm(kmap) and (not kcloexec or norm(kcloexec) == norm(kmap))
                detail.append('fill kind %s vs map kind %s' % (sorted(map(str, ksubs)), sorted(map(str, kmap))))
        r.inst('%s: %s' % (op, '; '.join(detail)), g.where(loc))
        r.require(ok, 'kind:%s' % op, 'the descriptor kind requested in fill_submission and the kind the result is wrapped as differ for %s (%s)' % (op, '; '.join(detail)), g.where(loc))
    r.floor(6, 'descriptor-producing operations')


def r4_drop_paths(r, facts):
    f = facts.fn(ASYNCFD_DROP)
    adds = f.calls_to(life.ADD)
    if not r.require(len(adds) == 1, 'AsyncFd::drop', 'expected one Submissions::add in AsyncFd::drop', f.where()):
        return
    al, at = adds[0]
    from .kernel import result_edges
    ok_e, err_e = result_edges(f, at) or (None, None)
    if not r.require(ok_e and err_e, 'AsyncFd::drop', 'match on the add result not found', f.where(al)):
        return
    from .kernel import effective_edge
    closes_pre = [loc for loc, t in f.calls() if (t.get('callee') or '') == 'libc::close'] + [loc for loc, t in f.calls_to(CLOSE_DIRECT_FD)]
    hit = f.forward_paths_hit([Loc(0, 0)], f.returns(), blockers=[al] + closes_pre)
    r.inst('every path through drop queues a close or closes synchronously', f.where(al))
    r.require(hit is None, 'AsyncFd::drop/skip', 'a path through AsyncFd::drop returns without queuing a close request and without closing synchronously: the descriptor (regular or direct slot) is never released', f.where(hit[0]) if hit else '')
    closes = [(loc, 'libc::close') for loc, t in f.calls() if (t.get('callee') or '') == 'libc::close']
    closes += [(loc, 'close_direct_fd') for loc, t in f.calls_to(CLOSE_DIRECT_FD)]
    r.require(len(closes) == 2, 'AsyncFd::drop/closes', 'expected a libc::close and a close_direct_fd site, found %s' % [c[1] for c in closes], f.where())
    cl = [c[0] for c in closes]
    hit = f.forward_paths_hit([Loc(ok_e[1], 0)], cl)
    r.inst('Ok edge: no sync close', f.where(al))
    r.require(hit is None, 'AsyncFd::drop/double-close', 'the descriptor is closed synchronously although a CLOSE request was queued (closed twice)', f.where(hit[0]) if hit else '')
    hit = f.forward_paths_hit([Loc(err_e[1], 0)], f.returns(), blockers=cl)
    r.inst('Err edge: sync close', f.where(al))
    r.require(hit is None, 'AsyncFd::drop/leak', 'when the queue is full a path returns without closing the descriptor', f.where(hit[0]) if hit else '')
    for loc in cl:
        t = f.at(loc)
        if t['target'] is not None:
            hit = f.forward_paths_hit([Loc(t['target'], 0)], cl)
            r.require(hit is None, 'AsyncFd::drop/double-sync', 'two synchronous closes on one path', f.where(loc))
    # kind edges
    ves_f = variant_edges(f, 'fd::Kind', 'File')
    ves_d = variant_edges(f, 'fd::Kind', 'Direct')
    if r.require(len(ves_f) >= 1 and len(ves_d) >= 1, 'AsyncFd::drop/kind', 'match on self.kind() not found', f.where()):
        for loc, what in closes:
            e = ves_f[-1]['raw'] if what == 'libc::close' else ves_d[-1]['raw']
            r.require(f.edge_dominates(e, loc), 'AsyncFd::drop/kind:%s' % what, '%s is used for the wrong descriptor kind' % what, f.where(loc))
            eb = ExprBuilder(f)
            a = eb.operand(f.at(loc)['args'][0])
            r.require(a[0] == 'call' and a[1] == 'fd::AsyncFd::fd', 'AsyncFd::drop/arg:%s' % what, '%s is not given self.fd(): %s' % (what, a), f.where(loc))
    # queued request
    c = facts.fn(ASYNCFD_DROP + '::{closure#0}')
    fm = sqe.flowmap(c, facts)
    r.inst('queued close', c.where(), sqe.fm_str(fm))
    sqe.expect_const(r, fm, 'AsyncFd::drop/queued', 32, facts.const('io_uring::cq::CLOSE_USER_DATA'), 'user_data CLOSE_USER_DATA')
    sqe.expect_const(r, fm, 'AsyncFd::drop/queued', 0, facts.const('io_uring::libc::IORING_OP_CLOSE'), 'opcode CLOSE')
    sqe.expect_const(r, fm, 'AsyncFd::drop/queued', 1, facts.const('io_uring::libc::IOSQE_CQE_SKIP_SUCCESS'), 'IOSQE_CQE_SKIP_SUCCESS')
    ec = ExprBuilder(c)
    for loc, t in c.calls_to(CLOSE_FILE_FD):
        a0, a1 = resolve_upvars(facts, c, ec.operand(t['args'][0])), resolve_upvars(facts, c, ec.operand(t['args'][1]))
        r.require(a0[0] == 'call' and a0[1] == 'fd::AsyncFd::fd' and a1[0] == 'call' and a1[1] == 'fd::AsyncFd::kind', 'AsyncFd::drop/queued-args', 'queued close is not close_file_fd(self.fd(), self.kind(), ..)', c.where(loc))
    r.floor(3)


def eval_int(e, bits=32):
    """constant-fold small integer expressions (i32 semantics)"""
    mask = (1 << bits) - 1
    k = e[0]
    if k == 'const':
        return None if e[1] is None else e[1] & mask
    if k == 'cast':
        return eval_int(e[4], bits)
    if k == 'proj' and e[2] == ('.0',):
        return eval_int(e[1], bits)
    if k == 'un' and e[1] == 'Not':
        v = eval_int(e[2], bits)
        return None if v is None else (~v) & mask
    if k == 'bin':
        a, b = eval_int(e[2], bits), eval_int(e[3], bits)
        if a is None or b is None:
            return None
        op = e[1]
        if op in ('Shl', 'ShlUnchecked'):
            return (a << b) & mask
        if op == 'BitOr':
            return a | b
        if op == 'BitAnd':
            return a & b
        if op in ('Add', 'AddWithOverflow'):
            return (a + b) & mask
        if op in ('Sub', 'SubWithOverflow'):
            return (a - b) & mask
    return None


def r5_encodings(r, facts):
    g = facts.fn(CLOSE_FILE_FD)
    ws = sqe.collect_writes(g, facts, sub_param=3)
    by = {}
    for w in ws:
        by.setdefault(w.off, []).append(w)
    r.inst('close_file_fd writes', g.where(), ' '.join(repr(w) for w in ws))
    opc = [w for w in by.get(0, []) if any(rt[0] == 'const' and rt[1] == facts.const('io_uring::libc::IORING_OP_CLOSE') for rt in w.roots)]
    r.require(bool(opc) and not opc[0].conds, 'close_file_fd/opcode', 'opcode CLOSE is not set unconditionally', g.where())
    fdw = by.get(4, [])
    r.require(len(fdw) == 1 and ('fd::Kind', 'File') in fdw[0].conds and any(rt[0] == 'param' and rt[1] == 'fd' for rt in fdw[0].roots) and not any(rt[0] == 'const' for rt in fdw[0].roots),
              'close_file_fd/file', 'regular descriptors: sqe.fd is not set to fd on exactly the Kind::File arm: %s' % fdw, g.where())
    idw = by.get(44, [])
    ok = len(idw) == 1 and ('fd::Kind', 'Direct') in idw[0].conds
    if ok:
        e = idw[0].expr
        # see through an extracted helper such as `direct_index(fd)`
        s44 = g.at(idw[0].loc) if not g.is_term(idw[0].loc) else None
        if s44 is not None and s44['k'] == 'assign':
            rv44 = s44['rv']
            ebi = ExprBuilder(g, multi='phi', inline=True)
            e = ebi.operand(rv44['ops'][0]) if rv44['k'] == 'agg' and rv44.get('ops') else ebi.rvalue(rv44)
        plus1 = any(x[0] == 'bin' and x[1] in ('Add', 'AddWithOverflow') and any(y[0] == 'const' and y[1] == 1 for y in (x[2], x[3])) and any(y[0] == 'arg' for y in (x[2], x[3])) for x in subexprs(e))
        ok = plus1
    r.require(ok, 'close_file_fd/direct', 'direct descriptors: file_index is not fd + 1 on exactly the Kind::Direct arm: %s' % idw, g.where())
    # close_direct_fd
    d = facts.fn(CLOSE_DIRECT_FD)
    ed = ExprBuilder(d, multi='phi', inline=True)
    upd = None
    for loc, s in d.assigns():
        rv = s['rv']
        if rv['k'] == 'agg' and (rv.get('adt') or '').endswith('io_uring_files_update'):
            upd = (loc, dict(zip(rv['fields'], [ed.operand(o) for o in rv['ops']])))
    if r.require(upd is not None, 'close_direct_fd/update', 'io_uring_files_update aggregate not found', d.where()):
        loc, fl = upd
        r.inst('files_update offset=%s fds=%s' % (fl.get('offset'), fl.get('fds')), d.where(loc))
        off = fl.get('offset')
        r.require(off is not None and any(x[0] == 'arg' and x[1] == 1 for x in subexprs(off)) and not any(x[0] == 'bin' for x in subexprs(off)), 'close_direct_fd/offset', 'files_update.offset is not the descriptor index itself: %s' % (off,), d.where(loc))
        fds = fl.get('fds')
        vals = [x[4] for x in subexprs(fds) if x[0] == 'const' and len(x) > 4 and x[4] is not None] if fds is not None else []
        # a promoted `&[-1]` (bytes from the facts) or a local array `[-1]` whose address is taken
        arrs = [x for x in subexprs(fds) if x[0] == 'agg' and x[1] == 'array'] if fds is not None else []
        if not vals and len(arrs) == 1 and len(arrs[0][3]) == 1 and arrs[0][3][0][0] == 'const' and arrs[0][3][0][1] == -1 and (arrs[0][3][0][3] or '') == 'i32':
            vals = [(255, 255, 255, 255)]
        r.require(vals == [(255, 255, 255, 255)], 'close_direct_fd/value', 'the update value is not a single -1 (unregister): %s bytes=%s' % (fds, vals), d.where(loc))
    regs = [(loc, t) for loc, t in d.calls() if (t.get('callee') or '') == 'io_uring::Shared::register']
    if r.require(len(regs) == 1, 'close_direct_fd/register', 'register call not found', d.where()):
        e = ed.operand(regs[0][1]['args'][1])
        r.require(e[0] == 'const' and e[1] == facts.const('io_uring::libc::IORING_REGISTER_FILES_UPDATE'), 'close_direct_fd/opcode', 'register opcode is not IORING_REGISTER_FILES_UPDATE: %s' % (e,), d.where(regs[0][0]))
        # nr_args of IORING_REGISTER_FILES_UPDATE is the number of descriptors in the update: the one value above
        from .kernel import eval_int as k_eval_int
        if len(regs[0][1]['args']) >= 4:
            ne = ed.operand(regs[0][1]['args'][3])
            nv = k_eval_int(d, ed, ne)
            r.inst('register nr_args = %s' % (nv if nv is not None else ne,), d.where(regs[0][0]))
            r.require(nv == 1, 'close_direct_fd/nr', 'the files-update is registered with nr_args %s, not 1: the single -1 entry is not applied (0) or the kernel reads past it (>1)' % (nv if nv is not None else str(ne)[:80],), d.where(regs[0][0]))
    # fd() / from_raw / kind()
    fdm = facts.fn('fd::AsyncFd::fd')
    e = None
    ef = ExprBuilder(fdm, multi='phi')
    for loc, s in fdm.assigns():
        if s['lhs']['l'] == 0 and not s['lhs']['p']:
            e = ef.rvalue(s['rv'])
    ok = False
    if e is not None and e[0] == 'bin' and e[1] == 'BitAnd':
        for x, m in ((e[2], e[3]), (e[3], e[2])):
            if fam.last_field(x) == 'fd' and eval_int(m) == 0x7fffffff:
                ok = True
    r.inst('AsyncFd::fd() = %s' % (e,), fdm.where())
    r.require(ok, 'AsyncFd::fd', 'fd() does not clear exactly the sign bit (fd & !(1<<31)): %s' % (e,), fdm.where())
    fr = facts.fn(FROM_RAW)
    efr = ExprBuilder(fr, multi='phi')
    ves = variant_edges(fr, 'fd::Kind', 'Direct')
    okb = False
    if ves:
        for loc, s in fr.assigns():
            ee = efr.rvalue(s['rv'])
            if ee[0] == 'bin' and ee[1] == 'BitOr' and any(eval_int(y) == 0x80000000 for y in (ee[2], ee[3])):
                okb = fr.edge_dominates(ves[0]['raw'], loc)
    r.inst('from_raw sets bit 31 on the Direct edge: %s' % okb, fr.where())
    r.require(okb, 'AsyncFd::from_raw', 'from_raw does not set bit 31 exactly on the Kind::Direct edge', fr.where())
    kd = facts.fn('fd::AsyncFd::kind')
    # decided by value (is_negative(), `fd & FLAG != 0`, `fd < 0` alike): with bit 31 of self.fd set only
    # Kind::Direct is returned, with it clear only Kind::File
    subjk = lambda x: fam.last_field(x) == 'fd'
    okk = True
    for v, want in ((5, 'File'), (0x80000005, 'Direct')):
        g, decided = specialise_value(kd, subjk, v, ExprBuilder(kd), bits=32)
        reach = g.reachable_blocks(0)
        got = sorted({s_['rv'].get('variant') for loc, s_ in g.assigns() if loc[0] in reach and s_['lhs']['l'] == 0 and not s_['lhs']['p'] and s_['rv']['k'] == 'agg'})
        r.inst('kind() with fd=%#x -> %s (%d branch(es) decided)' % (v, got, len(decided)), kd.where())
        if got != [want] or not decided:
            okk = False
    r.require(okk, 'AsyncFd::kind', 'kind() does not map a set sign bit (and only that) to Kind::Direct', kd.where())
    r.floor(5)


def r6_close_self(r, facts):
    f = facts.fn('io::<impl fd::AsyncFd>::close')
    eb = ExprBuilder(f)
    md = [(loc, t) for loc, t in f.calls() if (t.get('callee') or '') == 'std::mem::ManuallyDrop::<T>::new']
    ok = any(eb.operand(t['args'][0])[0] == 'arg' for loc, t in md)
    r.inst('ManuallyDrop::new(self)', f.where(md[0][0]) if md else '')
    r.require(ok, 'AsyncFd::close/manually-drop', 'close() does not move self into ManuallyDrop: Drop would queue a second close', f.where())
    for b, blk in enumerate(f.blocks):
        t = blk['term']
        if not blk['cleanup'] and t['k'] == 'drop' and 'AsyncFd' in t['place']['ty'] and 'ManuallyDrop' not in t['place']['ty']:
            r.bad('AsyncFd::close/drop-glue', 'an AsyncFd is dropped inside close()', f.where(f.term_loc(b)))
        if not blk['cleanup'] and t['k'] == 'call' and (t.get('callee') or '') in ('std::mem::ManuallyDrop::<T>::drop', 'std::mem::ManuallyDrop::<T>::into_inner', 'std::ptr::drop_in_place'):
            r.bad('AsyncFd::close/unwrapped', 'the ManuallyDrop wrapper is undone in close() (%s)' % t.get('callee'), f.where(f.term_loc(b)))
    reads = [(loc, t) for loc, t in f.calls() if (t.get('callee') or '') in ('std::ptr::read', 'std::ptr::const_ptr::<impl *const T>::read', 'std::ptr::mut_ptr::<impl *mut T>::read', 'std::ptr::read_unaligned')]
    r.require(len(reads) == 1, 'AsyncFd::close/sq-read', 'sq is read out %d times (expected once)' % len(reads), f.where())
    news = [(loc, t) for loc, t in f.calls() if (t.get('callee') or '').endswith('::new') and 'Close' in (t.get('callee') or '')]
    if r.require(len(news) == 1, 'AsyncFd::close/Close::new', 'Close::new call not found', f.where()):
        t = news[0][1]
        e = ExprBuilder(f).operand(t['args'][2])
        names = [x[1] for x in subexprs(e) if x[0] == 'call']
        r.inst('Close::new args %s' % (e,), f.where(news[0][0]))
        r.require('fd::AsyncFd::fd' in names and 'fd::AsyncFd::kind' in names, 'AsyncFd::close/args', 'Close is not given (self.fd(), self.kind()): %s' % (e,), f.where(news[0][0]))
    r.floor(2)


def r7_stdio(r, facts):
    n = 0
    for g, loc, t in from_raw_sites(facts):
        eb = ExprBuilder(g, multi='phi')
        e = eb.operand(t['args'][0])
        if e[0] != 'const':
            continue
        n += 1
        r.inst('%s wraps constant fd %s' % (g.path, e), g.where(loc))
        dest = t['dest']['l']
        wrapped = False
        for l2, t2 in g.calls():
            if (t2.get('callee') or '') == 'std::mem::ManuallyDrop::<T>::new' and 'l' in t2['args'][0] and not t2['args'][0]['p']:
                # the value wrapped is the one from_raw returned (directly or through `let fd = ..;` copies), and no path
                # from from_raw to a return avoids the wrapping
                a = t2['args'][0]['l']
                seen_l = set()
                while a != dest and a not in seen_l:
                    seen_l.add(a)
                    d_ = g.single_def(a)
                    if d_ and d_[1] == 'assign' and d_[2]['k'] == 'use' and 'l' in d_[2]['op'] and not d_[2]['op']['p']:
                        a = d_[2]['op']['l']
                    else:
                        break
                if a == dest and t['target'] is not None:
                    wrapped = g.dominates(loc, l2) and g.forward_paths_hit([Loc(t['target'], 0)], g.returns(), blockers=[l2]) is None
        r.require(wrapped, 'stdio:%s' % g.path, 'an AsyncFd for a standard stream is not wrapped in ManuallyDrop: dropping it closes fd %s' % (e,), g.where(loc))
    for name in ('io::Stdin', 'io::Stdout', 'io::Stderr'):
        a = facts.adt(name)
        ty = a['variants'][0]['fields'][0]['ty']
        r.require(ty == 'std::mem::ManuallyDrop<fd::AsyncFd>', 'stdio-type:%s' % name, '%s holds %s instead of ManuallyDrop<AsyncFd>' % (name, ty))
        d = facts.fn('<%s as std::ops::Drop>::drop' % name)
        calls = [(t.get('callee') or '') for loc, t in d.calls()]
        dips = [(loc, t) for loc, t in d.calls() if (t.get('callee') or '') == 'std::ptr::drop_in_place']
        ok = len(dips) == 1 and fam.last_field(ExprBuilder(d).operand(dips[0][1]['args'][0])) == 'sq'
        r.inst('%s::drop drops only .sq: %s' % (name, ok), d.where())
        r.require(ok and not any('ManuallyDrop::<T>::drop' in c for c in calls), 'stdio-drop:%s' % name, 'Drop of %s does more than dropping the queue handle: %s' % (name, calls), d.where())
    r.require(n == 3, 'stdio-count', 'expected 3 constant-descriptor wrappers (stdin/stdout/stderr), found %d' % n)
    r.floor(6)


def fd_producing_ops(facts):
    mroles = map_fn_roles(facts)
    ops = {}
    for g, loc, t in from_raw_sites(facts):
        if g.path in mroles:
            ops[mroles[g.path][1]['self']] = g
    return ops


def r8_abandoned(r, facts):
    ops = fd_producing_ops(facts)
    u = facts.fn(life.UPDATE)
    d = life.dispatch_edges(u, 'Dropped')
    if not r.require(len(d) == 1, 'Shared::update', 'Dropped arm not found', u.where()):
        return
    reach = u.reachable_locs([Loc(d[0]['edge'][1], 0)])
    reads_res = False
    for loc in reach:
        if u.is_term(loc):
            continue
        s = u.at(loc)
        if s['k'] == 'assign':
            from .kernel import rvalue_places
            for pl in rvalue_places(s['rv']):
                if any(p['k'] == 'field' and p.get('name') == 'res' for p in pl['p']):
                    reads_res = True
    # the drop function is type-erased over (T,R,A): a per-operation hook would show up as a call in drop_state / the Drop arm
    ds = facts.fn(life.DROP_STATE)
    hook = any((t.get('callee_trait') or '').startswith('io_uring::op::') for loc, t in ds.calls())
    for op, g in sorted(ops.items()):
        name = op.split('::')[-1].split('<')[0]
        r.inst('descriptor-producing operation %s' % op, g.where())
        r.require(reads_res and hook, name, 'when %s was abandoned (future dropped while running) the completion carrying the new descriptor is discarded without looking at its result: the descriptor is never closed (leak)' % op, u.where(Loc(d[0]['edge'][1], 0)))
    r.floor(6, 'descriptor-producing operations')


def r9_abandoned_close(r, facts):
    """close(self) disowns the descriptor: something must still own (and eventually close) it while the Close
    future has not completed"""
    f = facts.fn('io::<impl fd::AsyncFd>::close')
    md = [(loc, t) for loc, t in f.calls() if (t.get('callee') or '') == 'std::mem::ManuallyDrop::<T>::new']
    news = [(loc, t) for loc, t in f.calls() if (t.get('callee') or '').endswith('::new') and 'Close' in (t.get('callee') or '')]
    if not r.require(len(news) == 1, 'AsyncFd::close/Close::new', 'Close::new call not found', f.where()):
        return
    loc, t = news[0]
    tys = [a.get('ty') or '' for a in t['args'][1:]]
    owning = [ty for ty in tys if any(o in ty for o in ('fd::AsyncFd', 'OwnedFd'))]
    # or: the operation state has a per-operation hook for abandoned operations (see R8)
    ds = facts.fn(life.DROP_STATE)
    hook = any((c.get('callee_trait') or '').startswith('io_uring::op::') for l2, c in ds.calls())
    r.inst('close(): self disowned by ManuallyDrop=%s; Close::new component types %s; owning component: %s; abandoned-operation hook: %s' % (bool(md), tys, owning, hook), f.where(loc))
    r.require(not md or owning or hook, 'AsyncFd::close/abandoned', 'close(self) gives up ownership of the descriptor (ManuallyDrop) and passes a bare (RawFd, Kind) to the Close future: if that future is dropped before it completes (never polled, or cancelled while running) nothing owns the descriptor and it is never closed', f.where(loc))
    r.floor(1)


DISOWN_SITES = {
    # who may put an AsyncFd itself beyond the reach of Drop, and why
    'io::stdin': 'standard stream: never closed (R7)',
    'io::stdout': 'standard stream: never closed (R7)',
    'io::stderr': 'standard stream: never closed (R7)',
    'io::<impl fd::AsyncFd>::close': 'explicit close takes over (R6, R9)',
}


def r10_disown(r, facts):
    """Drop is the only thing that closes a descriptor: a value that owns an AsyncFd may be wrapped in ManuallyDrop /
    forgotten only at the sanctioned sites, and a wrapper type that is taken apart that way must move every
    descriptor-owning field out (ptr::read) — a field left behind is a descriptor nobody closes"""
    own = {'fd::AsyncFd'}
    grow = True
    rx = lambda o: re.compile(r'(?<![\w:])' + re.escape(o) + r'(?![\w])')
    while grow:
        grow = False
        for a in facts.adts.values():
            if a['path'] in own:
                continue
            for v in a['variants']:
                for fl in v['fields']:
                    ty = fl['ty']
                    if ty.startswith('&') or 'ManuallyDrop<' in ty or '*const' in ty or '*mut' in ty:
                        continue
                    if any(rx(o).search(ty) for o in own):
                        own.add(a['path'])
                        grow = True
    n = 0
    for f in facts.func_list:
        for loc, t in f.calls():
            c = t.get('callee') or ''
            if c not in ('std::mem::ManuallyDrop::<T>::new', 'std::mem::forget') or f.blocks[loc[0]]['cleanup'] or not t['args']:
                continue
            ty = (t['args'][0].get('ty') or '')
            base = re.sub(r'<.*', '', ty)
            if base not in own:
                continue
            n += 1
            if base == 'fd::AsyncFd':
                r.inst('%s disowns an AsyncFd: %s' % (f.path, DISOWN_SITES.get(f.path, '?')), f.where(loc))
                r.require(f.path in DISOWN_SITES, 'disown:%s' % f.path, 'an AsyncFd is put beyond the reach of Drop (%s) outside the sanctioned sites %s: its descriptor is never closed' % ('ManuallyDrop::new' if c.endswith('new') else 'mem::forget', sorted(DISOWN_SITES)), f.where(loc))
                continue
            adt = facts.adts.get(base)
            owning = [fl['name'] for v in adt['variants'] for fl in v['fields']
                      if any(rx(o).search(fl['ty']) for o in own) and not fl['ty'].startswith('&') and 'ManuallyDrop<' not in fl['ty']] if adt else []
            eb = ExprBuilder(f, multi='phi')
            moved = set()
            for l2, t2 in f.calls():
                if (t2.get('callee') or '') in ('std::ptr::read', 'std::ptr::read_unaligned', 'std::mem::replace', 'std::mem::take') and t2['args']:
                    for x in subexprs(eb.operand(t2['args'][0])):
                        if x[0] == 'proj' and fam.last_field(x) in owning:
                            moved.add(fam.last_field(x))
            r.inst('%s takes %s apart: owning fields %s, moved out %s' % (f.path, base, owning, sorted(moved)), f.where(loc))
            for fld in owning:
                r.require(fld in moved, 'disown:%s/%s' % (f.path, fld), '%s is wrapped in %s and taken apart, but its field `%s` (which owns a descriptor) is not moved out: the descriptor it holds is never closed' % (base, 'ManuallyDrop::new' if c.endswith('new') else 'mem::forget', fld), f.where(loc))
    r.floor(5, 'drop-suppression sites of descriptor-owning values')


def check(ctx):
    ctx.run('C07.R1', 'AsyncFd is neither Clone nor Copy and has a Drop impl', r1_unique_owner)
    ctx.run('C07.R2', 'wrap once: origins of descriptors given to AsyncFd::from_raw', r2_wrap_once)
    ctx.run('C07.R3', 'kind agreement between fill_submission and map_ok/map_next', r3_kind_agreement)
    ctx.run('C07.R4', 'AsyncFd::drop: queued close XOR one synchronous close of the right kind', r4_drop_paths)
    ctx.run('C07.R5', 'close encodings vs ABI (fd / file_index=fd+1 / files_update) and the bit-31 kind encoding', r5_encodings)
    ctx.run('C07.R6', 'AsyncFd::close(self): ManuallyDrop, sq read once, (fd, kind) passed on', r6_close_self)
    ctx.run('C07.R7', 'standard-stream handles never close their descriptor', r7_stdio)
    ctx.run('C07.R10', 'who may suppress the Drop of a descriptor-owning value; wrappers taken apart move every owning field out', r10_disown)
    ctx.run('C07.R9', 'a Close future abandoned before completion still leaves the descriptor owned by something that closes it', r9_abandoned_close)
    ctx.run('C07.R8', 'abandoned descriptor-producing operations must inspect the completion result', r8_abandoned)


def check_extra(ctx):
    if ctx.tier != 'thorough':
        return
    from . import witness
    ctx.run('C07.W', 'compile-fail witnesses: AsyncFd cannot be used after close()/move, is not Clone', lambda r, facts: witness.run_group(r, ctx.repo, 'c07'))
