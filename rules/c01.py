"""C01 Kernel-shared memory outlives the operation."""
import re

from .kernel import ExprBuilder, Loc, access_path, subexprs
from . import families as fam
from . import life
from . import addr
from . import c09

EXPLANATION = (
    "Decides, for all operation kinds at once, the structural conditions under which memory handed to the kernel "
    "stays allocated until the final completion: (R1) Buf/BufMut/BufSlice/BufMutSlice require Self: 'static (trait "
    "facts; compile-fail witnesses in the thorough tier); (R2-R6) LIFE-1..5: the heap block whose address is the "
    "user_data is freed at one site, reachable only when the status is not Running or from the completion handler "
    "on a completion without F_MORE after the future marked it Dropped; a running single-shot never reads or moves "
    "its resources; (R7) LIFE-6 the state is Running whenever the kernel may own the SQE; (R8) LIFE-7 no operation "
    "type can be dropped around the state machine; (R9) ADDR: in every fill_submission (and msghdr initialisers) "
    "every pointer->integer conversion reaching the SQE originates in the resources/args parameters, static data "
    "or null — never the address of a function local or of the borrowed fd; (R10) PROV: every provided buffer impl "
    "returns pointers that go through a heap/static indirection or delegate to an inner impl, never the address of "
    "a field of self (operations compute pointers before moving the buffer into the boxed state); (R11) the "
    "restart path keeps the memory (C09.R2); (R12) the SQ mapping is reachable only through Arc<Shared> and "
    "unmapped only by Drop impls / error paths of the constructors. It assumes the kernel stops touching memory at "
    "the final CQE and that Mutex/Arc/Box are correct."
)
NOT_DECIDED = "that the kernel stops using memory at the final CQE; allocator behaviour; thread timing (rules hold on every path, so they are schedule independent)"
ASSUMPTIONS = ["IORING_FEAT_SUBMIT_STABLE (checked under C18.R3): SQE-referenced argument structs are consumed at submit time"]

BUF_TRAITS = ['io::traits::Buf', 'io::traits::BufMut', 'io::traits::BufSlice', 'io::traits::BufMutSlice']


def r1_static(r, facts):
    for tr in BUF_TRAITS:
        t = facts.traits.get(tr)
        if not r.require(t is not None, tr, 'trait %s not found' % tr):
            continue
        sup = t['super']
        r.inst('%s: %s' % (tr, sup))
        r.require(any(re.match(r"^Self: 'static$", s) for s in sup), tr, "trait %s lacks the `Self: 'static` super-bound: borrowed buffers could be handed to the kernel" % tr)
        r.require(t['unsafe'], tr + '/unsafe', 'trait %s is no longer an unsafe trait' % tr)
    # the public operation constructors take buffers bounded by these traits (spot facts): every generic type
    # parameter that ends up as Resources of an operation future carries one of the bounds
    n = 0
    for a in facts.adts.values():
        pass
    r.floor(4)


def r12_handles(r, facts):
    holders = []
    for a in facts.adts.values():
        for v in a['variants']:
            for fl in v['fields']:
                if re.search(r'(^|[<\s(,])io_uring::Shared($|[>,)\s])', fl['ty']):
                    holders.append((a['path'], fl['name'], fl['ty']))
    for h in holders:
        r.inst('%s.%s: %s' % h)
        ok = h[0] == 'io_uring::sq::Submissions' and h[2] == 'std::sync::Arc<io_uring::Shared>'
        r.require(ok, 'holder:%s.%s' % (h[0], h[1]), 'io_uring::Shared is held other than through Submissions{shared: Arc<Shared>}: %s' % h[2])
    r.require(len(holders) == 1, 'holders', 'expected exactly one owner field of io_uring::Shared, found %d' % len(holders))
    allowed = {'<io_uring::Shared as std::ops::Drop>::drop', '<io_uring::cq::Completions as std::ops::Drop>::drop',
               'io_uring::mmap', 'io_uring::Shared::new::{closure#0}'}
    n = 0
    for g, loc, t in facts.callers.get('io_uring::munmap', []):
        n += 1
        r.inst('munmap in %s' % g.path, g.where(loc))
        # the constructors may unmap what they mapped themselves on their error paths (pairing is C18.R2), directly or in a clean-up closure
        ctor = any(g.path == c or g.path.startswith(c + '::{closure') for c in ('io_uring::Shared::new', 'io_uring::cq::Completions::new'))
        if not (g.path in allowed or ctor):
            # a clean-up guard type (`UnmapOnDrop`) that only the constructors create: its Drop is their error path
            m_ = re.match(r'^<(.+) as std::ops::Drop>::drop$', g.path)
            if m_:
                ty_ = m_.group(1)
                made = [h.path for h in facts.func_list for _, s_ in h.assigns(cleanup=True) if s_['rv']['k'] == 'agg' and (s_['rv'].get('adt') or '') == ty_]
                held = [a_['path'] for a_ in facts.adts.values() for v_ in a_['variants'] for fl_ in v_['fields'] if re.search(r'(^|[<\s(,])%s($|[>,)\s])' % re.escape(ty_), fl_['ty'])]
                ctor = bool(made) and not held and all(any(p_ == c or p_.startswith(c + '::{closure') for c in ('io_uring::Shared::new', 'io_uring::cq::Completions::new')) for p_ in made)
        r.require(g.path in allowed or ctor, 'munmap:%s' % g.path, 'the ring memory is unmapped outside the owning Drop impls / constructor error paths', g.where(loc))
    for g, loc, t in facts.callers.get('libc::munmap', []):
        r.require(g.path == 'io_uring::munmap', 'libc-munmap:%s' % g.path, 'raw libc::munmap outside the io_uring::munmap wrapper', g.where(loc))
    r.require(n >= 4, 'munmap-sites', 'expected >= 4 munmap call sites (2 drops, 2 error paths), found %d' % n)
    # the SQ slots pointer is read only in Submissions::add and Shared::drop / new
    users = set()
    for f in facts.func_list:
        for loc, s in f.assigns():
            for pl in [s['rv'].get('place')] + [o for o in __import__('rules.kernel', fromlist=['rvalue_operands']).rvalue_operands(s['rv'])]:
                if pl and 'l' in pl and any(p['k'] == 'field' and p.get('name') == 'submissions' and p.get('adt') == 'io_uring::Shared' for p in pl['p']):
                    users.add(f.path)
    for u in sorted(users):
        r.inst('reads Shared.submissions: %s' % u)
        r.require(u in ('io_uring::sq::Submissions::add', '<io_uring::Shared as std::ops::Drop>::drop', '<io_uring::Shared as std::fmt::Debug>::fmt'),
                  'submissions-user:%s' % u, 'the SQ slot array is accessed outside Submissions::add / Shared::drop')
    r.floor(5)


def check(ctx):
    ctx.run('C01.R1', "buffer traits require Self: 'static and are unsafe traits", r1_static)
    ctx.run('C01.R2', 'LIFE-1 single deallocation site of the operation state', life.life1)
    ctx.run('C01.R3', 'LIFE-2 who may free', life.life2)
    ctx.run('C01.R4', 'LIFE-3 drop defers while Running', life.life3)
    ctx.run('C01.R5', 'LIFE-4 free/Done only on the final completion (covers two-step sends)', life.life4)
    ctx.run('C01.R6', 'LIFE-5 resource access discipline in poll_inner', life.life5)
    ctx.run('C01.R7', 'LIFE-6 Running published under the lock together with the submission', life.life6)
    ctx.run('C01.R8', 'LIFE-7 every state-owning type routes Drop through OpState::drop', life.life7)
    ctx.run('C01.R9', 'ADDR: addresses in SQEs/msghdr originate in resources/args/static/null only', addr.addr_rule)
    ctx.run('C01.R10', 'PROV: buffer impls never return pointers into the buffer value itself', addr.prov_rule)
    ctx.run('C01.R11', 'restart keeps the memory (no resource use between EINTR/ECANCELED and resubmission)', c09.r2_pure_restart)
    ctx.run('C01.R12', 'SQ mapping reachable only via Arc<Shared>; unmapped only by owners', r12_handles)
    ctx.run('C01.R13', 'LIFE-8 State::reset only from Complete', life.life8)


def check_extra(ctx):
    if ctx.tier != 'thorough':
        return
    from . import witness
    ctx.run('C01.W', "compile-fail witnesses: borrowed buffer types / borrowed slices are rejected ('static)", lambda r, facts: witness.run_group(r, ctx.repo, 'c01'))
