"""C10 All-or-error composite I/O is exact under arbitrary short transfers."""
import re

from .kernel import (ExprBuilder, Loc, access_path, subexprs, variant_edges, is_local, const_val, proj_str)
from . import families as fam
from . import life

EXPLANATION = (
    "Composites are derived as the functions that call OpState::reset on an inner operation (WriteAll, "
    "WriteAllVectored, SendAll, SendAllVectored, ReadN, ReadNVectored, RecvN, RecvNVectored). Decided on every path: "
    "(R1) every component of the continuation arguments given to reset originates in a field of the composite "
    "(offset, flags, send_op), never a constant; (R2) every builder method that writes an inner argument through "
    "args_mut() mirrors the same value into the retained field; (R3) the successful exit of write/send composites "
    "is controlled by a value derived from all buffers (the skipping wrapper's parts() length, or an iteration over "
    "the whole iovec array) — a test on one indexed element is a violation; (R4) on the zero-progress edge the "
    "composite returns WriteZero/UnexpectedEof and reaches no reset; every reset is dominated by the progress edge; "
    "(R5) bookkeeping: n flows into skip, into offset only under offset != NO_OFFSET, left -= last_read, "
    "last_read >= left => done; (R6) a BufMut wrapper forwards buffer_init iff it forwards parts (pool hooks); "
    "(R7) extract variants return the inner buffer; reset asserts Complete (LIFE-8). Byte-exact outcomes for every "
    "short-transfer sequence are not decided."
    " Also decided: (R3 polarity) the successful exit lies on the edge on which nothing is left (all(len == 0) / parts().1 == 0, negations resolved); (R9) the iovec walk of the vectored composites: count from self.skip, decreased by the element length on the fully-transferred edge, element emptied, partial element advanced by the count, walk stops; (R10) buffer wrappers pass set_init/buffer_init on with the same count on every path and record last_read; (R11 = C14.R9) the iovec views' set_len/skip/len/ptr do what the walk assumes."
)
NOT_DECIDED = "byte-exact outcomes for all sequences of short transfer sizes"
ASSUMPTIONS = ["the inner operations report the number of bytes transferred (C13.R5)"]

RESET = 'op::OpState::reset'
WRITE_LIKE = re.compile(r'(WriteAll|SendAll)')
READ_LIKE = re.compile(r'(ReadN|RecvN)')


def composites(facts):
    out = []
    for g, loc, t in facts.callers.get(RESET, []):
        if t['k'] != 'call' or g.blocks[loc[0]]['cleanup']:
            continue
        if g.path.startswith('process::'):
            continue
        out.append((g, loc, t))
    return out


def self_field(e):
    """expr is (a field of) the composite itself: returns field path or None"""
    ap = access_path(e)
    if ap is None:
        return None
    base, path = ap
    if base[0] == 'arg' and base[1] == 1 and path:
        return path
    return None


def r1_continuation_args(r, facts):
    cs = composites(facts)
    for g, loc, t in cs:
        eb = ExprBuilder(g, multi='phi')
        a = eb.operand(t['args'][2])
        comps = list(a[3]) if a[0] == 'agg' and a[1] == 'tuple' else [a]
        names = []
        for i, c in enumerate(comps):
            fld = self_field(c)
            names.append(fld or str(c))
            r.require(fld is not None, '%s/arg%d' % (short(g.path), i),
                      'continuation argument %d of the re-issued operation is %s, not a setting retained from the caller (flags/offset/zero-copy mode chosen by the caller are lost on continuation)' % (i, c), g.where(loc))
        r.inst('%s: reset(.., %s)' % (short(g.path), names), g.where(loc))
    r.floor(8, 'composite continuation sites')


def short(path):
    m = re.search(r'(\w+)(::<[^>]*>)?::(poll_inner|poll)$', path.replace('<', '<').split(' as ')[0])
    m2 = re.search(r'(io|net)::(\w+)', path)
    return m2.group(2) if m2 else path


def composite_adts(facts):
    s = set()
    for g, loc, t in composites(facts):
        st = g.j.get('impl_self') or ''
        m = re.match(r'^([\w:]+)<', st)
        if m:
            s.add(m.group(1))
    return s


def r2_mirrored_setters(r, facts):
    adts = composite_adts(facts)
    n = 0
    for f in facts.func_list:
        st = f.j.get('impl_self') or ''
        m = re.match(r'^([\w:]+)<', st)
        if not m or m.group(1) not in adts or f.kind == 'closure':
            continue
        if f.path.endswith('::poll') or f.path.endswith('::poll_inner'):
            continue
        am = [(loc, t) for loc, t in f.calls() if (t.get('callee') or '') == 'op::OpState::args_mut']
        if not am:
            continue
        n += 1
        eb = ExprBuilder(f, multi='phi')
        inner_writes = []
        field_writes = []
        for loc, s in f.assigns():
            lhs = s['lhs']
            if not lhs['p']:
                continue
            pe = eb.place(lhs)
            v = eb.rvalue(s['rv'])
            if any(x[0] == 'call' and x[1] == 'op::OpState::args_mut' for x in subexprs(pe)):
                inner_writes.append((loc, pe, v))
            else:
                ap = access_path(pe)
                if ap and ap[0][0] == 'arg' and ap[0][1] == 1 and ap[1] and not ap[1].split('.')[0].isdigit():
                    field_writes.append((loc, ap[1], v))
        r.inst('%s: inner writes=%d retained writes=%s' % (f.path, len(inner_writes), [fw[1] for fw in field_writes]), f.where())
        r.require(bool(inner_writes), 'setter:%s' % f.path, 'builder calls args_mut() but writes nothing through it', f.where())
        for loc, pe, v in inner_writes:
            ok = any(fv == v for _, _, fv in field_writes)
            r.require(ok, 'setter:%s' % f.path, 'builder sets an argument of the inner operation (%s) without retaining it in the composite: the setting is lost on the first continuation' % (v,), f.where(loc))
        for loc, name, fv in field_writes:
            ok = any(v == fv for _, _, v in inner_writes)
            r.require(ok, 'setter:%s/retained-only' % f.path, 'builder retains %s but does not apply it to the first submission' % name, f.where(loc))
    # ... and the constructors: what a composite retains at birth is what its first submission was built with.  A composite
    # created in "current position" mode (inner operation built with NO_OFFSET) that retains a real offset continues with
    # positional reads/writes after the first short transfer (wrong bytes, cursor left behind)
    nc = 0
    for f in facts.func_list:
        if f.kind == 'closure':
            continue
        for loc, s_ in f.assigns():
            rv = s_['rv']
            if rv['k'] != 'agg' or (rv.get('adt') or '') not in adts or 'offset' not in (rv.get('fields') or []):
                continue
            eb = ExprBuilder(f, multi='phi')
            fm = dict(zip(rv['fields'], [eb.operand(o) for o in rv['ops']]))
            off = fm['offset']
            # the inner operation: a call in this function into the crate whose body constructs an operation future
            inner_args = []
            for nm_, e_ in fm.items():
                for x in subexprs(e_):
                    if x[0] == 'call':
                        g = facts.fn_opt(x[3] if len(x) > 3 and x[3] else x[1]) or facts.fn_opt(x[1])
                        if g is None:
                            continue
                        eg = ExprBuilder(g, multi='phi')
                        for l2, t2 in g.calls():
                            if re.match(r'^(.+?)(::<.*>)?::new$', t2.get('callee') or '') and len(t2['args']) == 3:
                                inner_args.append((g, eg.operand(t2['args'][2])))
            if not inner_args:
                continue
            nc += 1
            is_no = lambda x: x[0] == 'const' and str(x[2]).endswith('NO_OFFSET')
            inner_no = any(is_no(x) for g, a in inner_args for x in subexprs(a))
            off_s = off
            while off_s[0] == 'cast':
                off_s = off_s[4]
            r.inst('%s: %s born with offset %s, first submission built with %s' % (f.path, rv['adt'].split('::')[-1], str(off_s)[:40], 'NO_OFFSET' if inner_no else 'an explicit offset'), f.where(loc))
            if inner_no:
                r.require(is_no(off_s), 'ctor:%s/offset' % f.path, 'the first submission uses the current file position (NO_OFFSET) but the composite retains offset %s: after the first short transfer the continuation is issued at an absolute offset (wrong data for a cursor that was not at 0; the cursor is left behind)' % (str(off_s)[:60],), f.where(loc))
    r.require(nc >= 4, 'ctor/floor', 'only %d composite constructors with a retained offset found (read_n, read_n_vectored, write_all, write_all_vectored expected)' % nc)
    r.floor(8, 'composite builder methods')


def ok_returns(f):
    """assignments _0 = Poll::Ready(Ok(x)) where x is not an error: returns [(loc, payload expr)]"""
    eb = ExprBuilder(f, multi='leaf')
    out = []
    for loc, s in f.assigns():
        if s['lhs']['l'] != 0 or s['lhs']['p']:
            continue
        e = eb.rvalue(s['rv'])
        if e[0] == 'agg' and e[1].endswith('Poll::Ready') and e[3] and e[3][0][0] == 'agg' and e[3][0][1].endswith('Result::Ok'):
            out.append((loc, e[3][0][3][0] if e[3][0][3] else None))
    return out


def controlling_switches(f, loc):
    """switch blocks with an edge that dominates loc, innermost last"""
    out = []
    for b, blk in enumerate(f.blocks):
        if blk['cleanup'] or blk['term']['k'] != 'switch':
            continue
        for tgt in set(f.succ[b]):
            if f.edge_dominates((b, tgt), loc) and not f.dominates(Loc(tgt, 0), Loc(b, 0)):
                out.append((b, tgt))
    out.sort(key=lambda e: len(f.dom.get(e[0], ())))
    return out


def _buf_accessor_from_parts(facts, call_expr):
    """`buf.is_empty()` / `buf.len()` on a buffer wrapper that leaves them at the trait's defaults, which read
    `parts()`: as good as testing `parts().1` itself"""
    if not (call_expr[0] == 'call' and call_expr[1] in ('io::traits::Buf::is_empty', 'io::traits::Buf::len')):
        return False
    # the defaults: is_empty -> len -> parts
    dlen, dempty = facts.fn_opt('io::traits::Buf::len'), facts.fn_opt('io::traits::Buf::is_empty')
    if dlen is None or dempty is None:
        return False
    if not any((t.get('callee') or '') == 'io::traits::Buf::parts' for l, t in dlen.calls()):
        return False
    if not any((t.get('callee') or '') == 'io::traits::Buf::len' for l, t in dempty.calls()):
        return False
    # the wrappers the composites use (SkipBuf): no override of either
    for i in facts.impls_of('io::traits::Buf'):
        if (i.get('self_adt') or '').endswith('SkipBuf'):
            names = {it['name'] for it in i['items']}
            if names & {'len', 'is_empty'}:
                return False
    return True


def _done_polarity(g, facts, eb, b, tgt, de):
    """True: the edge (b -> tgt) that leads to the successful exit is the one on which nothing is left to transfer;
    False: it is the opposite edge; None: form not recognised (no verdict).  Forms: a switch on the remaining length
    itself (`match parts().1 { 0 => done }`), `len == 0` / `len != 0` / `is_empty()`, `all(|v| v.len() == 0)` /
    `any(|v| v.len() != 0)` over the iovecs, each possibly negated."""
    t = g.term(b)
    vals = {int(v): tg for v, tg in t['targets']}
    neg = False
    while de[0] == 'un' and de[1] == 'Not':
        de, neg = de[2], not neg
    if t.get('discr_ty') != 'bool' and not (de[0] == 'bin' or de[0] == 'call'):
        # integer switch on the remaining length: value 0 = nothing left
        if 0 in vals and any(x[0] == 'call' and x[1].endswith('::parts') for x in subexprs(de)):
            return tgt == vals[0]
        return None
    on_true = (tgt == vals.get(1, t['otherwise'])) if 1 in vals or 0 in vals else None
    if 0 in vals and tgt == vals[0]:
        on_true = False
    elif 0 in vals:
        on_true = True
    if on_true is None:
        return None
    if neg:
        on_true = not on_true

    def empty_test(e):
        """'E' if e is true exactly when a length is 0, 'N' if true exactly when it is not, None otherwise"""
        flip = False
        while e[0] == 'un' and e[1] == 'Not':
            e, flip = e[2], not flip
        res = None
        if e[0] == 'bin' and e[1] in ('Eq', 'Ne') and any(y[0] == 'const' and y[1] == 0 for y in (e[2], e[3])):
            other = e[3] if (e[2][0] == 'const' and e[2][1] == 0) else e[2]
            if any(x[0] == 'call' and (x[1].endswith('::len') or x[1].endswith('::parts') or x[1].endswith('total_len')) for x in subexprs(other)):
                res = 'E' if e[1] == 'Eq' else 'N'
        elif e[0] == 'call' and e[1].endswith('::is_empty'):
            res = 'E'
        if res and flip:
            res = 'N' if res == 'E' else 'E'
        return res
    if de[0] == 'call' and de[1] in ('std::iter::Iterator::all', 'std::iter::Iterator::any'):
        # the predicate closure
        kinds = set()
        for loc, t2 in g.calls():
            if (t2.get('callee') or '') != de[1] or g.blocks[loc[0]]['cleanup'] or len(t2['args']) != 2 or 'l' not in t2['args'][1]:
                continue
            for d in g.defs.get(t2['args'][1]['l'], []):
                st = g.at(d[0]) if not g.is_term(d[0]) else None
                if st and st.get('k') == 'assign' and st['rv']['k'] == 'agg' and st['rv'].get('ak') == 'closure':
                    cg = facts.fn_opt(st['rv'].get('closure') or '')
                    if cg is not None:
                        ce = ExprBuilder(cg, multi='phi')
                        for l2, s2 in cg.assigns():
                            if s2['lhs']['l'] == 0 and not s2['lhs']['p']:
                                kinds.add(empty_test(ce.rvalue(s2['rv'])))
        if len(kinds) != 1 or None in kinds:
            return None
        k = next(iter(kinds))
        if de[1].endswith('::all') and k == 'E':
            return on_true            # all empty  => done on the true edge
        if de[1].endswith('::any') and k == 'N':
            return not on_true        # any non-empty => done on the false edge
        # `all(non-empty)` / `any(empty)`: neither edge means "everything transferred"
        return False
    k = empty_test(de)
    if k is None:
        return None
    return on_true if k == 'E' else not on_true



def r3_completion_test(r, facts):
    n = 0
    for g, loc, t in composites(facts):
        if not WRITE_LIKE.search(g.path):
            continue
        n += 1
        eb = ExprBuilder(g, multi='phi')
        oks = ok_returns(g)
        if not r.require(len(oks) >= 1, '%s/ok' % short(g.path), 'successful exit not found', g.where()):
            continue
        for ol, payload in oks:
            cs = controlling_switches(g, ol)
            if not r.require(bool(cs), '%s/uncontrolled' % short(g.path), 'the successful exit is unconditional', g.where(ol)):
                continue
            b, tgt = cs[-1]
            de = eb.operand(g.term(b)['discr'])
            txt = str(de)
            indexed = [x for x in subexprs(de) if x[0] == 'proj' and any(re.match(r'^\[', p) for p in x[2])]
            whole = any(x[0] == 'call' and (x[1].endswith('::parts') or x[1] in ('std::iter::Iterator::all', 'std::iter::Iterator::any', 'io::traits::BufSlice::total_len', 'std::iter::Iterator::sum')) for x in subexprs(de))
            whole = whole or any(_buf_accessor_from_parts(facts, x) for x in subexprs(de))
            r.inst('%s: done-test %s' % (short(g.path), txt[:160]), g.where(g.term_loc(b)))
            pol = _done_polarity(g, facts, eb, b, tgt, de)
            r.inst('%s: done-test polarity: success on "%s"' % (short(g.path), {True: 'nothing left', False: 'SOMETHING LEFT', None: 'unrecognised'}[pol]), g.where(g.term_loc(b)))
            r.require(pol is not False, '%s/done-test-polarity' % short(g.path), 'the successful exit is taken when the buffers still hold bytes to transfer (and the transfer goes on when they are empty): the composite reports success after a partial transfer', g.where(g.term_loc(b)))
            if indexed and not whole:
                r.bad('%s/done-test' % short(g.path), 'completion is decided from one indexed buffer (%s): with an empty buffer in that position any partial transfer reports success' % (indexed[0],), g.where(g.term_loc(b)))
            elif not whole:
                r.bad('%s/done-test-unrecognised' % short(g.path), 'completion test is not derived from all input buffers (unrecognised form): %s' % txt[:200], g.where(g.term_loc(b)))
    r.floor(4, 'write/send composites')


def zero_test(f, eb, kind):
    """the switch testing `n == 0` (write: poll payload .1; read: .last_read):
    returns (bb, zero_target, nonzero_target)"""
    for b, blk in enumerate(f.blocks):
        t = blk['term']
        if blk['cleanup'] or t['k'] != 'switch':
            continue
        d = t['discr']
        vals = {int(v): tgt for v, tgt in t['targets']}
        if kind == 'write':
            # SWITCH on the integer itself: (poll result)@Ready.0@Ok.0.1 -> [0: zero]
            if 'l' in d and d['p'] and 0 in vals:
                names = [proj_str(p) for p in d['p']]
                if names[-1] == '.1' and '@Ok' in names:
                    return b, vals[0], t['otherwise']
            # or `let n = ..; if n == 0`: a comparison of the transferred count with 0
            e = eb.operand(d)
            if e[0] == 'bin' and e[1] in ('Eq', 'Ne') and any(y[0] == 'const' and y[1] == 0 for y in (e[2], e[3])):
                cnt = [y for y in (e[2], e[3]) if y[0] == 'proj' and y[2] and y[2][-1] == '.1' and '@Ok' in y[2]]
                if cnt:
                    if e[1] == 'Eq':
                        return b, vals.get(1, t['otherwise']), vals.get(0)
                    return b, vals.get(0), vals.get(1, t['otherwise'])
        else:
            e = eb.operand(d)
            # `match buf.last_read { 0 => .., n => .. }`: a switch on the count itself
            if t.get('discr_ty') != 'bool' and 0 in vals and fam.last_field(e) == 'last_read':
                return b, vals[0], t['otherwise']
            if e[0] == 'bin' and e[1] in ('Eq', 'Ne') and e[3][0] == 'const' and e[3][1] == 0 and fam.last_field(e[2]) == 'last_read':
                if e[1] == 'Eq':
                    return b, vals.get(1, t['otherwise']), vals.get(0)
                return b, vals.get(0), vals.get(1, t['otherwise'])
    return None


def r4_zero_progress(r, facts):
    for g, loc, t in composites(facts):
        kind = 'write' if WRITE_LIKE.search(g.path) else 'read'
        eb = ExprBuilder(g, multi='phi')
        zt = zero_test(g, eb, kind)
        name = short(g.path)
        if not r.require(zt is not None, '%s/zero-test' % name, 'no test for a zero-byte transfer (kernel accepted/returned nothing): the composite would retry forever or report success', g.where()):
            continue
        b, ztgt, nztgt = zt
        r.inst('%s: zero edge bb%d->bb%s' % (name, b, ztgt), g.where(g.term_loc(b)))
        resets = [l for gg, l, tt in composites(facts) if gg is g]
        hit = g.forward_paths_hit([Loc(ztgt, 0)], resets)
        r.require(hit is None, '%s/zero-retries' % name, 'after a zero-byte transfer the operation is re-issued (no progress loop)', g.where(hit[0]) if hit else '')
        # the error kind
        want = 'WriteZero' if kind == 'write' else 'UnexpectedEof'
        region = g.reachable_locs([Loc(ztgt, 0)])
        kinds = set()
        for l in region:
            if not g.is_term(l):
                s = g.at(l)
                if s['k'] == 'assign' and s['rv']['k'] == 'agg' and (s['rv'].get('adt') or '') == 'std::io::ErrorKind':
                    kinds.add(s['rv'].get('variant'))
        r.require(want in kinds, '%s/zero-error' % name, 'zero-byte transfer does not fail with %s (found %s)' % (want, sorted(kinds)), g.where(g.term_loc(b)))
        oks = [ol for ol, _ in ok_returns(g)]
        hit = g.forward_paths_hit([Loc(ztgt, 0)], oks)
        r.require(hit is None, '%s/zero-success' % name, 'a zero-byte transfer can report success', g.where())
        for rl in resets:
            r.require(g.edge_dominates((b, nztgt), rl) if nztgt is not None else False, '%s/reset-unguarded' % name, 'the operation is re-issued without the progress test dominating it', g.where(rl))
    r.floor(8, 'composites')


def offset_updates(g, eb):
    """the values stored into the u64 `offset` field of a composite, one entry per alternative:
    (location of the alternative, expression, guard) with guard 'ne' / 'eq' when the alternative is only reached
    with offset != NO_OFFSET / offset == NO_OFFSET.  `if offset != NO_OFFSET { offset += n }` has one alternative;
    `offset = if offset == NO_OFFSET { NO_OFFSET } else { offset + n }` (also inside a helper) has two."""
    out = []
    for l, s in g.assigns():
        names = [p.get('name') for p in s['lhs']['p'] if p['k'] == 'field']
        if not (names[-1:] == ['offset'] and s['lhs']['ty'] == 'u64'):
            continue
        alts = [(l, s['rv'])]
        seen = set()
        while True:
            nxt = []
            for al, rv in alts:
                if rv['k'] == 'use' and 'l' in rv['op'] and not rv['op']['p'] and rv['op']['l'] not in seen:
                    ds = [d for d in g.defs.get(rv['op']['l'], []) if not g.blocks[d[0][0]]['cleanup']]
                    multi = len(ds) > 1 and all(d[1] == 'assign' for d in ds)
                    chain = len(ds) == 1 and ds[0][1] == 'assign' and ds[0][2]['k'] == 'use' and 'l' in ds[0][2]['op'] and not ds[0][2]['op']['p']
                    if multi or chain:
                        seen.add(rv['op']['l'])
                        nxt += [(d[0], d[2]) for d in ds]
                        continue
                nxt.append((al, rv))
            if nxt == alts:
                break
            alts = nxt
        for al, rv in alts:
            e = eb.rvalue(rv)
            if e[0] == 'proj' and e[2] == ('.0',):
                e = e[1]
            guard = None
            for (b, tgt) in controlling_switches(g, al):
                de = eb.operand(g.term(b)['discr'])
                if de[0] == 'bin' and de[1] in ('Ne', 'Eq') and fam.last_field(de[2]) == 'offset' and de[3][0] == 'const' and str(de[3][2]).endswith('NO_OFFSET'):
                    vals = {int(v): tg for v, tg in g.term(b)['targets']}
                    t_true = vals.get(1, g.term(b)['otherwise'])
                    holds = (tgt == t_true) if t_true != vals.get(0, g.term(b)['otherwise']) else None
                    if holds is not None:
                        guard = ('ne' if holds else 'eq') if de[1] == 'Ne' else ('eq' if holds else 'ne')
            out.append((al, e, guard))
    return out


def r5_bookkeeping(r, facts):
    for g, loc, t in composites(facts):
        name = short(g.path)
        eb = ExprBuilder(g, multi='leaf')
        kind = 'write' if WRITE_LIKE.search(g.path) else 'read'
        if kind == 'write':
            # skip += n
            ok_skip = False
            ok_off = None
            for l, s in g.assigns():
                names = [p.get('name') for p in s['lhs']['p'] if p['k'] == 'field']
                if names[-1:] == ['skip']:
                    if 'Vectored' in name:
                        # up to N buffers of up to u32::MAX bytes each: the cumulative count of bytes done needs 64 bits
                        r.inst('%s: cumulative skip counter is %s' % (name, s['lhs']['ty']), g.where(l))
                        r.require(s['lhs']['ty'] in ('u64', 'usize', 'u128'), '%s/skip-width' % name, 'the cumulative count of transferred bytes is kept in %s: with more than 4 GiB in all buffers together it wraps (debug builds panic, release builds hand data to the kernel a second time)' % s['lhs']['ty'], g.where(l))
                    e = eb.rvalue(s['rv'])
                    if e[0] == 'proj' and e[2] == ('.0',):
                        e = e[1]
                    if e[0] == 'bin' and e[1].startswith('Add') and fam.last_field(e[2]) == 'skip':
                        src = [x for x in subexprs(e[3]) if (x[0] == 'proj' and x[2][-1:] == ('.1',)) or (x[0] == 'local' and x[2] == 'n')]
                        ok_skip = ok_skip or bool(src)
            for l, e, guard in offset_updates(g, eb):
                if e[0] == 'bin' and e[1].startswith('Add') and fam.last_field(e[2]) == 'offset':
                    # the increment is the byte count of *this* transfer (not a cumulative counter)
                    inc = e[3]
                    while inc[0] == 'cast':
                        inc = inc[4]
                    is_n = (inc[0] == 'local' and inc[2] == 'n') or (inc[0] == 'proj' and inc[2][-1:] == ('.1',) and '@Ok' in inc[2])
                    r.require(is_n, '%s/offset-step' % name, 'the file offset is advanced by %s instead of the number of bytes of the last transfer: from the second continuation on data lands at the wrong position' % (inc,), g.where(l))
                    # guarded by offset != NO_OFFSET
                    ok_off = (guard == 'ne') if ok_off is None else (ok_off and guard == 'ne')
                elif e[0] == 'const' and str(e[2]).endswith('NO_OFFSET') and guard != 'eq':
                    # NO_OFFSET stored although the operation is positional: the position is lost
                    ok_off = False
            r.inst('%s: skip+=n %s; offset advance guarded %s' % (name, ok_skip, ok_off), g.where())
            r.require(ok_skip, '%s/skip' % name, 'the transferred count does not advance the skip counter: bytes would be written twice', g.where())
            if 'Write' in name:
                r.require(ok_off is True, '%s/offset' % name, 'the file offset is not advanced by n under `offset != NO_OFFSET` (positional continuation writes at the wrong place / current-position writes get an offset)', g.where())
        else:
            ok_left = False
            for l, s in g.assigns():
                names = [p.get('name') for p in s['lhs']['p'] if p['k'] == 'field']
                if names[-1:] == ['left']:
                    e = eb.rvalue(s['rv'])
                    if e[0] == 'proj' and e[2] == ('.0',):
                        e = e[1]
                    ok_left = ok_left or (e[0] == 'bin' and e[1].startswith('Sub') and fam.last_field(e[2]) == 'left' and fam.last_field(e[3]) == 'last_read')
            done = False
            for ol, _ in ok_returns(g):
                for (b, tgt) in controlling_switches(g, ol):
                    de = eb.operand(g.term(b)['discr'])
                    if de[0] == 'bin' and de[1] in ('Ge', 'Lt', 'Le', 'Gt'):
                        a, c = fam.last_field(de[2]), fam.last_field(de[3])
                        vals = {int(v): tg for v, tg in g.term(b)['targets']}
                        t_true = vals.get(1, g.term(b)['otherwise'])
                        t_false = vals.get(0)
                        if (de[1], a, c) == ('Ge', 'last_read', 'left') and tgt == t_true:
                            done = True
                        if (de[1], a, c) == ('Le', 'left', 'last_read') and tgt == t_true:
                            done = True
                        if (de[1], a, c) == ('Lt', 'last_read', 'left') and tgt == t_false:
                            done = True
                        if (de[1], a, c) == ('Gt', 'left', 'last_read') and tgt == t_false:
                            done = True
            r.inst('%s: left-=last_read %s; done iff last_read>=left %s' % (name, ok_left, done), g.where())
            r.require(ok_left, '%s/left' % name, 'the remaining count is not decreased by the bytes just read', g.where())
            r.require(done, '%s/done' % name, 'success is not conditional on last_read >= left', g.where())
            if 'Read' in name:
                # positional continuation: offset += last_read under offset != NO_OFFSET
                ok_off = None
                for l, e, guard in offset_updates(g, eb):
                    if e[0] == 'bin' and e[1].startswith('Add') and fam.last_field(e[2]) == 'offset' and any(fam.last_field(x) == 'last_read' for x in subexprs(e[3])):
                        ok_off = (guard == 'ne') if ok_off is None else (ok_off and guard == 'ne')
                    elif e[0] == 'const' and str(e[2]).endswith('NO_OFFSET') and guard != 'eq':
                        ok_off = False
                r.inst('%s: offset += last_read guarded by != NO_OFFSET: %s' % (name, ok_off), g.where())
                r.require(ok_off is True, '%s/offset' % name, 'the read offset is not advanced by the bytes read under `offset != NO_OFFSET`', g.where())
    r.floor(8, 'composites')


def r6_forwarding(r, facts):
    n = 0
    for i in facts.impls_of('io::traits::BufMut'):
        adt = i.get('self_adt')
        if not adt or adt not in facts.adts:
            continue
        a = facts.adts[adt]
        if not a['generics']:
            continue  # not a wrapper around another buffer
        items = {it['name'] for it in i['items']}
        n += 1
        r.inst('%s: buffer_init=%s parts=%s' % (i['self'], 'buffer_init' in items, 'parts' in items), '%s:%s' % (i['span']['file'], i['span']['line']))
        r.require(('buffer_init' in items) == ('parts' in items), 'wrapper:%s' % adt,
                  'BufMut wrapper %s forwards %s but not %s: with a pool buffer inside, the submission and completion hooks disagree (zero-length read / unreachable!())' % (
                      adt, 'buffer_init' if 'buffer_init' in items else 'parts', 'parts' if 'buffer_init' in items else 'buffer_init'), '%s:%s' % (i['span']['file'], i['span']['line']))
        # forwarded hooks delegate to the inner buffer
        for it in i['items']:
            if it['name'] in ('buffer_init', 'parts'):
                f = facts.fn_opt(it['path'])
                if f is not None:
                    want = 'io::traits::BufMut::' + it['name']
                    r.require(any((t.get('callee') or '') == want for _, t in f.calls()), 'wrapper:%s/%s' % (adt, it['name']), '%s of %s does not delegate to the inner buffer' % (it['name'], adt), f.where())
    r.floor(2, 'BufMut wrappers')


def r7_extract(r, facts):
    for g, loc, t in composites(facts):
        name = short(g.path)
        for ol, payload in ok_returns(g):
            if payload is None:
                continue
            txt = str(payload)
            # returns the caller's buffer: field `buf` of the wrapper (single) or the bufs value taken from the poll result
            fld = fam.last_field(payload)
            ok = fld in ('buf',) or payload[0] in ('local',) or (payload[0] == 'proj')
            r.inst('%s returns %s' % (name, txt[:100]), g.where(ol))
            r.require(ok, '%s/returns' % name, 'the successful result is not the caller\'s buffer: %s' % txt[:200], g.where(ol))
    life.life8(r, facts)


def r9_iovec_walk(r, facts):
    """after a short vectored write/send the cumulative count of transferred bytes is distributed over the iovecs: buffers that
    were transferred completely are emptied (`set_len(0)`) and their length is taken off the count, the first buffer that
    was not is advanced by what is left of the count, and the walk stops there.  Decided per walk (whatever the loop is
    written as: `for`, `try_fold`, ..): the count is a local initialised from the composite's `skip` field; on the edge
    `len <= count` it is decreased by that element's length and the element emptied; `IoSlice::skip` gets the count."""
    from . import c14
    n = 0
    for g, loc, t in facts.callers.get('io::traits::IoSlice::skip', []):
        if t['k'] != 'call' or g.blocks[loc[0]]['cleanup'] or g.kind == 'closure' or not g.path.endswith('::poll_inner'):
            continue
        n += 1
        name = short(g.path)
        eg = ExprBuilder(g, multi='leaf')
        R = c14.counter_local(g, lambda e: fam.last_field(e) == 'skip', eg)
        if not r.require(R is not None, '%s/walk/counter' % name, 'the count of bytes to skip (initialised from self.skip, decreased per fully transferred buffer) was not found', g.where(loc)):
            continue

        def is_r(e):
            while e[0] == 'cast':
                e = e[4]
            return e[0] == 'local' and e[1] == R
        r.inst('%s: iovec walk with count _%d' % (name, R), g.where(loc))
        r.require(is_r(eg.operand(t['args'][1])), '%s/walk/amount' % name, 'the partially transferred buffer is not advanced by what is left of the count: %s' % (eg.operand(t['args'][1]),), g.where(loc))
        # the test that sends this element to skip(): its other edge is the "transferred completely" edge
        full_e = None
        for (b, tgt) in controlling_switches(g, loc):
            e = eg.operand(g.term(b)['discr'])
            if e[0] == 'bin' and e[1] in ('Le', 'Gt', 'Lt', 'Ge') and (is_r(e[2]) != is_r(e[3])):
                others = [x for x in set(g.succ[b]) if x != tgt]
                if len(others) == 1:
                    full_e = (b, others[0])
                    test = e
        if not r.require(full_e is not None, '%s/walk/test' % name, 'comparison of the element length with the count not found', g.where(loc)):
            continue
        len_side = test[3] if is_r(test[2]) else test[2]
        lens = [x for x in subexprs(len_side) if x[0] == 'call' and x[1].endswith('IoSlice::len')]
        r.require(bool(lens), '%s/walk/test' % name, 'the count is not compared with the element length: %s' % (test,), g.where(loc))
        dec = False
        for l, ee in getattr(g, 'counter_defs', {}).get(R, []):
            while ee[0] == 'cast' or (ee[0] == 'proj' and ee[2] == ('.0',)):
                ee = ee[4] if ee[0] == 'cast' else ee[1]
            sub = (ee[0] == 'bin' and ee[1].startswith('Sub') and is_r(ee[2]) and ee[3]) or \
                  (ee[0] == 'call' and ee[1].endswith(('saturating_sub', 'wrapping_sub')) and len(ee[2]) == 2 and is_r(ee[2][0]) and ee[2][1]) or None
            if sub and g.edge_dominates(full_e, Loc(*l)) and any(x[0] == 'call' and x[1].endswith('IoSlice::len') for x in subexprs(sub)):
                dec = True
        r.require(dec, '%s/walk/decrement' % name, 'the length of a completely transferred buffer is not taken off the count before the next buffer is looked at: the first partially transferred buffer is advanced by the cumulative count (beyond its data, or bytes are sent twice)', g.where(g.term_loc(full_e[0])))
        emptied = [l for l, t2 in g.calls() if (t2.get('callee') or '').endswith('IoSlice::set_len') and g.edge_dominates(full_e, l)]
        r.require(bool(emptied), '%s/walk/emptied' % name, 'a completely transferred buffer is not emptied (set_len(0)): its bytes are handed to the kernel again', g.where(g.term_loc(full_e[0])))
        # the walk ends at the partially transferred buffer
        nexts = [l for l, t2 in g.calls() if (t2.get('callee') or '') == 'std::iter::Iterator::next' and g.dominates(l, loc)]
        if t.get('target') is not None and nexts:
            hit = g.forward_paths_hit([Loc(t['target'], 0)], nexts)
            r.require(hit is None, '%s/walk/continues' % name, 'the walk goes on after the partially transferred buffer: later buffers are advanced by the same count', g.where(loc))
    r.require(n >= 2, 'walk/sites', 'expected the iovec walk of write_all_vectored and send_all_vectored, found %d' % n)
    r.floor(2)



def r10_wrapper_hooks(r, facts):
    """buffer wrappers (found structurally: an impl of BufMut / BufMutSlice whose `parts_mut` / `as_iovecs_mut` only forwards to a
    field of `self`) pass the completion on: `set_init(n)` / `buffer_init(id, n)` reach the inner buffer's method of the same
    name with the same `n` on every path to a return, and a wrapper that keeps a `last_read` count stores `n` in it on every
    path (read_n / recv_n decide "enough" and "end of stream" from it)."""
    n_w = 0
    for trait, probe in (('io::traits::BufMut', 'parts_mut'), ('io::traits::BufMutSlice', 'as_iovecs_mut')):
        wrappers = []
        for i, f in facts.impl_fns(trait, probe):
            eb = ExprBuilder(f, multi='phi')
            fw = [t for loc, t in f.calls() if (t.get('callee') or '') == '%s::%s' % (trait, probe) and t['args'] and fam.last_field(eb.operand(t['args'][0])) not in (None, '')
                  and not f.blocks[loc[0]]['cleanup']]
            if fw and not i['self'].startswith(('[', '(')):
                wrappers.append(i)
        for i in wrappers:
            for it in i['items']:
                if it['name'] not in ('set_init', 'buffer_init'):
                    continue
                f = facts.fn_opt(it['path'])
                if f is None:
                    continue
                n_w += 1
                name = '%s for %s::%s' % (trait.rsplit('::', 1)[1], i['self'].split('<')[0].rsplit('::', 1)[-1], it['name'])
                eb = ExprBuilder(f, multi='phi')
                n_arg = f.nargs          # the count is the last parameter of both hooks

                def is_n(e):
                    while e[0] == 'cast':
                        e = e[4]
                    return e[0] == 'arg' and e[1] == n_arg
                inner = [(loc, t) for loc, t in f.calls() if (t.get('callee') or '') == '%s::%s' % (trait, it['name']) and not f.blocks[loc[0]]['cleanup']
                         and t['args'] and fam.last_field(eb.operand(t['args'][0])) not in (None, '')]
                good = [(loc, t) for loc, t in inner if is_n(eb.operand(t['args'][-1]))]
                r.inst('%s: forwards to the inner buffer at %d site(s)' % (name, len(good)), f.where())
                for loc, t in inner:
                    r.require(is_n(eb.operand(t['args'][-1])), 'wrapper:%s/count' % name, 'the inner buffer is told %s instead of the count of this completion' % (eb.operand(t['args'][-1]),), f.where(loc))
                hit = f.forward_paths_hit([Loc(0, 0)], f.returns(), blockers=[loc for loc, t in good])
                r.require(hit is None, 'wrapper:%s/forward' % name, 'a path through %s returns without telling the inner buffer how many bytes the kernel wrote: the bytes of this completion are lost (never become part of the caller\'s buffer)' % it['name'], f.where())
                # a `last_read` field of the wrapper
                adt = facts.adts.get(i.get('self_adt') or '')
                has_lr = adt is not None and any(fl['name'] == 'last_read' for v in adt['variants'] for fl in v['fields'])
                if has_lr:
                    stores = [loc for loc, s_ in f.assigns() if s_['lhs']['p'] and [p_.get('name') for p_ in s_['lhs']['p'] if p_['k'] == 'field'][-1:] == ['last_read'] and is_n(eb.rvalue(s_['rv']))]
                    hit = f.forward_paths_hit([Loc(0, 0)], f.returns(), blockers=stores)
                    r.require(hit is None, 'wrapper:%s/last_read' % name, 'a path through %s does not record the count of this completion in last_read: read_n / recv_n take the transfer for an end of stream (UnexpectedEof) or count it twice' % it['name'], f.where())
    r.require(n_w >= 5, 'wrapper/sites', 'expected the completion hooks of the ReadNBuf and LimitedBuf wrappers (>= 5 methods), found %d' % n_w)
    r.floor(5)



def check(ctx):
    ctx.run('C10.R1', 'continuation arguments originate in retained fields of the composite', r1_continuation_args)
    ctx.run('C10.R2', 'builder setters write the inner argument and the retained field with the same value', r2_mirrored_setters)
    ctx.run('C10.R3', 'the completion test of write/send composites covers the whole input', r3_completion_test)
    ctx.run('C10.R4', 'zero progress => WriteZero / UnexpectedEof, no re-issue; re-issue only after progress', r4_zero_progress)
    ctx.run('C10.R5', 'progress bookkeeping: skip/offset/left updates and the done condition', r5_bookkeeping)
    ctx.run('C10.R6', 'BufMut wrappers forward buffer_init iff parts (pool hooks)', r6_forwarding)
    ctx.run('C10.R7', 'successful result is the caller\'s buffer; reset asserts Complete', r7_extract)
    ctx.run('C10.R9', 'vectored composites: the transferred count is distributed over the iovecs (emptied / decreased / advanced / stop)', r9_iovec_walk)
    ctx.run('C10.R10', 'buffer wrappers pass every completion on to the inner buffer (same count, every path) and record last_read', r10_wrapper_hooks)
    from . import c14
    ctx.run('C10.R11', 'iovec views do what the walk assumes: set_len stores, skip advances and shortens (=C14.R9)', c14.r9_iovec_wrappers)
    from . import c13
    ctx.run('C10.R8', 'every completion tells the buffer its size (set_init/buffer_init on every path, from this completion): the read_n/recv_n counters depend on it (=C13.R5)', c13.r5_decoders)
