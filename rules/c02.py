"""C02 Each operation receives exactly its own kernel results, once and in order."""
from .kernel import (specialise_value, resolve_upvars, is_local, ExprBuilder, Loc, access_path, bool_call_switches, const_switches, specialise,
                     subexprs, variant_edges)
from . import families as fam
from . import life
from . import c05

EXPLANATION = (
    "Decides the routing structure that makes 'own results, once, in order' possible: (R1) the only writers of "
    "sqe.user_data are the submit closure of poll_inner (value State::user_data(state), written after "
    "fill_submission and set_flags) and the three bookkeeping submitters with reserved constants — no "
    "fill_submission writes it; (R2) State::user_data = exposed address of self.data | tag chosen by IS_MULTISHOT, "
    "tag constants 0/1, TAG_MASK = !1, Data is repr(C) with the Mutex<Shared> first and alignment >= 4 so the "
    "tagged pointer never equals a reserved value and the address is the Mutex the handler casts to; (R3) "
    "Completion::process dispatches on tag bit 0 to SingleShared/MultiShared, dereferences the masked pointer and "
    "calls update exactly once; (R4) a NOTIF completion never overwrites the stored single-shot result; (R5) the "
    "multishot queue is push-back / remove-front (FIFO); (R6) hand-out in poll_inner: Done+empty => Complete and "
    "Res::done(), single-shot Done => Complete before the value, Complete arm panics, Dropped arm unreachable; with "
    "LIFE-4 (Done only on the final CQE). Distinctness of addresses of live states follows from the allocator and is not decided."
)
NOT_DECIDED = "that concurrently live states have distinct addresses (allocator property); kernel completion order"
ASSUMPTIONS = ["Box allocations of live states have distinct addresses", "the kernel echoes user_data unchanged"]

BOOKKEEPERS = {
    'io_uring::sq::Submissions::cancel::{closure#0}': 'io_uring::cq::CANCEL_USER_DATA',
    'io_uring::sq::Submissions::wake::{closure#0}': 'io_uring::cq::WAKE_USER_DATA',
    'io_uring::fd::<impl std::ops::Drop for fd::AsyncFd>::drop::{closure#0}': 'io_uring::cq::CLOSE_USER_DATA',
}


def r1_user_data_writers(r, facts):
    ws = c05.bookkeeping_user_data(facts)
    seen = set()
    for g, loc, e in ws:
        r.inst('%s: user_data = %s' % (g.path, e), g.where(loc))
        seen.add(g.path)
        if g.path == life.SUBMIT_CLOSURE:
            e = resolve_upvars(facts, g, e)
            r.require(e[0] == 'call' and e[1] == life.USER_DATA, 'writer:submit-closure', 'operation submissions are not tagged with State::user_data(state): %s' % (e,), g.where(loc))
        elif g.path in BOOKKEEPERS or any(bk.split('::{closure')[0] == g.path for bk in BOOKKEEPERS):
            # (a bookkeeper's closure body may have been folded into the function that owns it)
            want = facts.const(BOOKKEEPERS.get(g.path) or [v for bk, v in BOOKKEEPERS.items() if bk.split('::{closure')[0] == g.path][0])
            r.require(e[0] == 'const' and e[1] == want, 'writer:%s' % g.path, 'bookkeeping submission carries %s instead of the reserved constant %d' % (e, want), g.where(loc))
        else:
            r.bad('writer:%s' % g.path, 'unexpected writer of sqe.user_data (an operation could be tagged with a foreign or reserved value)', g.where(loc))
    for need in [life.SUBMIT_CLOSURE] + list(BOOKKEEPERS):
        r.require(need in seen, 'writer-missing:%s' % need, '%s no longer writes user_data (anchor changed?)' % need)
    # last writer: in the submit closure the write is dominated by fill_submission and set_flags, and no call
    # receives the submission after it
    c = facts.fn(life.SUBMIT_CLOSURE)
    eb = ExprBuilder(c)
    wloc = [loc for g, loc, e in ws if g.path == life.SUBMIT_CLOSURE]
    fills = [(loc, t) for loc, t in c.calls() if t.get('callee_trait') == 'std::ops::Fn']
    setf = [(loc, t) for loc, t in c.calls() if (t.get('callee') or '').endswith('OpTarget::set_flags')]
    r.require(len(fills) == 1 and len(setf) == 1, 'submit-closure/shape', 'fill_submission / set_flags calls not found in the submit closure (fill=%d set_flags=%d)' % (len(fills), len(setf)), c.where())
    for w in wloc:
        for loc, t in fills:
            r.require(c.dominates(loc, w), 'submit-closure/last-writer', 'user_data is written before %s ran (it could be overwritten)' % (t.get('callee'),), c.where(w))
        # calls that receive the submission after the write must be crate code (every crate function is covered by
        # the writer census above, so none of them can overwrite user_data): the OpTarget::set_flags impls qualify
        after = c.reachable_locs([Loc(w[0], w[1] + 1)])
        for loc, t in c.calls():
            if loc in after and any('l' in a and 'Submission' in a.get('ty', '') for a in t['args']):
                callee = t.get('callee') or ''
                crate_local = callee.endswith('OpTarget::set_flags') or facts.fn_opt(t.get('resolved') or callee) is not None
                r.require(crate_local, 'submit-closure/last-writer', 'the submission is passed to %s (not covered by the writer census) after user_data was set' % callee, c.where(loc))
    r.floor(4, 'user_data writers')


def r2_tag_layout(r, facts):
    f = facts.fn(life.USER_DATA)
    eb = ExprBuilder(f)
    single = facts.const('io_uring::cq::SINGLESHOT_TAG')
    multi = facts.const('io_uring::cq::MULTISHOT_TAG')
    mask = facts.const('io_uring::cq::TAG_MASK')
    r.inst('SINGLESHOT_TAG=%d MULTISHOT_TAG=%d TAG_MASK=%#x' % (single, multi, mask))
    r.require(single == 0 and multi == 1, 'tags', 'tag constants are not 0/1: %d/%d' % (single, multi))
    r.require(mask == (~multi) & (2 ** 64 - 1), 'tag-mask', 'TAG_MASK is not !MULTISHOT_TAG: %#x' % mask)
    for n in ('NO_USER_DATA', 'WAKE_USER_DATA', 'CANCEL_USER_DATA', 'CLOSE_USER_DATA'):
        v = facts.const('io_uring::cq::' + n)
        r.inst('%s=%d' % (n, v))
        r.require(0 <= v <= 3, 'reserved:%s' % n, 'reserved user_data %s=%d is not below the minimum state alignment' % (n, v))
    # (by value under both settings of IS_MULTISHOT: an `if`, an associated constant or a lookup table alike)
    from .kernel import eval_int
    for val, want in ((True, multi), (False, single)):
        g = specialise(f, 'OpResult>::IS_MULTISHOT', val)
        eg = ExprBuilder(g, multi='phi')
        ok = False
        rets = [eg.rvalue(s_['rv']) for loc, s_ in g.assigns() if s_['lhs']['l'] == 0 and not s_['lhs']['p'] and loc[0] in g.reachable_blocks(0)]
        for e in rets:
            ors = [x for x in subexprs(e) if x[0] == 'bin' and x[1] == 'BitOr']
            for o in ors:
                tagv = [v_ for v_ in (eval_int(g, eg, y) for y in (o[2], o[3])) if v_ is not None]
                addr = [y for y in subexprs(o) if y[0] == 'call' and y[1].endswith('expose_provenance')]
                if addr and tagv == [want] and fam.last_field(addr[0][2][0]) == 'data':
                    ok = True
            r.inst('IS_MULTISHOT=%s: %s' % (val, str(e)[:120]), g.where())
        r.require(ok, 'user_data/%s' % ('multi' if val else 'single'), 'user_data is not expose(self.data) | %d when IS_MULTISHOT=%s: %s' % (want, val, [str(e)[:100] for e in rets]), f.where())
    data = facts.adt('io_uring::op::Data')
    r.require(data['repr_c'], 'Data.repr', 'Data is not repr(C): the user_data address need not be the address of the Mutex<Shared>')
    fl = data['variants'][0]['fields']
    r.require(fl and fl[0]['name'] == 'shared' and fl[0]['ty'].startswith('std::sync::Mutex<io_uring::op::Shared<'), 'Data.first-field', 'first field of Data is not shared: Mutex<Shared<T>> (%s)' % (fl[0] if fl else None))
    for inst in ('Singleshot', 'Multishot'):
        key = 'std::sync::Mutex<io_uring::op::Shared<io_uring::op::%s>>' % inst
        lay = facts.layouts.get(key)
        if r.require(lay is not None, 'layout:%s' % inst, 'no layout fact for %s' % key):
            r.inst('%s size=%d align=%d' % (key, lay[0], lay[1]))
            r.require(lay[1] >= 4, 'layout:%s' % inst, 'alignment of %s is %d (< 4): tagged pointers could collide with reserved user_data values' % (key, lay[1]))
    r.floor(6)


def r3_dispatch(r, facts):
    f = facts.fn(life.PROCESS)
    eb = ExprBuilder(f)
    ups = [(loc, t) for loc, t in f.calls() if (t.get('callee') or '') == life.UPDATE]
    r.require(len(ups) == 2, 'process/update-sites', 'expected two update call sites (single/multi), found %d' % len(ups), f.where())
    multi = facts.const('io_uring::cq::MULTISHOT_TAG')
    mask = facts.const('io_uring::cq::TAG_MASK')
    # the dispatch is decided by value: with the address of the exposed pointer fixed to an aligned value without /
    # with the tag bit, only the Singleshot / only the Multishot update is reachable (bool test, match on the tag,
    # or any other spelling alike)
    def subj(e):
        if e[0] == 'call' and e[1].endswith('::addr') and any(x[0] == 'call' and 'with_exposed_provenance' in x[1] for x in subexprs(e)):
            return True
        if e[0] == 'cast' and e[3] == 'usize' and any(x[0] == 'call' and 'with_exposed_provenance' in x[1] for x in subexprs(e)):
            return True
        return False
    ndec = 0
    for tagv, want in ((0, 'Singleshot'), (multi, 'Multishot')):
        g, decided = specialise_value(f, subj, 0x1000 | tagv, eb)
        ndec = max(ndec, len(decided))
        reach = g.reachable_blocks(0)
        live = [('Singleshot' if 'Singleshot' in (t.get('callee_full') or '') else 'Multishot') for loc, t in ups if loc[0] in reach]
        r.inst('tag bits %d -> reachable update(s): %s' % (tagv, live), f.where())
        r.require(live == [want], 'process/dispatch:%s' % ('single' if tagv == 0 else 'multi'),
                  'a completion whose user_data carries tag %d reaches %s, expected exactly Shared::<%s>::update' % (tagv, live or 'no update', want), f.where())
    if not r.require(ndec >= 1, 'process/tag-test', 'no branch of process is decided by the tag bit of the user_data pointer (unrecognised form)', f.where()):
        return
    for loc, t in ups:
        # the receiver derives from the masked pointer
        e = eb.operand(t['args'][0])
        masked = [x for x in subexprs(e) if x[0] == 'call' and x[1].endswith('map_addr')]
        r.require(bool(masked), 'process/masked-pointer', 'update receiver is not derived from the tag-masked pointer', f.where(loc))
    # masking closure: addr & TAG_MASK
    cl = [g for g in facts.func_list if g.kind == 'closure' and g.path.startswith(life.PROCESS + '::')]
    # closures created inside process (also by helpers inlined into it)
    made = {s_['rv'].get('closure') for loc, s_ in f.assigns() if s_['rv']['k'] == 'agg' and s_['rv'].get('ak') == 'closure'}
    cl += [g for g in facts.func_list if g.kind == 'closure' and g.path in made and g not in cl]
    okm = False
    for g in cl:
        ge = ExprBuilder(g)
        for loc, s in g.assigns():
            if s['lhs']['l'] == 0:
                e = ge.rvalue(s['rv'])
                if e[0] == 'bin' and e[1] == 'BitAnd' and any(y[0] == 'const' and y[1] == mask for y in (e[2], e[3])):
                    okm = True
                    r.inst('mask closure %s' % (e,), g.where(loc))
    r.require(okm, 'process/mask', 'the pointer is not masked with TAG_MASK before use', f.where())
    # exactly one update per process call: the two sites are on disjoint edges and neither reaches the other
    for loc, t in ups:
        if t['target'] is not None:
            hit = f.forward_paths_hit([Loc(t['target'], 0)], [l for l, _ in ups])
            r.require(hit is None, 'process/update-once', 'update can run twice for one completion', f.where(loc))
    r.floor(3)


def r4_notif(r, facts):
    f = facts.fn('<io_uring::op::Singleshot as io_uring::op::OpResult>::update')
    eb = ExprBuilder(f)
    notif = facts.const('io_uring::libc::IORING_CQE_F_NOTIF')
    edge = None
    for b, blk in enumerate(f.blocks):
        t = blk['term']
        if t['k'] != 'switch':
            continue
        e = eb.operand(t['discr'])
        if e[0] == 'bin' and e[1] in ('Ne', 'Eq') and e[3][0] == 'const' and e[3][1] == 0 and e[2][0] == 'bin' and e[2][1] == 'BitAnd':
            cs = [y for y in (e[2][2], e[2][3]) if y[0] == 'const']
            if cs and cs[0][1] == notif:
                si = f.switch_info(b)
                set_tgt = si['values'].get(1, si['otherwise']) if e[1] == 'Ne' else si['values'].get(0)
                edge = (b, set_tgt)
    if not r.require(edge is not None, 'Singleshot::update', 'test of IORING_CQE_F_NOTIF not found', f.where()):
        return
    stores = [loc for loc, s in f.assigns() if s['lhs']['p'] and s['lhs']['l'] == 1]
    r.require(len(stores) >= 1, 'Singleshot::update/store', 'the result is never stored', f.where())
    for st in stores:
        r.inst('store result', f.where(st))
        hit = f.forward_paths_hit([Loc(edge[1], 0)], [st])
        r.require(hit is None, 'Singleshot::update/notif-overwrites', 'a NOTIF completion overwrites the stored result of a zero-copy send', f.where(st))
    # value stored is the parameter
    eb2 = ExprBuilder(f)
    for st in stores:
        e = eb2.rvalue(f.at(st)['rv'])
        r.require(e[0] == 'arg' and e[1] == 2, 'Singleshot::update/value', 'stored value is not the completion result parameter: %s' % (e,), f.where(st))
    # next() returns Some(self.0)
    n = facts.fn('<io_uring::op::Singleshot as io_uring::op::OpResult>::next')
    en = ExprBuilder(n)
    ok = False
    for loc, s in n.assigns():
        if s['lhs']['l'] == 0 and not s['lhs']['p']:
            e = en.rvalue(s['rv'])
            ok = e[0] == 'agg' and e[1].endswith('Option::Some') and access_path(e[3][0])[1].endswith('0')
    r.require(ok, 'Singleshot::next', 'Singleshot::next does not return Some(self.0)', n.where())
    r.floor(1)


def r5_fifo(r, facts):
    u = facts.fn('<io_uring::op::Multishot as io_uring::op::OpResult>::update')
    n = facts.fn('<io_uring::op::Multishot as io_uring::op::OpResult>::next')
    h = facts.fn('<io_uring::op::Multishot as io_uring::op::OpResult>::has_next')
    pushes = [(loc, t) for loc, t in u.calls() if (t.get('callee') or '') in ('std::vec::Vec::<T, A>::push', 'std::collections::VecDeque::<T, A>::push_back')]
    r.inst('update: %s' % [t.get('callee') for _, t in pushes], u.where())
    r.require(len(pushes) == 1, 'Multishot::update', 'update does not append exactly one result at the back (push/push_back)', u.where())
    eu = ExprBuilder(u)
    for loc, t in pushes:
        e = eu.operand(t['args'][1])
        r.require(e[0] == 'arg' and e[1] == 2, 'Multishot::update/value', 'pushed value is not the completion result parameter', u.where(loc))
    other_mut = [t.get('callee') for loc, t in u.calls() if t not in [p[1] for p in pushes]]
    r.require(not other_mut, 'Multishot::update/extra', 'update does more than appending: %s' % other_mut, u.where())
    en = ExprBuilder(n)
    front = []
    for loc, t in n.calls():
        c = t.get('callee') or ''
        if c == 'std::vec::Vec::<T, A>::remove':
            idx = en.operand(t['args'][1])
            if idx[0] == 'const' and idx[1] == 0:
                front.append(loc)
            else:
                r.bad('Multishot::next', 'results are removed at index %s (not the front)' % (idx,), n.where(loc))
        elif c == 'std::collections::VecDeque::<T, A>::pop_front':
            front.append(loc)
        elif c in ('std::vec::Vec::<T, A>::pop', 'std::vec::Vec::<T, A>::swap_remove', 'std::collections::VecDeque::<T, A>::pop_back'):
            r.bad('Multishot::next', 'results are taken from the back (%s): order of completions is reversed' % c, n.where(loc))
    r.inst('next: front removals=%d' % len(front), n.where())
    r.require(len(front) == 1, 'Multishot::next', 'next does not remove exactly one element at the front', n.where())
    # has_next == !is_empty
    eh = ExprBuilder(h)
    ok = False
    for loc, s in h.assigns():
        if s['lhs']['l'] == 0 and not s['lhs']['p']:
            e = eh.rvalue(s['rv'])
            ok = e[0] == 'un' and e[1] == 'Not' and e[2][0] == 'call' and e[2][1].endswith('is_empty')
    r.require(ok, 'Multishot::has_next', 'has_next is not !is_empty()', h.where())
    r.require(facts.const('<io_uring::op::Multishot as io_uring::op::OpResult>::IS_MULTISHOT') == 1 and
              facts.const('<io_uring::op::Singleshot as io_uring::op::OpResult>::IS_MULTISHOT') == 0, 'IS_MULTISHOT', 'IS_MULTISHOT constants are not (Multishot=true, Singleshot=false)')
    r.floor(2)


def r6_handout(r, facts):
    f0 = facts.fn(life.POLL_INNER)
    ves = {v: life.dispatch_edges(f0, v) for v in ('Done', 'Dropped', 'Complete')}
    for v, x in ves.items():
        if not r.require(len(x) == 1, 'poll_inner/arm-%s' % v, 'arm for %s not found' % v, f0.where()):
            return
    rets = f0.returns()
    # Complete and Dropped arms never return normally (panic)
    for v in ('Complete', 'Dropped'):
        e = ves[v][0]['edge']
        r.inst('%s arm' % v, f0.where(f0.term_loc(e[0])))
        hit = f0.forward_paths_hit([Loc(e[1], 0)], rets)
        r.require(hit is None, 'poll_inner/%s-returns' % v, 'the %s arm returns a value (a finished operation would yield a made-up/duplicate result)' % v, f0.where())
    done_e = ves['Done'][0]['edge']
    for ms in (False, True):
        f = specialise(f0, 'OpResult>::IS_MULTISHOT', ms)
        tag = 'multishot' if ms else 'singleshot'
        reach = f.reachable_locs([Loc(done_e[1], 0)])
        nexts = [(loc, t) for loc, t in f.calls() if (t.get('callee') or '').endswith('OpResult::next') and loc in reach and f.edge_dominates(done_e, loc)]
        if not r.require(len(nexts) == 1, 'poll_inner/done-next/%s' % tag, 'Done arm does not take exactly one result via next()', f.where()):
            continue
        nloc, nt = nexts[0]
        none_edge = some_edge = None
        for si in f.enum_switches('std::option::Option'):
            if si['place']['l'] == nt['dest']['l'] and not si['place']['p']:
                none_edge = f.variant_edge(si, 'None')
                some_edge = f.variant_edge(si, 'Some')
        if not r.require(none_edge and some_edge, 'poll_inner/done-next/%s' % tag, 'match on next() result not found', f.where(nloc)):
            continue
        completes = [loc for loc, v, e in life.status_stores(f, 'Complete')]
        dones = [(loc, t) for loc, t in f.calls() if (t.get('callee') or '').endswith('OpPollResult::done')]
        if ms:
            # None => Complete + Res::done()
            start = [Loc(none_edge[1], 0)]
            hit = f.forward_paths_hit(start, rets, blockers=completes)
            r.require(hit is None, 'poll_inner/end-without-complete', 'a multishot stream ends (Done, no result left) without the status becoming Complete', f.where())
            hit = f.forward_paths_hit(start, rets, blockers=[l for l, _ in dones])
            r.require(hit is None, 'poll_inner/end-without-done', 'the end of a multishot stream does not return Res::done()', f.where())
            r.inst('multishot end: Complete + done()', f.where(nloc))
            # done() only there
            for l, _ in dones:
                r.require(f.edge_dominates(none_edge, l) and f.edge_dominates(done_e, l), 'poll_inner/done-elsewhere', 'Res::done() (end of stream) is reachable while results remain or the operation still runs', f.where(l))
        else:
            start = [Loc(some_edge[1], 0)]
            maps = life.param_calls(f, 'map_ok') + life.param_calls(f, 'fallback')
            for loc, t in maps:
                if loc in f.reachable_locs(start):
                    ok = any(f.dominates(c, loc) for c in completes)
                    r.require(ok, 'poll_inner/value-before-complete', 'a single-shot value is produced before the status is Complete (it could be produced again)', f.where(loc))
            r.inst('singleshot Done: Complete before value', f.where(nloc))
    r.floor(3)


def r6b_value_flow(r, facts):
    """the value given to map_ok is the result taken by next() in this very poll, checked by check_result"""
    f = facts.fn(life.POLL_INNER)
    eb = ExprBuilder(f, multi='phi')
    maps = life.param_calls(f, 'map_ok')
    r.require(len(maps) >= 2, 'poll_inner/map_ok-sites', 'expected map_ok call sites in the multishot-running and the done arm, found %d' % len(maps), f.where())
    for loc, t in maps:
        tup = eb.operand(t['args'][1])
        ok = False
        detail = str(tup)[:160]
        if tup[0] == 'agg' and len(tup[3]) == 3:
            opret = tup[3][2]
            if opret[0] == 'agg' and len(opret[3]) == 2:
                flags, res = opret[3]
                nexts = [x for x in subexprs(flags) if x[0] == 'call' and x[1].endswith('OpResult::next')]
                chk = [x for x in subexprs(res) if x[0] == 'call' and x[1] == 'io_uring::op::CompletionResult::check_result']
                nx2 = [x for x in subexprs(res) if x[0] == 'call' and x[1].endswith('OpResult::next')]
                ok = bool(nexts) and bool(chk) and bool(nx2) and fam.last_field(flags) == 'flags' and nexts[0] == nx2[0]
                detail = 'flags<-%s res<-check_result(next())' % ('next().flags' if nexts else '?')
        r.inst('map_ok value: %s' % detail, f.where(loc))
        r.require(ok, 'poll_inner/value-origin', 'the (flags, result) pair handed to map_ok is not the completion result just taken with next() and validated by check_result: %s' % str(tup)[:300], f.where(loc))
    # fallback gets the error of the same result
    for loc, t in life.param_calls(f, 'fallback'):
        tup = eb.operand(t['args'][1])
        ok = any(x[0] == 'call' and x[1] == 'io_uring::op::CompletionResult::check_result' for x in subexprs(tup))
        r.inst('fallback error origin', f.where(loc))
        r.require(ok, 'poll_inner/fallback-origin', 'fallback is not given the error of this completion', f.where(loc))
    # check_result: non-negative -> Ok(result), negative -> Err(from_raw_os_error(-result))
    c = facts.fn('io_uring::op::CompletionResult::check_result')
    ec = ExprBuilder(c, multi='phi')
    oks = errs = 0
    for loc, s in c.assigns():
        if s['lhs']['l'] == 0 and s['rv']['k'] == 'agg':
            e = ec.rvalue(s['rv'])
            if s['rv'].get('variant') == 'Ok':
                oks += any(x[0] == 'call' and x[1].endswith('try_from') for x in subexprs(e)) or fam.last_field(e[3][0]) == 'result' or 'result' in str(e)
            if s['rv'].get('variant') == 'Err':
                errs += any(x[0] == 'call' and x[1] == 'std::io::Error::from_raw_os_error' and any(y[0] == 'un' and y[1] == 'Neg' for y in subexprs(x)) for x in subexprs(e))
    if not (oks >= 1 and errs >= 1):
        # the combinator spelling: u32::try_from(self.result).map_err(|_| Error::from_raw_os_error(-self.result))
        rets = [ec.call(t) for l2, t in c.calls() if is_local(t['dest'], 0)]
        for e in rets:
            if e[0] == 'call' and e[1] == 'std::result::Result::<T, E>::map_err' and any(x[0] == 'call' and x[1].endswith('try_from') and fam.last_field(x[2][0]) == 'result' for x in subexprs(e[2][0])):
                oks = 1
                for l2, s2 in c.assigns():
                    rv = s2['rv']
                    if rv['k'] == 'agg' and rv.get('ak') == 'closure':
                        g = facts.fn_opt(rv['closure'])
                        if g is None:
                            continue
                        ge = ExprBuilder(g, multi='phi')
                        for l3, t3 in g.calls():
                            if (t3.get('callee') or '') == 'std::io::Error::from_raw_os_error':
                                a = resolve_upvars(facts, g, ge.operand(t3['args'][0]))
                                if a[0] == 'un' and a[1] == 'Neg' and fam.last_field(a[2]) == 'result':
                                    errs = 1
    r.inst('check_result: Ok arms=%d Err(from_raw_os_error(-result)) arms=%d' % (oks, errs), c.where())
    r.require(oks >= 1 and errs >= 1, 'check_result', 'check_result is not `u32::try_from(result)` / `Err(from_raw_os_error(-result))`', c.where())
    # the handler stores this completion's res/flags (not swapped, not from elsewhere)
    u = facts.fn(life.UPDATE)
    eu = ExprBuilder(u, multi='phi')
    ups = [(loc, t) for loc, t in u.calls() if (t.get('callee') or '').endswith('OpResult::update')]
    r.require(len(ups) == 1, 'Shared::update/store', 'expected one results.update(..) in Shared::update', u.where())
    for loc, t in ups:
        cr = eu.operand(t['args'][1])
        # (the completion flags may be passed next to the result or only inside it)
        fl = eu.operand(t['args'][2]) if len(t['args']) > 2 else None
        ok = cr[0] == 'agg' and cr[1].endswith('CompletionResult::CompletionResult')
        if ok:
            m = dict(zip(cr[2], cr[3]))
            okr = fam.last_field(m.get('result', ('x',))) == 'res' and access_path(m['result'])[0][0] == 'arg'
            okf = any(fam.last_field(x) == 'flags' for x in subexprs(m.get('flags', ('x',))))
            ok = okr and okf and (fl is None or fam.last_field(fl) == 'flags')
        r.inst('update stores CompletionResult{result: cqe.res, flags: cqe.flags}', u.where(loc))
        r.require(ok, 'Shared::update/store-fields', 'the stored result is not (res, flags) of the completion being processed: %s' % (cr,), u.where(loc))
    r.floor(3)


def check(ctx):
    ctx.run('C02.R1', 'writers of sqe.user_data: submit closure (State::user_data, last writer) + 3 bookkeepers with reserved constants', r1_user_data_writers)
    ctx.run('C02.R2', 'tag = address of Data | IS_MULTISHOT tag; constants; Data repr(C), Mutex first, align >= 4', r2_tag_layout)
    ctx.run('C02.R3', 'process: tag bit selects SingleShared/MultiShared, masked pointer dereferenced, update exactly once', r3_dispatch)
    ctx.run('C02.R4', 'two-step: a NOTIF completion never overwrites the stored result; next() returns it', r4_notif)
    ctx.run('C02.R5', 'multishot results are queued FIFO (push back / remove front), has_next = !is_empty', r5_fifo)
    ctx.run('C02.R6', 'hand-out: end of stream => Complete + done(); single-shot Complete before value; Complete/Dropped arms never return', r6_handout)
    ctx.run('C02.R6b', 'the value handed out is the result taken by next() in this poll, validated by check_result', r6b_value_flow)
    ctx.run('C02.R7', 'LIFE-4: Running->Done and the wake only on the final completion / multishot progress', life.life4)
    from . import c05
    ctx.run('C02.R9', 'every completion the kernel published is handed to Completion::process exactly once, also when the queue is exactly full (=C05.R3)', c05.r3_once_per_slot)
    ctx.run('C02.R10', 'the head published to the kernel is the position behind the last processed completion (=C05.R2)', c05.r2_publish_last)
    from . import c18
    ctx.run('C02.R11', 'the lengths that give the index masks are the sizes the kernel granted: Completions.entries_len = params.cq_entries (=C18.R4)', lambda r, facts: c18.ring_lengths(r, facts, modes=False, sq=False, floor=1))
