"""C15 ReadBuf edits behave as a capacity-bounded byte vector confined to its slot."""
import re

from .kernel import (ExprBuilder, Loc, access_path, subexprs, variant_edges, is_local, const_val)
from . import families as fam
from . import c08
from . import c10

EXPLANATION = (
    "Decides: (R1) edits rewrite only the length of the owned slice, never its base (C08.R1: every store to "
    "ReadBuf.owned is Some(change_size(previous, _)) and change_size keeps the data pointer); (R2) bounded raw "
    "accesses — guarded copies: extend_from_slice's copy_from_nonoverlapping is dominated by the edge where "
    "len + other.len() <= capacity(), writes at offset len and copies other.len() bytes; remove's copy_from is "
    "dominated by the non-panicking edges of `start > end` and `end > len`, moves from offset end to offset start "
    "exactly (len - (end-start)) - start bytes; tail windows: spare_capacity_mut / parts_mut / parts / spare_capacity "
    "expose exactly (ptr + len, capacity - len) with the same len; (R2b) every safe method that stores a new length "
    "stores one <= the old length (truncate under its guard, clear, remove) or one guarded <= capacity "
    "(extend_from_slice); the unguarded setters (set_len, set_init, buffer_init) are unsafe fns; (R3) remove validates "
    "before mutating: both panic tests dominate the first store and the copy; (R4) capacity() is the pool's buffer "
    "size. Equivalence with Vec<u8> over all edit sequences is not decided."
    ' Also decided: (R6) each edit stores the length its contract names (truncate: len; clear: 0; set_len: new_len; extend_from_slice: len + other.len(); remove: len - (end - start)) on every path on which it applies, and remove turns range bounds into [start, end) with +1 exactly for an excluded start / included end.'
)
NOT_DECIDED = "observational equivalence with Vec<u8> over all edit sequences"
ASSUMPTIONS = ["the kernel-initialised length stored at buffer_init is <= capacity (C08.R4 / kernel contract)"]

RB = 'io::read_buf::ReadBuf'


def owned_len(e):
    """NonNull::<[T]>::len((*self).owned@Some.0)"""
    while e[0] == 'cast':
        e = e[4]
    return e[0] == 'call' and e[1] == 'std::ptr::NonNull::<[T]>::len' and c08.is_prev_owned(e[2][0])


def is_capacity(e):
    while e[0] == 'cast':
        e = e[4]
    return e[0] == 'call' and e[1] == RB + '::capacity'


def is_orig_len(e):
    e = strip(e)
    return (e[0] == 'local' and e[2] == 'original_len') or (e[0] == 'call' and e[1] == RB + '::len' and e[2] and e[2][0][0] == 'arg')


def is_named(n):
    return lambda e: strip(e)[0] == 'local' and strip(e)[2] == n


def is_remove_len(e):
    e = strip(e)
    return (e[0] == 'local' and e[2] == 'remove_len') or (e[0] == 'bin' and e[1].startswith('Sub') and is_named('end')(e[2]) and is_named('start')(e[3]))


def is_new_len_remove(e):
    e = strip(e)
    return (e[0] == 'local' and e[2] == 'new_len') or (e[0] == 'bin' and e[1].startswith('Sub') and is_orig_len(e[2]) and is_remove_len(e[3]))


def strip(e):
    while e[0] == 'cast' or (e[0] == 'proj' and e[2] == ('.0',) and e[1][0] == 'bin'):
        e = e[4] if e[0] == 'cast' else e[1]
    return e


def guard_edges(f, loc, eb):
    """list of (cmp op, a, b, taken value) for comparison switches with an edge dominating loc"""
    out = []
    for (b, tgt) in c10.controlling_switches(f, loc):
        e = eb.operand(f.term(b)['discr'])
        if e[0] == 'bin' and e[1] in ('Lt', 'Le', 'Gt', 'Ge', 'Eq', 'Ne'):
            vals = {int(v): tg for v, tg in f.term(b)['targets']}
            t_true, t_false = vals.get(1, f.term(b)['otherwise']), vals.get(0)
            taken = 1 if tgt == t_true else 0
            out.append((e[1], strip(e[2]), strip(e[3]), taken, b))
    return out


def implies_le(g, small_pred, big_pred):
    """guard g implies small <= big"""
    op, a, b, taken, _ = g
    if small_pred(a) and big_pred(b):
        return (op == 'Gt' and taken == 0) or (op == 'Le' and taken == 1) or (op == 'Lt' and taken == 1)
    if small_pred(b) and big_pred(a):
        return (op == 'Lt' and taken == 0) or (op == 'Ge' and taken == 1) or (op == 'Gt' and taken == 1)
    return False


def _copy_within_sites(f):
    """(loc, receiver operand, range operand, dest operand) of slice::copy_within calls"""
    out = []
    for loc, t in f.calls():
        if (t.get('callee') or '') == 'core::slice::<impl [T]>::copy_within' and len(t['args']) == 3 and not f.blocks[loc[0]]['cleanup']:
            out.append((loc, t['args'][0], t['args'][1], t['args'][2]))
    return out


def copy_sites(f):
    """raw memory copies in f, normalised over their spellings: (loc, dst operand, src operand, count operand, overlapping?)"""
    out = []
    for loc, t in f.calls():
        n = t.get('callee') or ''
        if f.blocks[loc[0]]['cleanup'] or len(t['args']) != 3:
            continue
        last = n.rsplit('::', 1)[-1]
        a = t['args']
        if last == 'copy_from':
            out.append((loc, a[0], a[1], a[2], True))
        elif last == 'copy_to':
            out.append((loc, a[1], a[0], a[2], True))
        elif last == 'copy_from_nonoverlapping':
            out.append((loc, a[0], a[1], a[2], False))
        elif last == 'copy_to_nonoverlapping':
            out.append((loc, a[1], a[0], a[2], False))
        elif n in ('std::ptr::copy', 'std::intrinsics::copy', 'core::ptr::copy'):
            out.append((loc, a[1], a[0], a[2], True))
        elif n in ('std::ptr::copy_nonoverlapping', 'std::intrinsics::copy_nonoverlapping', 'core::ptr::copy_nonoverlapping'):
            out.append((loc, a[1], a[0], a[2], False))
    return out


def r2_bounded_accesses(r, facts):
    # ---- extend_from_slice
    f = facts.fn(RB + '::extend_from_slice')
    eb = ExprBuilder(f, multi='phi')
    copies = copy_sites(f)
    if r.require(len(copies) == 1, 'extend_from_slice', 'expected one raw copy into the buffer in extend_from_slice, found %d' % len(copies), f.where()):
        loc, a_dst, a_src, a_cnt, _ov = copies[0]
        dst, src, cnt = eb.operand(a_dst), eb.operand(a_src), strip(eb.operand(a_cnt))
        is_other_len = lambda e: e[0] == 'call' and e[1] == 'core::slice::<impl [T]>::len' and e[2][0][0] == 'arg' and e[2][0][2] == 'other'
        is_new_len = lambda e: e[0] == 'bin' and e[1].startswith('Add') and ((owned_len(e[2]) and is_other_len(strip(e[3]))) or (owned_len(e[3]) and is_other_len(strip(e[2]))))
        gs = guard_edges(f, loc, eb)
        ok = any(implies_le(g, is_new_len, is_capacity) for g in gs)
        r.inst('extend_from_slice: copy guarded by len+other.len() <= capacity: %s' % ok, f.where(loc))
        r.require(ok, 'extend_from_slice/guard', 'the copy into the pool buffer is not dominated by `len + other.len() <= capacity()` (growth beyond the slot)', f.where(loc))
        r.require(is_other_len(cnt), 'extend_from_slice/count', 'the number of bytes copied is not other.len(): %s' % (cnt,), f.where(loc))
        adds = [x for x in subexprs(dst) if x[0] == 'call' and x[1].endswith('::add')]
        r.require(bool(adds) and owned_len(adds[0][2][1]) and c08.is_prev_owned(_base_ptr(adds[0][2][0])), 'extend_from_slice/dst', 'the copy does not start at offset len of the owned buffer: %s' % (dst,), f.where(loc))
        # failing edge leaves with Err
    # ---- remove
    g = facts.fn(RB + '::remove')
    eg = ExprBuilder(g, multi='leaf')
    copies = copy_sites(g)
    within = _copy_within_sites(g)
    if not copies and len(within) == 1:
        # the safe spelling: `slice.copy_within(end..len, start)` on the slice of the owned buffer at its current length —
        # bounds-checked against that slice, overlap handled; what remains to check is that it is that slice and that range
        loc, recv, rng, dst = within[0]
        eph = ExprBuilder(g, multi='phi')
        re_ = eph.operand(recv)
        base_ok = any(c08.is_prev_owned(x) for x in subexprs(re_)) and not any(x[0] == 'call' and x[1] == c08.CHANGE_SIZE for x in subexprs(re_))
        r.inst('remove: copy_within on the owned slice: %s' % base_ok, g.where(loc))
        r.require(base_ok, 'remove/within-slice', 'copy_within is not applied to the slice of the owned buffer at its current length: %s' % (re_,), g.where(loc))
        rg = eg.operand(rng)
        ds = strip(eg.operand(dst))
        nm_ = lambda n, e: strip(e)[0] == 'local' and strip(e)[2] == n
        ok_rng = rg[0] == 'agg' and rg[1].endswith('Range::Range') and len(rg[3]) == 2 and nm_('end', rg[3][0]) and is_orig_len(rg[3][1])
        r.require(ok_rng and nm_('start', ds), 'remove/within-range', 'copy_within does not move end..len to start: range %s dest %s' % (rg, ds), g.where(loc))
    elif r.require(len(copies) == 1, 'remove', 'expected one raw copy in remove, found %d' % len(copies), g.where()):
        loc, a_dst, a_src, a_cnt, overlapping = copies[0]
        r.require(overlapping, 'remove/overlap', 'remove moves bytes within one buffer with a non-overlapping copy', g.where(loc))
        gs = guard_edges(g, loc, eg)
        nm = lambda n: (lambda e: e[0] == 'local' and e[2] == n)
        ok1 = any(implies_le(x, nm('start'), nm('end')) for x in gs)
        ok2 = any(implies_le(x, nm('end'), is_orig_len) for x in gs)
        r.inst('remove: copy guarded by start<=end: %s, end<=len: %s' % (ok1, ok2), g.where(loc))
        r.require(ok1, 'remove/guard-order', 'the copy in remove is not dominated by `start <= end`', g.where(loc))
        r.require(ok2, 'remove/guard-end', 'the copy in remove is not dominated by `end <= len` (reads past the initialised bytes)', g.where(loc))
        dst, src, cnt = eg.operand(a_dst), eg.operand(a_src), strip(eg.operand(a_cnt))
        def off_of(e):
            a = [x for x in subexprs(e) if x[0] == 'call' and x[1].endswith('::add')]
            return strip(a[0][2][1]) if a else None
        # src = start_ptr local = ptr.add(end)
        src_off = off_of(src)
        if src_off is None and src[0] == 'local':
            d = g.single_def(src[1])
            if d and d[1] == 'call':
                src_off = strip(eg.operand(d[2]['args'][1]))
        r.require(off_of(dst) is not None and nm('start')(off_of(dst)), 'remove/dst', 'bytes are not moved to offset start: %s' % (dst,), g.where(loc))
        r.require(src_off is not None and nm('end')(src_off), 'remove/src', 'bytes are not moved from offset end: %s' % (src,), g.where(loc))
        # count = new_len - start ; new_len = original_len - (end - start)
        def val(e):
            e = strip(e)
            if e[0] == 'local':
                d = g.single_def(e[1])
                if d and d[1] == 'assign':
                    return strip(eg.rvalue(d[2]))
            return e
        c = strip(cnt)
        okc = c[0] == 'bin' and c[1].startswith('Sub') and is_new_len_remove(c[2]) and nm('start')(strip(c[3]))
        r.inst('remove: count=%s' % (c,), g.where(loc))
        r.require(okc, 'remove/count', 'the number of bytes moved is not (len - (end - start)) - start: %s' % (c,), g.where(loc))
        # original_len is self.len()
        pass
    # ---- tail windows
    WINDOWS = (RB + '::spare_capacity_mut', '<io::read_buf::ReadBuf as io::traits::BufMut>::parts_mut', '<io::read_buf::ReadBuf as io::traits::BufMut>::parts',
               '<io::read_buf::ReadBuf as io::traits::BufMut>::spare_capacity')
    verdict = {}
    for name in WINDOWS:
        h = facts.fn(name)
        eh = ExprBuilder(h, multi='phi')
        ptr_ok = len_ok = None
        exprs = []
        for loc, s in h.assigns():
            e = eh.rvalue(s['rv'])
            exprs.append((loc, e))
        for loc, t in h.calls():
            exprs.append((loc, eh.call(t)))
        adds = [(loc, x) for loc, e in exprs for x in subexprs(e) if x[0] == 'call' and x[1].endswith('::add')]
        subs = [(loc, x) for loc, e in exprs for x in subexprs(e) if x[0] == 'bin' and x[1].startswith('Sub')]
        if 'spare_capacity' == name.rsplit('::', 1)[1]:
            ptr_ok = True
        else:
            ptr_ok = bool(adds) and all(owned_len(a[2][1]) and c08.is_prev_owned(_base_ptr(a[2][0])) for _, a in adds)
        len_ok = bool(subs) and all(is_capacity(strip(x[2])) and owned_len(strip(x[3])) for _, x in subs)
        # a window function that hands out what a sibling computes (`let (ptr, len) = self.parts_mut()`) has the sibling's window
        if not adds and not subs:
            for loc, t in h.calls():
                tgt = t.get('resolved') or ''
                if tgt in verdict and tgt != name and t['args'] and strip(eh.operand(t['args'][0]))[0] == 'arg':
                    ptr_ok, len_ok = verdict[tgt]
        verdict[name] = (bool(ptr_ok), bool(len_ok))
        r.inst('%s: window (ptr+len: %s, capacity-len: %s)' % (name.rsplit('::', 1)[1], ptr_ok, len_ok), h.where())
        r.require(ptr_ok, 'window:%s/ptr' % name.rsplit('::', 1)[1], 'the exposed spare region does not start at ptr + len of the owned buffer', h.where())
        r.require(len_ok, 'window:%s/len' % name.rsplit('::', 1)[1], 'the exposed spare region is not capacity() - len long', h.where())
    r.floor(6)


def _base_ptr(e):
    while e[0] == 'call' and (e[1].endswith('::cast') or e[1].endswith('::as_ptr') or e[1].endswith('as_non_null_ptr')):
        e = e[2][0]
    while e[0] == 'cast':
        e = e[4]
    return e


def r2b_length_invariant(r, facts):
    ws = c08.owned_writers(facts)
    ws2 = []
    for f, loc, kind, e in ws:
        # (`owned.map(|p| change_size(p, n))` written out stores None | Some(change_size(..)): the Some alternative counts)
        for a in (e[1] if (kind == 'store' and e and e[0] == 'phi') else [e]):
            ws2.append((f, loc, kind, a))
    for f, loc, kind, e in ws2:
        if kind != 'store' or not (e[0] == 'agg' and e[1].endswith('Option::Some')):
            continue
        v = e[3][0]
        if not (v[0] == 'call' and v[1] == c08.CHANGE_SIZE):
            continue
        new_len = strip(v[2][1])
        unsafe = bool(f.j.get('unsafe'))
        short = f.path.rsplit('::', 1)[1]
        eb = ExprBuilder(f, multi='leaf')
        status = None
        if unsafe:
            status = 'unsafe fn (caller obligation)'
        elif new_len[0] == 'const' and new_len[1] == 0:
            status = 'zero'
        else:
            gs = guard_edges(f, loc, ExprBuilder(f, multi='phi'))
            same = lambda e2: e2 == new_len
            self_len = lambda e2: strip(e2)[0] == 'call' and strip(e2)[1] == RB + '::len' and strip(e2)[2] and strip(e2)[2][0][0] == 'arg' and strip(e2)[2][0][1] == 1
            if any(implies_le(g, same, owned_len) or implies_le(g, same, self_len) for g in gs):
                status = 'guarded <= old length'
            elif any(implies_le(g, same, is_capacity) for g in gs):
                status = 'guarded <= capacity'
            elif short == 'remove':
                # new_len = len - (end - start) with checked subtractions: <= len
                nl = strip(ExprBuilder(f, multi='leaf').operand(f.at(loc)['rv']['ops'][0])) if False else None
                e2 = strip(ExprBuilder(f, multi='leaf').rvalue(f.at(loc)['rv']))
                cs = [x for x in subexprs(e2) if x[0] == 'call' and x[1] == c08.CHANGE_SIZE]
                if cs and is_new_len_remove(cs[0][2][1]):
                    status = 'len - (end - start) (checked subtraction, <= old length)'
        r.inst('%s stores length %s: %s' % (f.path, new_len, status), f.where(loc))
        r.require(status is not None, 'length:%s' % f.path, 'safe method %s stores a new length (%s) that is neither <= the old length nor guarded by capacity: spare_capacity_mut would expose memory outside the slot' % (short, new_len), f.where(loc))
    for name in (RB + '::set_len', '<io::read_buf::ReadBuf as io::traits::BufMut>::set_init', '<io::read_buf::ReadBuf as io::traits::BufMut>::buffer_init'):
        f = facts.fn(name)
        r.inst('%s is unsafe: %s' % (name, f.j.get('unsafe')), f.where())
        r.require(bool(f.j.get('unsafe')), 'unsafe:%s' % name.rsplit('::', 1)[1], '%s sets the length without a bound check but is a safe fn' % name, f.where())
    r.floor(8)


def r3_validate_first(r, facts):
    g = facts.fn(RB + '::remove')
    eg = ExprBuilder(g, multi='leaf')
    stores = [loc for f, loc, kind, e in c08.owned_writers(facts) if f is g and kind == 'store']
    copies = [c_[0] for c_ in copy_sites(g)] + [c_[0] for c_ in _copy_within_sites(g)]
    panics = [loc for loc, t in g.calls() if (t.get('callee') or '').startswith('core::panicking::') or (t.get('callee') or '').startswith('std::rt::panic') or (t.get('callee') or '') == 'std::rt::begin_panic']
    r.require(len(stores) == 1 and len(copies) == 1, 'remove/sites', 'store/copy sites not found', g.where())
    nm = lambda n: (lambda e: e[0] == 'local' and e[2] == n)
    for site in stores + copies:
        gs = guard_edges(g, site, eg)
        ok1 = any(implies_le(x, nm('start'), nm('end')) for x in gs)
        ok2 = any(implies_le(x, nm('end'), is_orig_len) for x in gs)
        r.inst('remove: mutation validated (start<=end %s, end<=len %s)' % (ok1, ok2), g.where(site))
        r.require(ok1 and ok2, 'remove/validate-first', 'remove mutates the buffer before both range checks passed (an invalid range modifies the buffer)', g.where(site))
    # the failing edges panic: from the violating edge no return is reachable
    for b, blk in enumerate(g.blocks):
        if blk['cleanup'] or blk['term']['k'] != 'switch':
            continue
        e = eg.operand(blk['term']['discr'])
        if e[0] == 'bin' and e[1] == 'Gt':
            a, b2 = strip(e[2]), strip(e[3])
            if (nm('start')(a) and nm('end')(b2)) or (nm('end')(a) and is_orig_len(b2)):
                vals = {int(v): tg for v, tg in blk['term']['targets']}
                bad = vals.get(1, blk['term']['otherwise'])
                hit = g.forward_paths_hit([Loc(bad, 0)], g.returns() + stores + copies)
                r.require(hit is None, 'remove/invalid-continues', 'an invalid range (%s) does not abort' % (e,), g.where(g.term_loc(b)))
    r.floor(2)


def r4_capacity(r, facts):
    f = facts.fn(RB + '::capacity')
    eb = ExprBuilder(f, multi='phi')
    ok = False
    for loc, t in f.calls():
        if is_local(t['dest'], 0):
            e = eb.call(t)
            ok = e[0] == 'call' and e[1] == 'io_uring::io::ReadBufPool::buf_size' and fam.last_field(e[2][0]) == 'shared'
            r.inst('capacity() = %s' % (e,), f.where(loc))
    r.require(ok, 'capacity', 'capacity() is not the pool\'s buf_size()', f.where())
    g = facts.fn('io_uring::io::ReadBufPool::buf_size')
    eg = ExprBuilder(g, multi='phi')
    okb = False
    for loc, s in g.assigns():
        if s['lhs']['l'] == 0 and not s['lhs']['p']:
            e = eg.rvalue(s['rv'])
            okb = fam.last_field(strip(e)) == 'buf_size'
    r.require(okb, 'buf_size', 'buf_size() does not return the stored buffer size', g.where())
    r.floor(1)


def r6_edit_effect(r, facts):
    """the functional half of "behaves as a byte vector": each edit stores the length its contract names, and no path on
    which the buffer holds a slot and the edit applies leaves the length as it was.
      truncate(len)            -> len            (unless len > current length)
      clear()                  -> 0
      set_len(new_len)         -> new_len
      extend_from_slice(other) -> current length + other.len()   (on the path that returns Ok)
      remove(range)            -> current length - (end - start)
    """
    ws = c08.owned_writers(facts)
    per = {}
    for f, loc, kind, e in ws:
        if kind != 'store':
            continue
        for a in (e[1] if (e and e[0] == 'phi') else [e]):
            if a and a[0] == 'agg' and a[1].endswith('Option::Some') and a[3] and a[3][0][0] == 'call' and a[3][0][1] == c08.CHANGE_SIZE:
                per.setdefault(f.path, []).append((f, loc, strip(a[3][0][2][1])))

    def arg_n(i):
        return lambda e: strip(e)[0] == 'arg' and strip(e)[1] == i
    other_len = lambda e: strip(e)[0] == 'call' and strip(e)[1].endswith('::len') and strip(e)[2] and strip(strip(e)[2][0])[0] == 'arg' and strip(strip(e)[2][0])[1] == 2
    cur_len = lambda e: owned_len(e) or is_orig_len(e)

    def is_sum(e):
        e = strip(e)
        return e[0] == 'bin' and e[1].startswith('Add') and ((cur_len(e[2]) and other_len(e[3])) or (cur_len(e[3]) and other_len(e[2])))
    want = {
        'truncate': ('len', arg_n(2)),
        'clear': ('0', lambda e: strip(e)[0] == 'const' and strip(e)[1] == 0),
        'set_len': ('new_len', arg_n(2)),
        'extend_from_slice': ('len() + other.len()', is_sum),
        'remove': ('len() - (end - start)', is_new_len_remove),
    }
    n = 0
    for meth, (txt, pred) in want.items():
        path = RB + '::' + meth
        f = facts.fn_opt(path)
        if not r.require(f is not None, 'effect:%s' % meth, 'ReadBuf::%s not found' % meth):
            continue
        n += 1
        eb = ExprBuilder(f, multi='leaf')
        sts = per.get(path, [])
        good = []
        for f_, loc, nl in sts:
            nl2 = strip(eb.rvalue(f.at(loc)['rv']))
            cs = [x for x in subexprs(nl2) if x[0] == 'call' and x[1] == c08.CHANGE_SIZE]
            v = cs[0][2][1] if cs else nl
            ok = pred(v) or pred(nl)
            r.require(ok, 'effect:%s/value' % meth, 'ReadBuf::%s stores the length %s, its contract says %s' % (meth, str(v)[:120], txt), f.where(loc))
            if ok:
                good.append(loc)
        r.inst('ReadBuf::%s stores %s at %d site(s)' % (meth, txt, len(good)), f.where())
        if not r.require(bool(good), 'effect:%s/store' % meth, 'ReadBuf::%s never stores the new length (%s): the edit has no effect' % (meth, txt), f.where()):
            continue
        # from the `Some(ptr)` edge of the test of self.owned every normal return passes the store, except over the exits the
        # contract names (truncate: len > current; extend: Err; remove: nothing — it panics on an invalid range)
        # (the "no slot" exit: the None edge of a test of self.owned — whether written as `if let Some(p) = self.owned`, a match,
        # or `self.owned.map(..)` written out, where both edges join again before the store)
        ebp = ExprBuilder(f, multi='phi')
        starts = [Loc(0, 0)]
        allowed = [Loc(v2['edge'][1], 0) for v2 in variant_edges(f, 'std::option::Option', 'None')
                   if not f.blocks[v2['edge'][0]]['cleanup'] and 'owned' in str(ebp.place(v2['si']['place']))
                   and not any(g_[0] == v2['edge'][1] for g_ in good)]
        # a None edge that still runs into the store (the `map` form) is not an exit
        allowed = [a_ for a_ in allowed if f.forward_paths_hit([a_], good) is None]
        if meth == 'truncate':
            for b, blk in enumerate(f.blocks):
                if blk['term']['k'] == 'switch' and not blk['cleanup']:
                    e = eb.operand(blk['term']['discr'])
                    vals = {int(v_): tg for v_, tg in blk['term']['targets']}
                    if e[0] == 'bin' and e[1] in ('Gt', 'Lt', 'Ge', 'Le'):
                        a_, b_ = strip(e[2]), strip(e[3])
                        t_true, t_false = vals.get(1, blk['term']['otherwise']), vals.get(0)
                        if e[1] == 'Gt' and arg_n(2)(a_) and cur_len(b_):
                            allowed.append(Loc(t_true, 0))
                        elif e[1] == 'Lt' and cur_len(a_) and arg_n(2)(b_):
                            allowed.append(Loc(t_true, 0))
                        elif e[1] == 'Le' and arg_n(2)(a_) and cur_len(b_) and t_false is not None:
                            allowed.append(Loc(t_false, 0))
                        elif e[1] == 'Ge' and cur_len(a_) and arg_n(2)(b_) and t_false is not None:
                            allowed.append(Loc(t_false, 0))
        elif meth == 'extend_from_slice':
            allowed += [loc for loc, s_ in f.assigns() if s_['lhs']['l'] == 0 and s_['rv']['k'] == 'agg' and s_['rv'].get('variant') == 'Err']
        hit = f.forward_paths_hit(starts, f.returns(), blockers=good + allowed)
        r.require(hit is None, 'effect:%s/skipped' % meth, 'a path through ReadBuf::%s on which the buffer holds a slot returns normally without storing the new length (outside the exits its contract names): the edit silently does nothing' % meth, f.where(hit[0]) if hit else '')
    # remove(range): the half-open window [start, end) the bounds stand for — Included(i) starts at i, Excluded(i) at i + 1,
    # Unbounded at 0; Included(j) ends at j + 1, Excluded(j) at j, Unbounded at the current length
    f = facts.fn_opt(RB + '::remove')
    if f is not None:
        eb = ExprBuilder(f, multi='leaf')
        seen = 0
        for which, call, plus_one, plain, unb in (('start', 'start_bound', '@Excluded', '@Included', lambda e: strip(e)[0] == 'const' and strip(e)[1] == 0),
                                                   ('end', 'end_bound', '@Included', '@Excluded', cur_len)):
            for l in range(len(f.locals)):
                ds = [d for d in f.defs.get(l, []) if not f.blocks[d[0][0]]['cleanup']]
                es = [eb.definition(d, 0, ()) for d in ds]
                if len(es) < 2 or not all(any(x[0] == 'call' and x[1].endswith(call) for x in subexprs(e)) or unb(e) for e in es) or not any(call in str(e) for e in es):
                    continue
                for d, e in zip(ds, es):
                    txt = str(e)
                    adds = [x for x in subexprs(e) if (x[0] == 'bin' and x[1].startswith('Add')) or (x[0] == 'call' and x[1].endswith(('::add', 'wrapping_add', 'saturating_add', 'checked_add')) and len(x[2]) == 2)]
                    k = None
                    for a in adds:
                        ops = (a[2], a[3]) if a[0] == 'bin' else a[2]
                        cs = [strip(o) for o in ops if strip(o)[0] == 'const']
                        k = cs[0][1] if cs else '?'
                    if plus_one in txt:
                        seen += 1
                        r.inst('remove: %s of %s(i) = i + %s' % (which, plus_one[1:], k), f.where(d[0]))
                        r.require(k == 1, 'effect:remove/%s-bound' % which, 'the %s of a range with an %s bound i is taken as i + %s, expected i + 1' % (which, plus_one[1:].lower(), k), f.where(d[0]))
                    elif plain in txt:
                        seen += 1
                        r.require(not adds, 'effect:remove/%s-bound' % which, 'the %s of a range with an %s bound i is not i itself: %s' % (which, plain[1:].lower(), txt[:100]), f.where(d[0]))
        # .. and the tail is moved down: after the new length is stored every path to the return passes the copy, except over an
        # edge that says there is nothing to move (new_len == 0, or start >= new_len: the removed range was the end)
        ebl = ExprBuilder(f, multi='leaf')
        copies = [c_[0] for c_ in copy_sites(f)] + [c_[0] for c_ in _copy_within_sites(f)]
        st_locs = [loc for f_, loc, nl in per.get(RB + '::remove', [])]
        nothing = []
        is_nl = lambda e: is_new_len_remove(e)
        is_st = lambda e: is_named('start')(e)
        for b, blk in enumerate(f.blocks):
            t = blk['term']
            if blk['cleanup'] or t['k'] != 'switch':
                continue
            e = ebl.operand(t['discr'])
            vals = {int(v): tg for v, tg in t['targets']}
            t_true, t_false = vals.get(1, t['otherwise']), vals.get(0)
            if e[0] != 'bin':
                continue
            a_, b_ = strip(e[2]), strip(e[3])
            zero = lambda x: x[0] == 'const' and x[1] == 0
            if e[1] == 'Eq' and ((is_nl(a_) and zero(b_)) or (is_nl(b_) and zero(a_))):
                nothing.append(Loc(t_true, 0))
            elif e[1] == 'Ne' and ((is_nl(a_) and zero(b_)) or (is_nl(b_) and zero(a_))) and t_false is not None:
                nothing.append(Loc(t_false, 0))
            elif (e[1] == 'Ge' and is_st(a_) and is_nl(b_)) or (e[1] == 'Le' and is_nl(a_) and is_st(b_)):
                nothing.append(Loc(t_true, 0))
            elif ((e[1] == 'Lt' and is_st(a_) and is_nl(b_)) or (e[1] == 'Gt' and is_nl(a_) and is_st(b_))) and t_false is not None:
                nothing.append(Loc(t_false, 0))
        if r.require(bool(copies) and bool(st_locs), 'effect:remove/shift', 'the copy that moves the tail down / the store of the new length was not found in remove', f.where()):
            starts2 = [Loc(l[0], l[1] + 1) for l in st_locs]
            hit = f.forward_paths_hit(starts2, f.returns(), blockers=copies + nothing)
            r.inst('remove: tail moved down on every path that has something to move (%d "nothing to move" exit(s))' % len(nothing), f.where(copies[0]))
            r.require(hit is None, 'effect:remove/shift', 'a path through remove returns with the new length stored but the bytes behind the removed range not moved down (outside the exits `new_len == 0` / `start >= new_len`): the buffer ends in stale bytes and loses its tail', f.where(hit[0]) if hit else '')
        r.require(seen >= 4, 'effect:remove/bounds', 'the translation of the range bounds into [start, end) was not found in remove (unrecognised form; %d of 4 cases seen)' % seen, f.where())
    r.floor(5)


def check(ctx):
    ctx.run('C15.R1', 'edits rewrite only the length (writers of ReadBuf.owned; change_size keeps the pointer)', c08.r1_owner_pointer)
    ctx.run('C15.R2', 'bounded raw accesses: guarded copies and tail windows', r2_bounded_accesses)
    ctx.run('C15.R2b', 'length invariant of safe edits; unguarded setters are unsafe fns', r2b_length_invariant)
    ctx.run('C15.R3', 'remove validates the range before mutating anything', r3_validate_first)
    ctx.run('C15.R5', 'release gives back the slot taken out of self.owned unconditionally, whatever length the edits left (C08.R2)', c08.r2_release_once)
    ctx.run('C15.R4', 'capacity() is the pool buffer size', r4_capacity)
    ctx.run('C15.R6', 'each edit stores the length its contract names, on every path on which it applies', r6_edit_effect)
