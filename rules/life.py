"""LIFE family and the other rules anchored in io_uring/op.rs + cq.rs::process
(shared by C01, C02, C03, C06, C09)."""
import re

from .kernel import (guarded_by_variant, AnchorMissing, ExprBuilder, Loc, access_path, bool_call_switches,
                     callee_matches, callee_name, const_switches, const_val, effective_edge,
                     is_local, place_str, pruned, rvalue_operands, specialise, subexprs,
                     variant_edges)
from . import families as fam

STATUS = 'io_uring::op::Status'
STATE_DROP = '<io_uring::op::State<T, R, A> as op::OpState>::drop'
STATE_NEW = '<io_uring::op::State<T, R, A> as op::OpState>::new'
STATE_RESET = '<io_uring::op::State<T, R, A> as op::OpState>::reset'
USER_DATA = 'io_uring::op::State::<T, R, A>::user_data'
DROP_STATE = 'io_uring::op::drop_state'
UPDATE = 'io_uring::op::Shared::<T>::update'
POLL_INNER = 'io_uring::op::poll_inner'
SUBMIT_CLOSURE = 'io_uring::op::poll_inner::{closure#0}'
PROCESS = 'io_uring::cq::Completion::process'
COMPLETE = 'io_uring::cq::Completion::complete'
ADD = 'io_uring::sq::Submissions::add'
CANCEL = 'io_uring::sq::Submissions::cancel'
OPSTATE_DROP_TRAIT = 'op::OpState::drop'


def status_place(f, pl):
    """place is (…).status of op::Shared (resolved through re-borrows)"""
    names = [p.get('name') for p in pl['p'] if p['k'] == 'field']
    if names:
        return names[-1] == 'status'
    ap = access_path(ExprBuilder(f).place(pl))
    return ap is not None and ap[1].split('.')[-1] == 'status'


def status_store_place(pl):
    names = [p.get('name') for p in pl['p'] if p['k'] == 'field']
    return bool(names) and names[-1] == 'status'


def dispatch_edges(f, variant):
    """variant edges of the *dispatching* match on the status (the enum switch
    with the most distinct targets), as a 1-element list like variant_edges"""
    best = None
    for si in f.enum_switches(STATUS):
        if f.blocks[si['bb']]['cleanup'] or not status_place(f, si['place']):
            continue
        n = len(set(si['values'].values()) | {si['otherwise']})
        if best is None or n > best[0]:
            best = (n, si)
    if best is None or best[0] < 4:
        return []
    return [v for v in variant_edges(f, STATUS, variant, status_place) if v['si']['bb'] == best[1]['bb']]


def status_stores(f, variant=None, cleanup=False):
    """assignments `(...).status = Status::<variant>` (value resolved through
    one temp). returns [(loc, variant_name)]"""
    out = []
    eb = ExprBuilder(f)
    for loc, s in f.assigns(cleanup):
        if not status_store_place(s['lhs']) or not s['lhs']['ty'].startswith(STATUS):
            continue
        e = eb.rvalue(s['rv'])
        v = None
        if e[0] == 'agg' and e[1].startswith(STATUS + '::'):
            v = e[1].rsplit('::', 1)[1]
        else:
            # `status = match .. { A => Status::X {..}, _ => Status::Y }`: one entry per alternative, all at the store
            e2 = ExprBuilder(f, multi='phi').rvalue(s['rv'])
            if e2[0] == 'phi' and all(a[0] == 'agg' and a[1].startswith(STATUS + '::') for a in e2[1]):
                for a in e2[1]:
                    out.append((loc, a[1].rsplit('::', 1)[1], a))
                continue
        out.append((loc, v, e))
    if variant is not None:
        out = [x for x in out if x[1] == variant]
    return out


def waker_registrations(f):
    """locations in f behind which the operation state's waker slot holds a waker for the current task: a store of
    Some(ctx.waker().clone()) into the slot, `slot_waker.clone_from(ctx.waker())`, or the true edge of
    `slot_waker.will_wake(ctx.waker())` — the three exits of set_waker / register_waker, which the normaliser
    always inlines.  Returns [(kind, Loc)]."""
    eb = ExprBuilder(f, multi='phi')

    def from_ctx(e):
        return any(x[0] == 'call' and x[1].endswith('Context::<\'a>::waker') for x in subexprs(e)) or \
            any(x[0] == 'arg' and 'waker' in str(x[2] or '') for x in subexprs(e))

    def is_slot(e):
        # the slot itself, or a view of it (`slot.as_mut()`, `&mut *slot`, its Some payload)
        for x in subexprs(e):
            if x[0] in ('proj', 'arg', 'local', 'ref'):
                ap = access_path(x)
                if ap and 'waker' in ap[1].split('.') and not any(y[0] == 'call' and y[1].endswith('Context::<\'a>::waker') for y in subexprs(x)):
                    return True
        return False
    out = []
    for loc, s in f.assigns():
        if not s['lhs']['p']:
            continue
        if (s['lhs'].get('ty') or '').startswith('std::option::Option<std::task::Waker>') and is_slot(eb.place(s['lhs'])):
            e = eb.rvalue(s['rv'])
            if e[0] == 'agg' and e[1].endswith('Option::Some') and from_ctx(e):
                out.append(('store', loc))
    for loc, t in f.calls():
        c = t.get('callee') or ''
        if (c.endswith('Clone::clone_from') or c.endswith('Waker::clone_from')) and len(t['args']) == 2 and not f.blocks[loc[0]]['cleanup']:
            if is_slot(eb.operand(t['args'][0])) and from_ctx(eb.operand(t['args'][1])):
                out.append(('clone_from', loc))
    for c in bool_call_switches(f, 'std::task::Waker::will_wake'):
        t = f.at(c['call_loc'])
        if len(t['args']) == 2 and is_slot(eb.operand(t['args'][0])) and from_ctx(eb.operand(t['args'][1])) and c['true'] != c['false'] \
                and len([p_ for p_ in f.pred[c['true']] if not f.blocks[p_]['cleanup']]) == 1:
            out.append(('will_wake', Loc(c['true'], 0)))
    return out


def param_calls(f, name):
    """calls of closure parameter `name` (Fn::call on &param)"""
    l = f.arg_local(name)
    out = []
    if l is None:
        return out
    eb = ExprBuilder(f)
    for loc, t in f.calls():
        if t.get('callee_trait') in ('std::ops::Fn', 'std::ops::FnMut', 'std::ops::FnOnce') and t['args']:
            e = eb.operand(t['args'][0])
            while e[0] == 'ref':
                e = e[1]
            if e[0] == 'arg' and e[1] == l:
                out.append((loc, t))
    return out


# ---------------------------------------------------------------------------
# LIFE-1 .. LIFE-8
# ---------------------------------------------------------------------------

def life1(r, facts):
    """single deallocation site of Data"""
    n_from, n_into = 0, 0
    for f in facts.func_list:
        for loc, t in f.calls(cleanup=True):
            full = t.get('callee_full') or ''
            if re.match(r'^std::boxed::Box::<io_uring::op::Data<.*>>::from_raw', full):
                n_from += 1
                r.inst('Box<Data>::from_raw in %s' % f.path, f.where(loc))
                r.require(f.path == DROP_STATE, 'from_raw:%s' % f.path, 'Box::<Data>::from_raw outside drop_state', f.where(loc))
            if re.match(r'^std::boxed::Box::<io_uring::op::Data<.*>>::into_raw', full):
                n_into += 1
                r.inst('Box<Data>::into_raw in %s' % f.path, f.where(loc))
                r.require(f.path == STATE_NEW, 'into_raw:%s' % f.path, 'Box::<Data>::into_raw outside State::new', f.where(loc))
            if (t.get('callee') or '').endswith('drop_in_place') and 'io_uring::op::Data<' in full and 'Box<' not in full and f.path != DROP_STATE:
                r.bad('drop_in_place:%s' % f.path, 'Data dropped in place outside drop_state', f.where(loc))
            if (t.get('callee') or '') in ('std::alloc::dealloc', 'alloc::alloc::dealloc') and f.file.endswith('io_uring/op.rs'):
                r.bad('dealloc:%s' % f.path, 'raw dealloc in op.rs', f.where(loc))
        # Drop terminators / mem::drop on Box<Data> outside new (unwind) / drop_state
        for b, blk in enumerate(f.blocks):
            t = blk['term']
            if t['k'] == 'drop' and re.search(r'Box<io_uring::op::Data<', t['place']['ty']):
                r.require(f.path in (DROP_STATE, STATE_NEW), 'drop-box:%s' % f.path, 'a Box<Data> is dropped outside State::new/drop_state', f.where(f.term_loc(b)))
    r.require(n_from == 1, 'from_raw', 'expected exactly one Box::<Data>::from_raw, found %d' % n_from)
    r.require(n_into == 1, 'into_raw', 'expected exactly one Box::<Data>::into_raw, found %d' % n_into)
    tail = facts.adt('io_uring::op::Tail')
    fields = {fl['name']: fl['ty'] for fl in tail['variants'][0]['fields']}
    r.inst('Tail.resources: %s' % fields.get('resources'))
    r.require((fields.get('resources') or '').replace(' ', '').startswith('std::cell::UnsafeCell<std::mem::MaybeUninit<'),
              'Tail.resources', 'Tail.resources is not UnsafeCell<MaybeUninit<R>> (drop glue would touch kernel-owned resources): %s' % fields.get('resources'))
    state = facts.adt('io_uring::op::State')
    sf = {fl['name']: fl['ty'] for fl in state['variants'][0]['fields']}
    r.require((sf.get('data') or '').startswith('std::ptr::NonNull<io_uring::op::Data<'), 'State.data', 'State.data is not NonNull<Data<..>>: %s' % sf.get('data'))
    r.require(not state['has_dtor'], 'State.drop-glue', 'State has a Drop impl (would free while the kernel runs)')
    r.floor(3)


def life2(r, facts):
    """who may free: drop_state mentioned only in State::drop (1 call + 1 fn pointer)"""
    refs = facts.callers.get(DROP_STATE, [])
    calls = [(f, loc) for f, loc, t in refs if t['k'] == 'call' and not f.blocks[loc[0]]['cleanup']]
    fnrefs = [(f, loc) for f, loc, t in refs if t['k'] == 'fnref' and not f.blocks[loc[0]]['cleanup']]
    for f, loc in calls:
        r.inst('call in %s' % f.path, f.where(loc))
        r.require(f.path == STATE_DROP, 'call:%s' % f.path, 'drop_state called outside <State as OpState>::drop', f.where(loc))
    for f, loc in fnrefs:
        r.inst('fn pointer in %s' % f.path, f.where(loc))
        r.require(f.path == STATE_DROP, 'fnref:%s' % f.path, 'drop_state taken as fn pointer outside <State as OpState>::drop', f.where(loc))
    r.require(len(calls) == 1, 'calls', 'expected exactly one direct drop_state call, found %d' % len(calls))
    r.require(len(fnrefs) == 1, 'fnrefs', 'expected exactly one drop_state fn pointer, found %d' % len(fnrefs))
    # the pointer is stored only into Status::Dropped
    f = facts.fn(STATE_DROP)
    for g, loc in fnrefs:
        if g is not f:
            continue
        s = f.at(loc)
        dst = s['lhs']['l']
        ok = False
        for l2, s2 in f.assigns():
            rv = s2['rv']
            if rv['k'] == 'agg' and rv.get('adt') == STATUS and rv.get('variant') == 'Dropped' and any(is_local(o, dst) for o in rv['ops']):
                ok = True
            # or wrapped first (a `DropFn(fn)` newtype): what Dropped is built from contains this function reference
            if not ok and rv['k'] == 'agg' and rv.get('adt') == STATUS and rv.get('variant') == 'Dropped':
                e_ = ExprBuilder(f).rvalue(rv)
                if any(x[0] == 'const' and DROP_STATE.rsplit('::', 1)[-1] in str(x[2] or '') and 'fn' in str(x[3] or '') for x in subexprs(e_)):
                    ok = True
        r.require(ok, 'fnref-dest', 'the drop_state pointer is not stored in Status::Dropped', f.where(loc))
        # generic arguments identical to the impl's (same monomorphic Data layout)
        full = None
        for op in rvalue_operands(s['rv']):
            full = op.get('fn_full') or full
        r.require(full == DROP_STATE + '::<T, R, A>', 'fnref-generics', 'drop_state pointer instantiated with other type arguments: %s' % full, f.where(loc))
    for g, loc in calls:
        t = g.at(loc)
        r.require(t.get('callee_full') == DROP_STATE + '::<T, R, A>', 'call-generics', 'drop_state call instantiated with other type arguments: %s' % t.get('callee_full'), g.where(loc))
    r.floor(2)


def life3(r, facts):
    """State::drop defers while Running"""
    f = facts.fn(STATE_DROP)
    ves = variant_edges(f, STATUS, 'Running', status_place)
    if not r.require(len(ves) == 1, 'State::drop', 'expected one test of the status for Running in State::drop, found %d' % len(ves), f.where()):
        return
    ve = ves[0]
    run_edge = ve['edge']
    r.inst('Running edge bb%d->bb%d' % run_edge, f.where(f.term_loc(run_edge[0])))
    r.require(not ve['shared_with'], 'State::drop/running-test-too-wide', 'the deferred-drop path is also taken for status %s: such a state is cancelled and marked Dropped although no completion will ever free it' % ve['shared_with'], f.where(f.term_loc(run_edge[0])))
    direct = [loc for loc, t in f.calls_to(DROP_STATE)]
    dropped = [loc for loc, v, e in status_stores(f, 'Dropped')]
    rets = f.returns()
    start = [Loc(run_edge[1], 0)]
    hit = f.forward_paths_hit(start, direct)
    r.require(hit is None, 'State::drop/running-frees', 'on the Running edge the state is freed directly (kernel still owns it)', f.where(hit[0]) if hit else '')
    r.require(bool(dropped), 'State::drop/dropped-store', 'Status::Dropped is never stored in State::drop', f.where())
    hit = f.forward_paths_hit(start, rets, blockers=dropped)
    r.require(hit is None, 'State::drop/running-not-marked', 'a path on the Running edge returns without storing Status::Dropped (state leaks / completion touches a dead future)', f.where(hit[0]) if hit else '')
    # check-then-act: the status test and the Dropped store happen under one continuous hold of the state lock
    regs = fam.guard_regions(f, 'shared')
    test_loc = f.term_loc(ve['si']['bb'])
    discr_locs = [l for l, k, pl in f.defs.get(ve['si']['discr']['l'], []) if k == 'assign'] if 'l' in ve['si']['discr'] else []
    ok_region = False
    for reg in regs:
        if all(d in reg['held'] for d in dropped) and (test_loc in reg['held'] or any(d in reg['held'] for d in discr_locs)):
            ok_region = True
    r.inst('status test and Dropped store under one lock region: %s (%d lock regions)' % (ok_region, len(regs)), f.where(test_loc))
    r.require(ok_region, 'State::drop/check-then-act', 'the state lock is released between testing the status for Running and storing Status::Dropped: a final completion processed in between sets Done, which is then overwritten by Dropped and the state is never freed', f.where(test_loc))
    # Dropped is stored only on the Running edge
    for loc in dropped:
        r.require(guarded_by_variant(f, ve, loc), 'State::drop/dropped-elsewhere', 'Status::Dropped stored on a path where the status is not Running', f.where(loc))
    # complement: direct free exactly once
    for ce in ve['complement']:
        r.inst('not-Running edge bb%d->bb%d' % ce, f.where(f.term_loc(ce[0])))
        hit = f.forward_paths_hit([Loc(ce[1], 0)], rets, blockers=direct)
        r.require(hit is None, 'State::drop/not-running-leaks', 'a path where the operation is not running returns without freeing the state', f.where(hit[0]) if hit else '')
    for d in direct:
        t = f.at(d)
        if t['target'] is not None:
            hit = f.forward_paths_hit([Loc(t['target'], 0)], direct)
            r.require(hit is None, 'State::drop/double-free', 'drop_state reachable twice', f.where(d))
        # the direct call must not happen under the state's own lock (Box freed while guard alive)
        for reg in fam.guard_regions(f, 'shared'):
            r.require(d not in reg['live'], 'State::drop/free-under-lock', 'drop_state is called while the guard of the state mutex is alive', f.where(d))
    # the direct call frees self.data
    eb = ExprBuilder(f)
    for d in direct:
        e = eb.operand(f.at(d)['args'][0])
        ap = access_path(e)
        r.require(ap is not None and ap[0][0] == 'arg' and ap[1].endswith('data'), 'State::drop/free-arg', 'drop_state is not given self.data: %s' % (e,), f.where(d))
    r.floor(2)


def _left_by_replace(f, loc, v):
    eb = ExprBuilder(f)
    others = [l for l, _, _ in status_stores(f) if l != loc]
    for l, t in f.calls():
        if (t.get('callee') or '') != 'std::mem::replace' or len(t['args']) != 2:
            continue
        ap = access_path(eb.operand(t['args'][0]))
        val = eb.operand(t['args'][1])
        if not (ap and ap[1].split('.')[-1] == 'status' and val[0] == 'agg' and val[1] == STATUS + '::' + v):
            continue
        if not f.dominates(l, loc):
            continue
        if f.forward_paths_hit([Loc(t['target'], 0)], others, blockers=[loc]) is None or not others:
            return True
    return False


def life4(r, facts):
    """free / Done only on the final completion"""
    f = facts.fn(UPDATE)
    ves_d = dispatch_edges(f, 'Dropped')
    if not r.require(len(ves_d) >= 1, 'Shared::update', 'no match arm for Status::Dropped in update', f.where()):
        return
    drop_edge = ves_d[0]['edge']
    cs = bool_call_switches(f, COMPLETE)
    r.require(len(cs) >= 2, 'Shared::update/complete-tests', 'expected tests of Completion::complete() in both the running and the dropped arm, found %d' % len(cs), f.where())
    # StatusUpdate::Drop aggregates
    drops = []
    for loc, s in f.assigns():
        rv = s['rv']
        if rv['k'] == 'agg' and rv.get('adt') == 'io_uring::op::StatusUpdate' and rv.get('variant') == 'Drop':
            drops.append(loc)
    r.require(len(drops) >= 1, 'Shared::update/Drop', 'StatusUpdate::Drop is never produced', f.where())
    for d in drops:
        r.inst('StatusUpdate::Drop', f.where(d))
        r.require(f.edge_dominates(drop_edge, d), 'Shared::update/Drop-arm', 'StatusUpdate::Drop produced outside the Dropped arm', f.where(d))
        ok = any(f.edge_dominates((c['bb'], c['true']), d) and c['true'] != c['false'] for c in cs)
        r.require(ok, 'Shared::update/Drop-final', 'StatusUpdate::Drop (free the state) is not conditional on Completion::complete() (a completion with F_MORE would free state the kernel still uses)', f.where(d))
        # the pointer handed out is the one stored in Dropped
        eb = ExprBuilder(f)
        e = eb.rvalue(f.at(d)['rv'])
        srcs = [x for x in subexprs(e) if x[0] == 'proj' and any(p == '@Dropped' for p in x[2])]
        r.require(bool(srcs), 'Shared::update/Drop-ptr', 'StatusUpdate::Drop does not carry the pointer stored in Status::Dropped', f.where(d))
    # Done stores
    dones = status_stores(f, 'Done')
    r.require(len(dones) >= 1, 'Shared::update/Done', 'status is never set to Done', f.where())
    for loc, v, e in dones:
        r.inst('status = Done', f.where(loc))
        ok = any(f.edge_dominates((c['bb'], c['true']), loc) and c['true'] != c['false'] for c in cs)
        r.require(ok, 'Shared::update/Done-final', 'status set to Done without Completion::complete() being true (resources handed back while the kernel still uses them)', f.where(loc))
    # any other status store in update must be part of the replace dance (Complete -> Done immediately)
    for loc, v, e in status_stores(f):
        if v not in ('Done',):
            # storing back the variant that a dominating `replace(&mut self.status, Status::V)` just left there changes
            # nothing (`self.status = match replace(..) { Running|Done => Done, _ => Status::Complete }`)
            if v is not None and _left_by_replace(f, loc, v):
                continue
            r.bad('Shared::update/status-store', 'unexpected status store %s in update' % v, f.where(loc))
    # Completion::complete == (flags & F_MORE) == 0
    g = facts.fn(COMPLETE)
    eb = ExprBuilder(g)
    more = facts.const('io_uring::libc::IORING_CQE_F_MORE')
    ok = False
    for loc, s in g.assigns():
        if is_local(s['lhs'], 0):
            e = eb.rvalue(s['rv'])
            if e[0] == 'bin' and e[1] == 'Eq' and e[3][0] == 'const' and e[3][1] == 0 and e[2][0] == 'bin' and e[2][1] == 'BitAnd':
                m = [y for y in (e[2][2], e[2][3]) if y[0] == 'const']
                fl = [y for y in (e[2][2], e[2][3]) if fam.last_field(y) == 'flags']
                ok = bool(m) and bool(fl) and m[0][1] == more
            r.inst('complete() = %s' % (e,), g.where(loc))
    r.require(ok, 'Completion::complete', 'Completion::complete is not `flags & IORING_CQE_F_MORE == 0`', g.where())
    # process: indirect call only in the StatusUpdate::Drop arm; wake only in Wake arm
    p = facts.fn(PROCESS)
    ves = variant_edges(p, 'io_uring::op::StatusUpdate', 'Drop')
    ves_w = variant_edges(p, 'io_uring::op::StatusUpdate', 'Wake')
    if r.require(len(ves) == 1 and len(ves_w) == 1, 'Completion::process', 'match on StatusUpdate not found in process', p.where()):
        de, we = ves[0]['edge'], ves_w[0]['edge']
        ind = [(loc, t) for loc, t in p.calls() if t.get('indirect')]
        r.require(len(ind) == 1, 'Completion::process/indirect', 'expected exactly one indirect call (the drop pointer) in process, found %d' % len(ind), p.where())
        for loc, t in ind:
            r.inst('indirect drop call', p.where(loc))
            r.require(p.edge_dominates(de, loc), 'Completion::process/indirect', 'the type-erased drop function is called outside the StatusUpdate::Drop arm', p.where(loc))
            eb = ExprBuilder(p)
            fe = eb.operand(t['func'])
            r.require(any(x[0] == 'proj' and '@Drop' in x[2] for x in subexprs(fe)), 'Completion::process/indirect-fn', 'the indirect call does not use the pointer from StatusUpdate::Drop', p.where(loc))
        wakes = p.calls_to('std::task::Waker::wake')
        r.require(len(wakes) == 1, 'Completion::process/wake', 'expected exactly one Waker::wake in process, found %d' % len(wakes), p.where())
        for loc, t in wakes:
            r.inst('wake', p.where(loc))
            r.require(p.edge_dominates(we, loc), 'Completion::process/wake', 'Waker::wake outside the StatusUpdate::Wake arm', p.where(loc))
        # the state lock is released before the indirect free
        for loc, t in ind:
            for reg in fam.guard_regions(p):
                r.require(loc not in reg['live'], 'Completion::process/free-under-lock', 'the state is freed while its mutex guard is alive', p.where(loc))
    r.floor(5)


def life5(r, facts):
    """resource access discipline in poll_inner"""
    f0 = facts.fn(POLL_INNER)
    ves = {v: dispatch_edges(f0, v) for v in ('NotStarted', 'Running', 'Done', 'Dropped', 'Complete')}
    for v, x in ves.items():
        if not r.require(len(x) == 1, 'poll_inner/status-%s' % v, 'expected one status dispatch with an arm for %s, found %d' % (v, len(x)), f0.where()):
            return
    done_e = ves['Done'][0]['edge']
    run_e = ves['Running'][0]['edge']
    for ms in (False, True):
        f = specialise(f0, 'OpResult>::IS_MULTISHOT', ms)
        tag = 'multishot' if ms else 'singleshot'
        gets = param_calls(f, 'get_resources')
        maps = param_calls(f, 'map_ok')
        fbs = param_calls(f, 'fallback')
        dips = [(loc, t) for loc, t in f.calls() if (t.get('callee') or '').endswith('::drop_in_place')]
        reach = f.reachable_blocks(0)
        for kind, sites in (('get_resources', gets), ('map_ok', maps), ('fallback', fbs), ('drop_in_place', dips)):
            for loc, t in sites:
                if loc[0] not in reach:
                    continue
                r.inst('%s [%s]' % (kind, tag), f.where(loc))
                in_done = f.edge_dominates(done_e, loc)
                in_run = f.edge_dominates(run_e, loc)
                if kind in ('get_resources', 'map_ok'):
                    ok = in_done or (in_run and ms)
                else:
                    ok = in_done
                r.require(ok, 'poll_inner/%s/%s' % (kind, tag), '%s is reachable outside the Done arm%s (resources may still belong to the kernel)' % (kind, '' if not ms else ' / multishot Running arm'), f.where(loc))
        if not ms:
            # Done arm: status = Complete dominates get_resources
            completes = [loc for loc, v, e in status_stores(f, 'Complete') if loc[0] in reach]
            for loc, t in gets:
                if loc[0] not in reach:
                    continue
                ok = any(f.dominates(c, loc) for c in completes)
                r.require(ok, 'poll_inner/complete-before-read', 'singleshot resources are read out before the status is set to Complete (double drop on a later drop of the future)', f.where(loc))
            # Running-singleshot arm: nothing touches tail.resources
            start = [Loc(run_e[1], 0)]
            for loc in f.reachable_locs(start):
                if f.is_term(loc):
                    continue
                s = f.at(loc)
                if s['k'] == 'assign':
                    for pl in [s['lhs']] + [x for x in [s['rv'].get('place')] if x]:
                        if 'resources' in [p.get('name') for p in pl['p'] if p['k'] == 'field']:
                            r.bad('poll_inner/running-touches-resources', 'the Running arm of a singleshot operation accesses tail.resources', f.where(loc))
        else:
            # multishot Done + next()==None: Complete stored before drop_in_place
            completes = [loc for loc, v, e in status_stores(f, 'Complete') if loc[0] in reach]
            for loc, t in dips:
                if loc[0] in reach:
                    ok = any(f.dominates(c, loc) for c in completes)
                    r.require(ok, 'poll_inner/complete-before-drop', 'multishot resources dropped in place before the status is set to Complete', f.where(loc))
    r.floor(6)


def life6(r, facts):
    """status published under the lock (NotStarted arm)"""
    f = facts.fn(POLL_INNER)
    regs = fam.guard_regions(f, 'shared')
    if not r.require(len(regs) == 1, 'poll_inner', 'expected one lock(&data.shared) in poll_inner, found %d' % len(regs), f.where()):
        return
    live = regs[0]['held']
    adds = f.calls_to(ADD)
    if not r.require(len(adds) == 1, 'poll_inner', 'expected one Submissions::add call', f.where()):
        return
    add_loc, add_t = adds[0]
    r.inst('add under state lock', f.where(add_loc))
    r.require(add_loc in live, 'poll_inner/add-unlocked', 'the submission is queued without holding the state lock (a completion can race the Running store)', f.where(add_loc))
    ok_edge = None
    for si in f.enum_switches('std::result::Result'):
        if si['place']['l'] == add_t['dest']['l'] and not si['place']['p']:
            ok_edge = f.variant_edge(si, 'Ok')
    if not r.require(ok_edge is not None, 'poll_inner', 'match on the add result not found', f.where(add_loc)):
        return
    start = [Loc(ok_edge[1], 0)]
    running = [(loc, e) for loc, v, e in status_stores(f, 'Running')]
    wakers = [loc for loc, s in f.assigns() if [p.get('name') for p in s['lhs']['p'] if p['k'] == 'field'][-1:] == ['waker']]
    # `set_waker(&mut shared.waker, ctx.waker())` registers the waker just the same (stores it unless the one stored
    # already wakes the same task)
    wakers = sorted(set(wakers) | {loc for k, loc in waker_registrations(f)})
    r.require(len(running) == 1, 'poll_inner/running-store', 'expected exactly one `status = Running` store, found %d' % len(running), f.where())
    rets = f.returns()
    for loc, e in running:
        r.inst('status = Running', f.where(loc))
        r.require(loc in live, 'poll_inner/running-unlocked', 'Status::Running is stored after the state lock was released', f.where(loc))
        r.require(f.edge_dominates(ok_edge, loc), 'poll_inner/running-without-submit', 'Status::Running stored on a path where add did not succeed', f.where(loc))
        # built from O::empty()
        fresh = any(x[0] == 'call' and x[1].endswith('OpResult::empty') for x in subexprs(e))
        r.require(fresh, 'poll_inner/running-fresh', 'Running is not built from a fresh O::empty() result container: %s' % (e,), f.where(loc))
    hit = f.forward_paths_hit(start, rets + regs[0]['releases'], blockers=[l for l, e in running])
    r.require(hit is None, 'poll_inner/submit-without-running', 'after a successful add a path unlocks/returns without storing Status::Running', f.where(hit[0]) if hit else '')
    # every status store of poll_inner happens while the state lock is held
    for loc, v, e in status_stores(f):
        r.require(loc in live, 'poll_inner/status-store-unlocked:%s' % v, 'Status::%s is stored after the state lock was released (races with the completion handler)' % v, f.where(loc))
    wl = [w for w in wakers if f.edge_dominates(ok_edge, w)]
    r.require(bool(wl), 'poll_inner/waker-store', 'no waker is stored on the successful-submit path', f.where(add_loc))
    for w in wl:
        r.inst('waker store', f.where(w))
        r.require(w in live, 'poll_inner/waker-unlocked', 'the waker is stored after the state lock was released', f.where(w))
    hit = f.forward_paths_hit(start, rets + regs[0]['releases'], blockers=wl)
    r.require(hit is None, 'poll_inner/submit-without-waker', 'after a successful add a path unlocks/returns without storing the waker', f.where(hit[0]) if hit else '')
    r.floor(3)


def state_field_adts(facts):
    """ADTs with a field holding an operation State"""
    out = []
    rx = re.compile(r'^(io_uring::op::State<|<.* as (crate::)?op::(Op|FdOp|Iter|FdIter|OpExtract|FdOpExtract)>::State$)')
    for a in facts.adts.values():
        for v in a['variants']:
            for fl in v['fields']:
                if rx.match(fl['ty']):
                    out.append((a, fl['name'], fl['ty']))
    return out


def life7(r, facts):
    """every operation type routes its drop through OpState::drop"""
    owners = state_field_adts(facts)
    drop_impls = {}
    for i in facts.impls_of('std::ops::Drop'):
        if i.get('self_adt'):
            for it in i['items']:
                if it['name'] == 'drop':
                    drop_impls[i['self_adt']] = it['path']
    allowed_callers = set()
    for a, fname, fty in owners:
        path = a['path']
        r.inst('%s.%s: %s' % (path, fname, fty))
        dp = drop_impls.get(path)
        if not r.require(dp is not None, 'owner:%s' % path, 'type %s holds an operation state but has no Drop impl (state leaks / is never cancelled)' % path):
            continue
        f = facts.fn_opt(dp)
        if not r.require(f is not None, 'owner:%s' % path, 'Drop impl body of %s not found' % path):
            continue
        allowed_callers.add(f.path)
        eb = ExprBuilder(f)
        calls = [(loc, t) for loc, t in f.calls() if t.get('callee') == OPSTATE_DROP_TRAIT]
        on_field = []
        for loc, t in calls:
            ap = access_path(eb.operand(t['args'][0]))
            if ap and ap[1].split('.')[-1] == fname:
                on_field.append(loc)
        r.require(len(on_field) == 1, 'owner:%s' % path, 'Drop of %s calls OpState::drop on its state field %d times (expected exactly once)' % (path, len(on_field)), f.where())
        for loc in on_field:
            hit = f.forward_paths_hit([Loc(0, 0)], f.returns(), blockers=[loc])
            r.require(hit is None, 'owner:%s' % path, 'a path through Drop of %s skips OpState::drop' % path, f.where())
    # nobody else calls OpState::drop, except ReceiveSignals::into_inner (checked in C06.R5)
    for g, loc, t in facts.callers.get(OPSTATE_DROP_TRAIT, []):
        if t['k'] != 'call' or g.blocks[loc[0]]['cleanup']:
            continue
        if g.path in allowed_callers:
            continue
        if g.path == 'process::ReceiveSignals::into_inner':
            r.exception('process::ReceiveSignals::into_inner', 'consumes self wrapped in ManuallyDrop before the single OpState::drop (checked by C06.R5)')
            continue
        r.bad('caller:%s' % g.path, 'OpState::drop called outside a Drop impl of a state owner', g.where(loc))
    r.floor(40, 'state-owning types')


def life8(r, facts):
    """State::reset only from Complete"""
    f = facts.fn(STATE_RESET)
    ves = variant_edges(f, STATUS, 'Complete', status_place)
    if not r.require(len(ves) == 1, 'State::reset', 'status test for Complete not found in reset', f.where()):
        return
    ok_edge = ves[0]['edge']
    writes = []
    for loc, s in f.assigns():
        names = [p.get('name') for p in s['lhs']['p'] if p['k'] == 'field']
        if 'resources' in names or names[-1:] == ['args'] or names[-1:] == ['status']:
            writes.append(loc)
    # or written through the cell API: `resources.get_mut().write(v)`, `ptr::write(resources.get(), v)`, `mem::replace(&mut x, v)`
    ebw = ExprBuilder(f, multi='phi')
    for loc, t in f.calls():
        last = (t.get('callee') or '').rsplit('::', 1)[-1]
        if last in ('write', 'replace', 'set') and len(t['args']) == 2 and not f.blocks[loc[0]]['cleanup']:
            tgt = ebw.operand(t['args'][0])
            fields = set()
            for x in subexprs(tgt):
                if x[0] == 'proj':
                    fields |= {p_[1:] for p_ in x[2] if p_.startswith('.')}
            if fields & {'resources', 'args', 'status'}:
                writes.append(loc)
    r.require(len(writes) >= 3, 'State::reset/writes', 'reset does not write resources, args and status (found %d writes)' % len(writes), f.where())
    for w in writes:
        r.inst('write', f.where(w))
        r.require(f.edge_dominates(ok_edge, w), 'State::reset/unguarded', 'reset overwrites state without the status being Complete', f.where(w))
    for ce in ves[0]['complement']:
        hit = f.forward_paths_hit([Loc(ce[1], 0)], f.returns())
        r.require(hit is None, 'State::reset/no-panic', 'reset returns normally when the status is not Complete', f.where())
    r.floor(3)


# ---------------------------------------------------------------------------
# restart (C09 / C01.R11)
# ---------------------------------------------------------------------------

def restart_edges(f, facts):
    """edges of the switch on raw_os_error() values that select the restart arm:
    returns (switch_bb, {errno_value: target}, restart_target or None)"""
    eb = ExprBuilder(f)
    cands = []
    for b, blk in enumerate(f.blocks):
        t = blk['term']
        if blk['cleanup'] or t['k'] != 'switch' or t['discr_ty'] != 'i32':
            continue
        e = eb.operand(t['discr'])
        if any(x[0] == 'call' and x[1] == 'std::io::Error::raw_os_error' for x in subexprs(e)):
            cands.append((b, {int(v): tgt for v, tgt in t['targets']}, t['otherwise']))
    return cands


def restart_store(f):
    return [loc for loc, v, e in status_stores(f, 'NotStarted')]
