"""C08 ReadBufPool buffers are conserved and exclusively owned."""
import re

from .kernel import (ExprBuilder, Loc, access_path, subexprs, variant_edges, is_local, const_val)
from . import families as fam
from . import life
from . import sqe
from . import addr

EXPLANATION = (
    'Decides: (R1) owner-pointer discipline — the only writers of ReadBuf.owned are the constructors (None / '
    "Some(init_buffer(id,n))), release (Option::take), buffer_init's empty edge and editing methods that store "
    'Some(change_size(previous value, _)); change_size keeps the data pointer, so the address given back on '
    'release is the address handed out; (R2) release once: shared.release(ptr) is dominated by the Some edge '
    'of self.owned.take(), Drop calls release, ReadBuf is neither Clone nor Copy; (R3) pool side: the ring '
    'entry write and the tail store lie inside the reregister_lock guard, the 16-bit ring tail is only used '
    'wrap-safely (wrapping_add, index = tail & tail_mask), the Release tail store is the last write; (R4) '
    'id<->address agreement: new() offers addr = bufs_addr + i*buf_size with bid = i, init_buffer returns '
    'bufs_addr + id*buf_size, release derives bid = (ptr - bufs_addr)/buf_size and re-offers addr = ptr, len = '
    'buf_size; ids come only from CompletionFlags::buf_id = flags >> IORING_CQE_BUFFER_SHIFT gated by '
    'IORING_CQE_F_BUFFER; (R5) operations that select pool buffers must return a buffer the kernel picked for '
    'an abandoned operation — known finding K2; (R6) a completion that names a pool buffer (buf_id() is Some) '
    'always hands it to a ReadBuf: no extra condition between the id and buffer_init/new_buffer. Conservation '
    'over histories (a counting argument over run-time state) is not decided.'
    ' Also decided: (R4 buf_id/polarity) Some(id) is built on the edge where IORING_CQE_F_BUFFER is set; (R7) ReadBufPool::new publishes the initial ring tail (pool_size, Release) after the entries on every path that returns the pool.'
)
NOT_DECIDED = "conservation over all histories; concurrent releases beyond the lock region structure"
ASSUMPTIONS = ["the kernel consumes pool ring entries in [head, tail) only", "std Mutex semantics"]

READBUF = 'io::read_buf::ReadBuf'
POOL = 'io_uring::io::ReadBufPool'
CHANGE_SIZE = 'io::read_buf::change_size'
INIT_BUFFER = POOL + '::init_buffer'
RELEASE_SYS = POOL + '::release'
RELEASE = READBUF + '::release'


def owned_writers(facts):
    out = []
    for f in facts.func_list:
        eb = None
        for loc, s in f.assigns():
            fl = [p for p in s['lhs']['p'] if p['k'] == 'field']
            if fl and fl[-1].get('name') == 'owned' and fl[-1].get('adt') == READBUF:
                eb = eb or ExprBuilder(f, multi='phi')
                out.append((f, loc, 'store', eb.rvalue(s['rv'])))
            rv = s['rv']
            if rv['k'] == 'agg' and rv.get('adt') == READBUF:
                eb = eb or ExprBuilder(f, multi='phi')
                i = rv['fields'].index('owned')
                out.append((f, loc, 'construct', eb.operand(rv['ops'][i])))
        for loc, t in f.calls():
            if t['args'] and 'l' in t['args'][0] and (t['args'][0].get('ty') or '').startswith('&mut std::option::Option<std::ptr::NonNull<[u8]>>'):
                eb = eb or ExprBuilder(f, multi='phi')
                ap = access_path(eb.operand(t['args'][0]))
                if ap and ap[1].split('.')[-1] == 'owned':
                    out.append((f, loc, 'call:' + (t.get('callee') or '?'), None))
    return out


def is_prev_owned(e):
    """(*self).owned@Some.0"""
    return e[0] == 'proj' and e[1][0] == 'arg' and e[1][1] == 1 and '.owned' in e[2] and '@Some' in e[2]


def _keeps_slot(facts, f, e):
    """describe the value stored into ReadBuf.owned if it provably names the slot the buffer already owns (or a
    freshly selected one when there was none); None otherwise.  Accepts Some(change_size(prev, n)),
    self.owned.map(|p| change_size(p, n)), and alternatives joined by a match/if (phi), whatever the spelling."""
    if e[0] == 'phi':
        # `owned.map(|p| change_size(p, n))` written out: Some(change_size(prev, n)) when there was a buffer, None
        # when there was none (the None alternative is only accepted next to such a Some alternative)
        nones = [a for a in e[1] if a[0] == 'agg' and a[1].endswith('Option::None')]
        rest = [a for a in e[1] if a not in nones]
        ds = [_keeps_slot(facts, f, a) for a in rest]
        if rest and all(ds) and all('change_size' in d for d in ds):
            return ' | '.join(ds + (['None when there was none'] if nones else []))
        return ' | '.join(ds) if (all(ds) and not nones and ds) else None
    if e[0] == 'agg' and e[1].endswith('Option::Some'):
        return _keeps_ptr(facts, f, e[3][0])
    if e[0] == 'call' and e[1] == 'std::option::Option::<T>::map' and len(e[2]) == 2:
        recv = e[2][0]
        ap = access_path(recv)
        if not (ap and ap[0][0] == 'arg' and ap[0][1] == 1 and ap[1].split('.')[-1] == 'owned'):
            return None
        # the closure: its return value is change_size(<the mapped pointer>, _)
        for loc, s_ in f.assigns():
            rv = s_['rv']
            if rv['k'] == 'agg' and rv.get('ak') == 'closure':
                g = facts.fn_opt(rv['closure'])
                if g is None:
                    continue
                ge = ExprBuilder(g, multi='phi')
                rets = [ge.call(t) for l2, t in g.calls() if is_local(t['dest'], 0)] + [ge.rvalue(s2['rv']) for l2, s2 in g.assigns() if s2['lhs']['l'] == 0 and not s2['lhs']['p']]
                if rets and all(x[0] == 'call' and x[1] == CHANGE_SIZE and x[2][0][0] == 'arg' and x[2][0][1] == 2 for x in rets):
                    return 'owned.map(|p| change_size(p, _))'
        return None
    return None


def _keeps_ptr(facts, f, v):
    if v[0] == 'phi':
        ds = [_keeps_ptr(facts, f, a) for a in v[1]]
        return ' | '.join(ds) if all(ds) else None
    if v[0] == 'call' and v[1] == CHANGE_SIZE and is_prev_owned(v[2][0]):
        return 'Some(change_size(prev, _))'
    if v[0] == 'call' and v[1] == INIT_BUFFER:
        # only where the ReadBuf had no buffer: every init_buffer call of f sits on a None edge of self.owned
        ves = variant_edges(f, 'std::option::Option', 'None')
        calls = [l for l, t in f.calls() if (t.get('callee') or '') == INIT_BUFFER]
        if calls and all(any(f.edge_dominates(v2['raw'], l) for v2 in ves) for l in calls):
            return 'Some(init_buffer) on the None edge'
    return None


def _returns_empty(facts, g, depth=3):
    """every value g returns is a ReadBuf built with `owned: None` (directly, or by another such function)"""
    if g is None or depth == 0:
        return False

    def local_ok(l, seen):
        ds = g.defs.get(l, [])
        if not ds or l in seen:
            return False
        for loc, kind, payload in ds:
            if kind == 'assign' and payload['k'] == 'agg' and payload.get('adt') == READBUF:
                o = payload['ops'][payload['fields'].index('owned')]
                e = ExprBuilder(g, multi='phi').operand(o)
                if not (e[0] == 'agg' and e[1].endswith('Option::None')):
                    return False
            elif kind == 'assign' and payload['k'] == 'use' and 'l' in payload['op'] and not payload['op']['p']:
                if not local_ok(payload['op']['l'], seen | {l}):
                    return False
            elif kind == 'call':
                if not _returns_empty(facts, facts.fn_opt(payload.get('resolved') or payload.get('callee') or ''), depth - 1):
                    return False
            else:
                return False
        # and nothing stores into its `owned` afterwards
        for loc, s_ in g.assigns():
            if s_['lhs']['l'] == l and s_['lhs']['p']:
                return False
        return True
    return local_ok(0, frozenset())


def _fresh_empty_store(facts, f, loc, e):
    """`buf.owned = Some(init_buffer(..))` where `buf` is a local ReadBuf that was just built empty: like constructing it
    with that value"""
    s = f.at(loc)
    lhs = s['lhs']
    if len(lhs['p']) != 1 or lhs["l"] <= f.nargs:
        return None
    if not (e[0] == 'agg' and e[1].endswith('Option::Some') and e[3][0][0] == 'call' and e[3][0][1] == INIT_BUFFER):
        return None
    others = [l2 for l2, s2 in f.assigns() if s2['lhs']['l'] == lhs['l'] and s2['lhs']['p'] and l2 != loc]
    if others:
        return None
    defs = f.reaching_defs([Loc(0, 0)], loc, lhs['l'])
    if not defs:
        return None
    for d in defs:
        if not isinstance(d, Loc):
            return None
        if d.i < len(f.blocks[d.bb]['stmts']):
            rv = f.at(d)['rv']
            if not (rv['k'] == 'agg' and rv.get('adt') == READBUF):
                return None
            o = ExprBuilder(f, multi='phi').operand(rv['ops'][rv['fields'].index('owned')])
            if not (o[0] == 'agg' and o[1].endswith('Option::None')):
                return None
        else:
            t = f.blocks[d.bb]['term']
            if not (t['k'] == 'call' and _returns_empty(facts, facts.fn_opt(t.get('resolved') or t.get('callee') or ''))):
                return None
    return 'Some(init_buffer) stored into a ReadBuf that was just built empty'


def r1_owner_pointer(r, facts):
    ws = owned_writers(facts)
    for f, loc, kind, e in ws:
        key = '%s' % f.path
        desc = None
        if kind == 'construct':
            if e[0] == 'agg' and e[1].endswith('Option::None'):
                desc = 'None'
            elif e[0] == 'agg' and e[1].endswith('Option::Some') and e[3][0][0] == 'call' and e[3][0][1] == INIT_BUFFER:
                desc = 'Some(init_buffer)'
        elif kind == 'store':
            desc = _keeps_slot(facts, f, e) or _fresh_empty_store(facts, f, loc, e)
        elif kind.startswith('call:'):
            if kind == 'call:std::option::Option::<T>::take' and f.path in (RELEASE, '<io::read_buf::ReadBuf as std::ops::Drop>::drop'):
                desc = 'take() in release'      # (C08.R2 checks what happens to the taken pointer there)
        r.inst('%s: %s' % (f.path, desc or ('UNRECOGNISED ' + str(e))), f.where(loc))
        r.require(desc is not None, 'writer:%s' % f.path, 'ReadBuf.owned is written in an unrecognised way (%s %s): the slot given back on release may differ from the slot handed out' % (kind, e), f.where(loc))
    # change_size keeps the data pointer
    g = facts.fn(CHANGE_SIZE)
    eb = ExprBuilder(g, multi='phi', transparent=False)
    ok = False
    for loc, t in g.calls():
        if (t.get('callee') or '') == 'std::ptr::NonNull::<[T]>::slice_from_raw_parts' and is_local(t['dest'], 0):
            p = eb.operand(t['args'][0])
            base = p
            while base[0] == 'call' and base[1] in ('std::ptr::NonNull::<T>::cast', 'std::ptr::NonNull::<[T]>::cast', 'std::ptr::NonNull::<[T]>::as_non_null_ptr'):
                base = base[2][0]
            ok = base[0] == 'arg' and base[1] == 1
            r.inst('change_size = slice_from_raw_parts(%s, %s)' % (p, eb.operand(t['args'][1])), g.where(loc))
    r.require(ok, 'change_size', 'change_size does not keep the data pointer of its argument', g.where())
    r.floor(10, 'writers of ReadBuf.owned')


def release_sites(facts):
    """functions that call the pool-side release (today: ReadBuf::release only; a Drop that repeats its body is one too)"""
    out = []
    for g, loc, t in facts.callers.get(RELEASE_SYS, []):
        if t['k'] == 'call' and g not in out:
            out.append(g)
    return out


def _check_release_site(r, f, name):
    """the take-then-release discipline inside one function"""
    eb = ExprBuilder(f, multi='phi')
    takes = [(loc, t) for loc, t in f.calls() if (t.get('callee') or '') == 'std::option::Option::<T>::take']
    rels = f.calls_to(RELEASE_SYS)
    if not r.require(len(takes) == 1 and len(rels) == 1, name, 'take()/pool release sites not found (take=%d release=%d)' % (len(takes), len(rels)), f.where()):
        return False
    tl, tt = takes[0]
    rl, rt = rels[0]
    some = None
    for si in f.enum_switches('std::option::Option'):
        if si['place']['l'] == tt['dest']['l'] and not si['place']['p']:
            some = f.variant_edge(si, 'Some')
    r.inst('release under Some edge of take()', f.where(rl))
    ok = r.require(some is not None and f.edge_dominates(some, rl), name + '/guard', 'the pool release is not guarded by the Some edge of self.owned.take(): a buffer could be given back twice', f.where(rl))
    # ... and on that edge it is unconditional: whatever the buffer's length after edits, its slot goes back
    if some is not None:
        hit = f.forward_paths_hit([Loc(some[1], 0)], f.returns(), blockers=[rl])
        ok = r.require(hit is None, name + '/skipped', 'a ReadBuf that owns a pool buffer (self.owned is Some) can be released without giving the buffer back to the pool (an extra condition, e.g. on its length, sits between take() and the pool release): the slot is lost to the kernel', f.where(hit[0]) if hit else '') and ok
    v = eb.operand(rt['args'][1])
    ok = r.require(any(x[0] == 'proj' and '@Some' in x[2] for x in subexprs(v)) and any(x[0] == 'call' and x[1].endswith('Option::<T>::take') for x in subexprs(v)),
                   name + '/value', 'the pointer released is not the one taken out of self.owned: %s' % (v,), f.where(rl)) and ok
    tk = access_path(eb.operand(tt['args'][0]))
    ok = r.require(tk is not None and tk[0][0] == 'arg' and tk[0][1] == 1 and tk[1].split('.')[-1] == 'owned', name + '/take', 'take() is not applied to self.owned', f.where(tl)) and ok
    sh = access_path(eb.operand(rt['args'][0]))
    ok = r.require(sh is not None and sh[1].endswith('shared'), name + '/pool', 'the buffer is not released to its own pool (self.shared)', f.where(rl)) and ok
    return ok


def r2_release_once(r, facts):
    f = facts.fn(RELEASE)
    if not _check_release_site(r, f, 'ReadBuf::release'):
        return
    d = facts.fn('<io::read_buf::ReadBuf as std::ops::Drop>::drop')
    n = len(d.calls_to(RELEASE))
    own = len(d.calls_to(RELEASE_SYS))
    r.inst('Drop calls release %d time(s)%s' % (n, ', releases by itself %d time(s)' % own if own else ''), d.where())
    if own and not n:
        # Drop repeats the body of release(): the same discipline is required of it
        _check_release_site(r, d, 'ReadBuf::drop')
    else:
        r.require(n == 1 and not own, 'ReadBuf::drop', 'Drop of ReadBuf does not call release exactly once (%d)' % n, d.where())
    for tr in ('std::clone::Clone', 'std::marker::Copy'):
        r.require(not facts.has_impl(tr, READBUF), 'ReadBuf:%s' % tr, 'ReadBuf implements %s: two owners of one pool buffer' % tr)
    # nobody else calls the pool-side release
    for g, loc, t in facts.callers.get(RELEASE_SYS, []):
        if t['k'] == 'call':
            r.require(g.path in (RELEASE, '<io::read_buf::ReadBuf as std::ops::Drop>::drop'), 'caller:%s' % g.path, 'pool release called outside ReadBuf::release', g.where(loc))
    r.floor(2)


def ring_tail_source(t, eb):
    if (t.get('callee') or '') == 'std::sync::atomic::Atomic::<u16>::load':
        e = eb.operand(t['args'][0])
        if e[0] == 'call' and e[1] == POOL + '::ring_tail':
            return 'ring_tail'
        return '?'
    return None


def r3_pool_side(r, facts):
    f = facts.fn(RELEASE_SYS)
    eb = ExprBuilder(f, multi='phi')
    regs = fam.guard_regions(f, 'reregister_lock')
    if not r.require(len(regs) == 1, 'ReadBufPool::release', 'lock(&self.reregister_lock) not found', f.where()):
        return
    live = regs[0]['held']
    writes = [(loc, t) for loc, t in f.calls() if (t.get('callee') or '') == 'std::mem::MaybeUninit::<T>::write']
    stores = [(loc, t) for loc, t in f.calls() if (t.get('callee') or '') == 'std::sync::atomic::Atomic::<u16>::store']
    loads = [(loc, t) for loc, t in f.calls() if (t.get('callee') or '') == 'std::sync::atomic::Atomic::<u16>::load']
    if not r.require(len(writes) == 1 and len(stores) == 1 and len(loads) == 1, 'ReadBufPool::release/sites', 'entry write / tail load / tail store not unique (%d/%d/%d)' % (len(writes), len(loads), len(stores)), f.where()):
        return
    (wl, wt), (sl, st), (ll, lt) = writes[0], stores[0], loads[0]
    for what, loc in (('ring entry write', wl), ('tail store', sl), ('tail load', ll)):
        r.inst('%s inside reregister_lock' % what, f.where(loc))
        r.require(loc in live, 'ReadBufPool::release/%s' % what.replace(' ', '-'), '%s happens outside the reregister_lock guard' % what, f.where(loc))
    r.require(f.dominates(ll, wl) and f.dominates(wl, sl), 'ReadBufPool::release/order', 'order is not: load tail -> write entry -> store tail', f.where(sl))
    o = fam.ordering_of(f, st['args'][2])
    r.require(fam.ord_ok('store', o), 'ReadBufPool::release/ORD-store', 'ring tail store uses Ordering::%s (needs Release)' % o, f.where(sl))
    o = fam.ordering_of(f, lt['args'][1])
    r.require(fam.ord_ok('load', o), 'ReadBufPool::release/ORD-load', 'ring tail load uses Ordering::%s (needs Acquire)' % o, f.where(ll))
    res = fam.ctr_analysis(f, extra_sources=ring_tail_source)
    for loc, k, msg in res.findings:
        r.bad('ReadBufPool::release/CTR-%s' % k, msg, f.where(loc))
    r.require(any(w == 'ring_tail' for _, w in res.sources), 'ReadBufPool::release/CTR-source', 'ring tail load not recognised as counter source', f.where())
    v = eb.operand(st['args'][1])
    okv = v[0] == 'call' and v[1] == 'core::num::<impl u16>::wrapping_add' and v[2][1][0] == 'const' and v[2][1][1] == 1 and v[2][0][0] == 'call' and v[2][0][1].endswith('Atomic::<u16>::load')
    r.inst('new tail = %s' % (v,), f.where(sl))
    r.require(okv, 'ReadBufPool::release/new-tail', 'stored ring tail is not wrapping_add(tail, 1): %s' % (v,), f.where(sl))
    slot = eb.operand(wt['args'][0])
    idx = [x for x in subexprs(slot) if x[0] == 'bin' and x[1] == 'BitAnd']
    oki = bool(idx) and any(fam.last_field(y) == 'tail_mask' for y in (idx[0][2], idx[0][3])) and any(y[0] == 'call' and y[1].endswith('Atomic::<u16>::load') for y in (idx[0][2], idx[0][3]))
    r.inst('slot index = %s' % (idx[0] if idx else None,), f.where(wl))
    r.require(oki, 'ReadBufPool::release/index', 'ring slot index is not tail & tail_mask', f.where(wl))
    r.require(any(x[0] in ('proj',) and 'ring_addr' in (access_path(x) or (None, ''))[1].split('.') for x in subexprs(slot)), 'ReadBufPool::release/ring', 'the entry is not written into this pool\'s ring (self.ring_addr)', f.where(wl))
    # tail_mask = pool_size - 1 in new()
    n = facts.fn(POOL + '::new')
    en = ExprBuilder(n, multi='phi')
    okm = False
    for loc, s in n.assigns():
        rv = s['rv']
        if rv['k'] == 'agg' and rv.get('adt') == POOL:
            e = en.operand(rv['ops'][rv['fields'].index('tail_mask')])
            if e[0] == 'proj' and e[2] == ('.0',):
                e = e[1]
            okm = e[0] == 'bin' and e[1].startswith('Sub') and e[2][0] == 'arg' and e[2][2] == 'pool_size' and e[3][1] == 1
            r.inst('tail_mask = %s' % (e,), n.where(loc))
    r.require(okm, 'ReadBufPool::new/tail_mask', 'tail_mask is not pool_size - 1', n.where())
    r.floor(5)


LOSSLESS = ('std::convert::From::from', 'std::convert::Into::into')


def strip_casts(e):
    # (`usize::from(x)` / `x.into()` between integers are value-preserving conversions, like a widening cast)
    while e[0] == 'cast' or (e[0] == 'proj' and e[2] == ('.0',) and e[1][0] == 'bin') or (e[0] == 'call' and e[1] in LOSSLESS and len(e[2]) == 1):
        e = e[4] if e[0] == 'cast' else (e[1] if e[0] == 'proj' else e[2][0])
    return e


def r4_id_address(r, facts):
    # init_buffer: bufs_addr + id*buf_size
    f = facts.fn(INIT_BUFFER)
    eb = ExprBuilder(f, multi='phi')
    ok = False
    strides = {}
    for loc, t in f.calls():
        if (t.get('callee') or '') == 'std::ptr::NonNull::<[T]>::slice_from_raw_parts' and is_local(t['dest'], 0):
            p = eb.operand(t['args'][0])
            adds = [x for x in subexprs(p) if x[0] == 'call' and x[1].endswith('::add')]
            if adds:
                base, off = adds[0][2][0], strip_casts(adds[0][2][1])
                okb = fam.last_field(base) == 'bufs_addr'
                okm = off[0] == 'bin' and off[1].startswith('Mul') and any(_is_id(strip_casts(y)) for y in (off[2], off[3])) and any(_stride(y) for y in (off[2], off[3]))
                ok = okb and okm
                if okm:
                    strides['init_buffer (id -> address)'] = [_stride(y) for y in (off[2], off[3]) if _stride(y)][0]
                if okm:
                    for y in (off[2], off[3]):
                        if y[0] == 'cast' and y[1] == 'IntToInt' and y[3] not in ('usize', 'isize', 'u64', 'i64'):
                            r.bad('init_buffer/narrow-mul', 'id * buf_size is computed in %s: overflows for pools of 4 GiB and more' % y[3], f.where(loc))
                    outer = adds[0][2][1]
                    if outer[0] == 'cast' and outer[1] == 'IntToInt' and outer[2] not in ('usize', 'isize', 'u64', 'i64'):
                        r.bad('init_buffer/narrow-mul', 'id * buf_size is computed in %s and widened afterwards: overflows for pools of 4 GiB and more' % outer[2], f.where(loc))
                r.inst('init_buffer -> %s' % (p,), f.where(loc))
            ln = strip_casts(eb.operand(t['args'][1]))
            r.require(ln[0] == 'arg' and ln[2] == 'n', 'init_buffer/len', 'initialised length is not the kernel-reported n', f.where(loc))
    r.require(ok, 'init_buffer/address', 'init_buffer does not return bufs_addr + id * buf_size', f.where())
    # release: bid = (ptr - bufs_addr) / buf_size; addr = ptr; len = buf_size
    g = facts.fn(RELEASE_SYS)
    eg = ExprBuilder(g, multi='phi')
    okr = False
    for loc, s in g.assigns():
        rv = s['rv']
        if rv['k'] == 'agg' and (rv.get('adt') or '').endswith('io_uring_buf'):
            fl = dict(zip(rv['fields'], [eg.operand(o) for o in rv['ops']]))
            a, ln, bid = strip_casts(fl['addr']), fl['len'], strip_casts(fl['bid'])
            oka = a[0] == 'call' and a[1].endswith('::addr') and a[2][0][0] == 'arg' and a[2][0][1] == 2
            okl = fam.last_field(ln) == 'buf_size'
            okb = bid[0] == 'bin' and bid[1] == 'Div' and _stride(bid[3]) is not None
            if okb:
                strides['release (address -> id)'] = _stride(bid[3])
            num = strip_casts(bid[2]) if okb else None
            # the byte offset into the pool and the stride must be divided in full width: any narrowing
            # cast between offset_from and the division truncates offsets of pools >= 4 GiB
            if okb:
                for side, what in ((bid[2], 'the byte offset of the released buffer'), (bid[3], 'the buffer size')):
                    x = side
                    while x[0] == 'cast' or (x[0] == 'proj' and x[2] == ('.0',) and x[1][0] == 'bin'):
                        if x[0] == 'cast':
                            if x[1] == 'IntToInt' and x[3] not in ('usize', 'isize', 'u64', 'i64', 'u128', 'i128'):
                                r.bad('release/bid-narrowed', '%s is narrowed to %s before the division that derives the buffer id: for pools of 4 GiB and more a wrong (lower) id is re-offered and two ReadBufs end up owning one buffer' % (what, x[3]), g.where(loc))
                            x = x[4]
                        else:
                            x = x[1]
            okn = okb and num[0] == 'call' and num[1].endswith('offset_from') and num[2][0][0] == 'arg' and num[2][0][1] == 2 and fam.last_field(num[2][1]) == 'bufs_addr'
            if okb and not okn:
                # the same distance as a difference of the two addresses: ptr.addr() - bufs_addr.addr()
                d = num
                while d[0] == 'cast' or (d[0] == 'proj' and d[2] == ('.0',) and d[1][0] == 'bin'):
                    d = d[4] if d[0] == 'cast' else d[1]
                if d[0] == 'bin' and d[1].startswith('Sub') or (d[0] == 'call' and d[1].endswith('wrapping_sub') and len(d[2]) == 2):
                    lhs, rhs = (d[2], d[3]) if d[0] == 'bin' else (d[2][0], d[2][1])
                    lhs, rhs = strip_casts(lhs), strip_casts(rhs)
                    okn = (lhs[0] == 'call' and lhs[1].endswith('::addr') and strip_casts(lhs[2][0])[0] == 'arg' and strip_casts(lhs[2][0])[1] == 2
                           and rhs[0] == 'call' and rhs[1].endswith('::addr') and fam.last_field(strip_casts(rhs[2][0])) == 'bufs_addr')
            okr = oka and okl and okn
            r.inst('release re-offers addr=%s len=%s bid=%s' % (fl['addr'], ln, fl['bid']), g.where(loc))
            r.require(oka, 'release/addr', 're-offered address is not the released pointer', g.where(loc))
            r.require(okl, 'release/len', 're-offered length is not the pool buffer size', g.where(loc))
            r.require(okn, 'release/bid', 'buffer id is not (ptr - bufs_addr) / buf_size: %s' % (fl['bid'],), g.where(loc))
    r.require(okr, 'release/entry', 'ring entry aggregate not found or malformed in release', g.where())
    # new: addr = bufs + i*buf_size, bid = i (same i)
    n = facts.fn(POOL + '::new')
    en = ExprBuilder(n, multi='phi')
    okn = False
    for loc, s in n.assigns():
        rv = s['rv']
        if rv['k'] == 'agg' and (rv.get('adt') or '').endswith('io_uring_buf'):
            fl = dict(zip(rv['fields'], [en.operand(o) for o in rv['ops']]))
            a, bid, ln = strip_casts(fl['addr']), strip_casts(fl['bid']), fl['len']
            adds = [x for x in subexprs(a) if x[0] == 'call' and x[1].endswith('::add')]
            if adds:
                off = strip_casts(adds[0][2][1])
                if off[0] == 'bin' and off[1].startswith('Mul'):
                    idxs = [strip_casts(y) for y in (off[2], off[3]) if strip_casts(y) == bid]
                    strides_n = [y for y in (off[2], off[3]) if _stride(y)]
                    if strides_n:
                        strides['new (initial offer)'] = _stride(strides_n[0])
                    base = adds[0][2][0]
                    okn = bool(idxs) and bool(strides_n) and any(x[0] == 'call' and x[1] in ('std::alloc::alloc',) for x in subexprs(base)) and ln[0] == 'arg' and ln[2] == 'buf_size'
            r.inst('new() offers addr=%s.. bid=%s..' % (str(fl['addr'])[:80], str(fl['bid'])[:60]), n.where(loc))
    r.require(okn, 'new/entries', 'new() does not offer addr = bufs + i*buf_size with bid = i, len = buf_size', n.where())
    # the allocation the buffers live in spans pool_size * stride
    found_alloc = False
    for af in facts.fns(r'^io_uring::io::'):
        if 'closure' in af.path:
            continue
        ea = None
        for loc, t in af.calls():
            if (t.get('callee') or '').endswith('Layout::from_size_align') and t['args']:
                ea = ea or ExprBuilder(af, multi='phi')
                sz = strip_casts(ea.operand(t['args'][0]))
                if sz[0] == 'proj' and sz[1][0] == 'bin':
                    sz = sz[1]
                if sz[0] == 'bin' and sz[1].startswith('Mul'):
                    st = [_stride(y) for y in (sz[2], sz[3]) if _stride(y)]
                    if st:
                        found_alloc = True
                        strides['allocation (pool_size * stride) in %s' % af.path.rsplit('::', 1)[-1]] = st[0]
                        r.inst('buffers allocated as %s' % (str(sz)[:100],), af.where(loc))
    r.require(found_alloc, 'allocation', 'the allocation of the pool buffers (Layout::from_size_align(pool_size * buf_size, ..)) was not found (unrecognised form)', n.where())
    # the two directions of the id <-> address mapping use one stride
    r.inst('buffer stride: %s' % (strides,), n.where())
    r.require(len(set(strides.values())) <= 1, 'stride-agreement', 'the distance between two pool buffers differs between %s: the id derived from a released address is not the id whose address was handed out (another, possibly owned, buffer is re-offered to the kernel)' % ', '.join('%s: %s' % (k, '.'.join(v)) for k, v in sorted(strides.items())), g.where())
    # ids come from CompletionFlags::buf_id
    b = facts.fn('io_uring::op::CompletionFlags::buf_id')
    ebb = ExprBuilder(b, multi='phi')
    fbuf = facts.const('io_uring::libc::IORING_CQE_F_BUFFER')
    shift = facts.const('io_uring::libc::IORING_CQE_BUFFER_SHIFT')
    okg = oks = False
    for bb, blk in enumerate(b.blocks):
        t = blk['term']
        if t['k'] == 'switch':
            e = ebb.operand(t['discr'])
            if e[0] == 'bin' and e[1] in ('Ne', 'Eq') and e[2][0] == 'bin' and e[2][1] == 'BitAnd' and any(y[0] == 'const' and y[1] == fbuf for y in (e[2][2], e[2][3])):
                okg = True
                # .. with the right polarity: Some(id) is built where the bit is set, None where it is not
                vals = {int(v): tg for v, tg in t['targets']}
                set_e = vals.get(1, t['otherwise']) if e[1] == 'Ne' else vals.get(0)
                clr_e = vals.get(0) if e[1] == 'Ne' else vals.get(1, t['otherwise'])
                somes = [l for l, s_ in b.assigns() if s_['rv']['k'] == 'agg' and s_['rv'].get('variant') == 'Some']
                nones = [l for l, s_ in b.assigns() if s_['rv']['k'] == 'agg' and s_['rv'].get('variant') == 'None']
                if set_e is not None and clr_e is not None and somes:
                    wrong = b.forward_paths_hit([Loc(clr_e, 0)], somes) is not None or (nones and b.forward_paths_hit([Loc(set_e, 0)], nones, blockers=somes) is not None)
                    r.inst('buf_id: Some(id) on the edge where IORING_CQE_F_BUFFER is set: %s' % (not wrong), b.where(b.term_loc(bb)))
                    r.require(not wrong, 'buf_id/polarity', 'CompletionFlags::buf_id returns Some(id) when IORING_CQE_F_BUFFER is *not* set (and None when it is): completions that carry a pool buffer lose it, completions without one adopt buffer 0..', b.where(b.term_loc(bb)))
    for loc, s in b.assigns():
        e = ebb.rvalue(s['rv'])
        for x in subexprs(e):
            if x[0] == 'bin' and x[1] in ('Shr', 'ShrUnchecked') and strip_casts(x[3])[0] == 'const' and strip_casts(x[3])[1] == shift:
                oks = True
    r.inst('buf_id: gated=%s shift=%s' % (okg, oks), b.where())
    r.require(okg and oks, 'buf_id', 'CompletionFlags::buf_id is not (flags >> IORING_CQE_BUFFER_SHIFT) gated by IORING_CQE_F_BUFFER', b.where())
    # every init_buffer/new_buffer/buffer_init id argument originates in flags.buf_id()
    for g2, loc, t in facts.callers.get('io::traits::BufMut::buffer_init', []) + facts.callers.get('io::read_buf::ReadBufPool::new_buffer', []):
        if t['k'] != 'call' or g2.path.startswith('<io::') and 'buffer_init' in g2.path:
            continue
        e2 = ExprBuilder(g2, multi='phi').operand(t['args'][1])
        ok = any(x[0] == 'call' and x[1] == 'io_uring::op::CompletionFlags::buf_id' for x in subexprs(e2)) or (e2[0] == 'arg')
        r.inst('%s id <- %s' % (g2.path, str(e2)[:80]), g2.where(loc))
        r.require(ok, 'id-origin:%s' % g2.path, 'buffer id does not come from the completion flags: %s' % (e2,), g2.where(loc))
    r.floor(5)


def _is_id(e):
    return e[0] == 'proj' and e[1][0] == 'arg' and e[1][2] == 'id'


def _is_buf_size(e):
    e = strip_casts(e)
    return fam.last_field(e) == 'buf_size' or (e[0] == 'call' and e[1] == POOL + '::buf_size') or (e[0] == 'arg' and e[2] == 'buf_size')


def _stride(e):
    """normal form of the distance between two pool buffers: ('size',) = buf_size itself, ('size-rounded-up', m) =
    buf_size.next_multiple_of(m) (never smaller than buf_size, so buffers cannot overlap); None = not recognised."""
    e = strip_casts(e)
    if _is_buf_size(e):
        return ('size',)
    if e[0] == 'call' and e[1].endswith('next_multiple_of') and len(e[2]) == 2 and _is_buf_size(e[2][0]):
        m = strip_casts(e[2][1])
        return ('size-rounded-up', str(m[2] if m[0] == 'const' else m))
    return None


def buffer_select_ops(facts):
    out = {}
    sel = facts.const('io_uring::libc::IOSQE_BUFFER_SELECT')
    for tr, i, f, roles in addr.fill_impls(facts):
        fm = sqe.flowmap(f, facts, sub_param=roles['submission'])
        d = fm.get(1)
        if d and sel in (d['consts'] | d['or_consts']):
            out[i['self']] = f
    return out


def r5_abandoned(r, facts):
    ops = buffer_select_ops(facts)
    u = facts.fn(life.UPDATE)
    d = life.dispatch_edges(u, 'Dropped')
    if not r.require(len(d) == 1, 'Shared::update', 'Dropped arm not found', u.where()):
        return
    reach = u.reachable_locs([Loc(d[0]['edge'][1], 0)])
    from .kernel import rvalue_places
    reads_flags = False
    for loc in reach:
        if u.is_term(loc):
            t = u.at(loc)
            continue
        s = u.at(loc)
        if s['k'] == 'assign':
            for pl in rvalue_places(s['rv']):
                if any(p['k'] == 'field' and p.get('name') == 'flags' for p in pl['p']):
                    # complete() is a call, so a direct read of .flags here would be a buffer-id inspection
                    reads_flags = True
    ds = facts.fn(life.DROP_STATE)
    hook = any((t.get('callee_trait') or '').startswith('io_uring::op::') for loc, t in ds.calls())
    for op, g in sorted(ops.items()):
        name = op.split('::')[-1].split('<')[0]
        r.inst('pool-selecting operation %s' % op, g.where())
        r.require(reads_flags and hook, name, 'when %s was abandoned the completion that names the selected pool buffer (IORING_CQE_F_BUFFER) is discarded: the buffer is never re-offered to the kernel (pool shrinks)' % op, u.where(Loc(d[0]['edge'][1], 0)))
    r.floor(5, 'pool-selecting operations')


def r6_selected_buffer_adopted(r, facts):
    """whenever a completion names a pool buffer (CompletionFlags::buf_id() is Some) the decoder hands that
    buffer to a ReadBuf (buffer_init / new_buffer), whatever the byte count — otherwise nobody owns it and it
    is never re-offered"""
    n = 0
    for f in facts.func_list:
        if f.kind == 'closure':
            continue
        bids = [(l, t) for l, t in f.calls() if (t.get('callee') or '') == 'io_uring::op::CompletionFlags::buf_id' and not f.blocks[l[0]]['cleanup']]
        if not bids or not (f.path.endswith('::map_ok') or f.path.endswith('::map_next') or f.path.endswith('::fallback') or f.path.endswith('::map_ok_extract')):
            continue
        adopt = [l for l, t in f.calls() if (t.get('callee') or '').rsplit('::', 1)[-1] in ('buffer_init', 'new_buffer')]
        for l, t in bids:
            n += 1
            dest = t['dest']['l']
            some = None
            for si in f.enum_switches('std::option::Option'):
                if not si['place']['p'] and si['place']['l'] == dest:
                    some = f.variant_edge(si, 'Some')
            r.inst('%s: buf_id() Some edge %s, adopt sites %d' % (f.path, some, len(adopt)), f.where(l))
            if not r.require(some is not None and adopt, 'adopt:%s' % f.path.split('::')[-2 if f.path.count('::') else 0], 'the Some edge of buf_id() / the buffer_init|new_buffer call was not found in %s (unrecognised form)' % f.path, f.where(l)):
                continue
            hit = f.forward_paths_hit([Loc(some[1], 0)], f.returns(), blockers=adopt)
            key = re.sub(r'<.*', '', f.path.split(' as ')[0].lstrip('<')).split('::')[-1] + '::' + f.path.split('::')[-1]
            r.require(hit is None, 'adopt:%s' % key, 'a completion that names a pool buffer (buf_id() is Some) can be decoded without giving that buffer to a ReadBuf (an extra condition sits between the id and buffer_init/new_buffer): the kernel-selected buffer has no owner and is never offered again', f.where(hit[0]) if hit else f.where(l))
    # decoders that hand the completion to another decoder checked above (`RecvOp::map_ok` = `ReadOp::map_ok`) count with it
    checked = {f.path for f in facts.func_list if f.kind != 'closure' and any((t.get('callee') or '') == 'io_uring::op::CompletionFlags::buf_id' for _, t in f.calls())}
    for f in facts.func_list:
        if f.kind == 'closure' or f.path in checked or not (f.path.endswith('::map_ok') or f.path.endswith('::map_next')):
            continue
        for l, t in f.calls():
            if (t.get('resolved') or '') in checked and not f.blocks[l[0]]['cleanup']:
                n += 1
                r.inst('%s delegates to %s' % (f.path, t.get('resolved')), f.where(l))
                hit = f.forward_paths_hit([Loc(0, 0)], f.returns(), blockers=[l])
                r.require(hit is None, 'adopt:%s/delegation' % f.path.split('::')[-2 if f.path.count('::') else 0], 'a path through the decoder skips the decoder it delegates to', f.where(l))
                # ... and hands it the completion it was given itself: every argument is the parameter at the same position
                from .kernel import not_passed_through
                for i_, e_ in [x_ for x_ in not_passed_through(f, t) if x_[0] > 0]:
                    r.require(False, 'adopt:%s/delegation-args' % re.sub(r'<.*', '', f.path.split(' as ')[0].lstrip('<')).split('::')[-1], 'argument %d handed to the decoder delegated to is not the one this decoder received (%s): the sibling decodes a different completion' % (i_, str(e_)[:100]), f.where(l))
    r.floor(5, 'decoders with a buffer id')


def r7_initial_offer(r, facts):
    """ReadBufPool::new offers every buffer to the kernel: after the entries are written the ring tail is published once —
    `ring_tail.store(pool_size, Release)` — on every path that returns the pool; no entry is written after it."""
    f = facts.fn(POOL + '::new')
    eb = ExprBuilder(f, multi='phi')
    stores = [(loc, t) for loc, t in f.calls() if (t.get('callee') or '') == 'std::sync::atomic::Atomic::<u16>::store' and not f.blocks[loc[0]]['cleanup']]
    writes = [loc for loc, t in f.calls() if (t.get('callee') or '') == 'std::mem::MaybeUninit::<T>::write' and not f.blocks[loc[0]]['cleanup']]
    good = []
    for loc, t in stores:
        tgt = eb.operand(t['args'][0])
        if not any(x[0] == 'call' and x[1] == POOL + '::ring_tail' for x in subexprs(tgt)):
            continue
        v = strip_casts(eb.operand(t['args'][1]))
        o = fam.ordering_of(f, t['args'][2])
        r.inst('initial ring tail = %s (Ordering::%s)' % (v, o), f.where(loc))
        r.require((v[0] == 'arg' and v[2] == 'pool_size') or fam.last_field(v) == 'pool_size', 'new/tail-value', 'the initial ring tail is %s, not the number of buffers written (pool_size): the kernel sees fewer / more buffers than were offered' % (v,), f.where(loc))
        r.require(fam.ord_ok('store', o), 'new/tail-ORD', 'the initial ring tail is published with Ordering::%s (needs Release: the entries must be visible before the tail)' % o, f.where(loc))
        good.append(loc)
        if t.get('target') is not None and writes:
            hit = f.forward_paths_hit([Loc(t['target'], 0)], writes)
            r.require(hit is None, 'new/tail-before-entries', 'ring entries are written after the tail was published', f.where(loc))
    oks = [loc for loc, s_ in f.assigns() if s_['lhs']['l'] == 0 and s_['rv']['k'] == 'agg' and s_['rv'].get('variant') == 'Ok']
    r.require(bool(writes), 'new/entries', 'no ring entry is written in ReadBufPool::new', f.where())
    if r.require(bool(good), 'new/tail-published', 'ReadBufPool::new never publishes the ring tail: the kernel sees an empty buffer ring (every pool read fails with ENOBUFS)', f.where()) and oks:
        hit = f.forward_paths_hit([Loc(0, 0)], oks, blockers=good)
        r.require(hit is None, 'new/tail-published', 'a path through ReadBufPool::new returns the pool without publishing the ring tail', f.where(hit[0]) if hit else '')
    r.floor(1)



def check(ctx):
    ctx.run('C08.R1', 'owner pointer discipline: writers of ReadBuf.owned; change_size keeps the data pointer', r1_owner_pointer)
    ctx.run('C08.R2', 'release once: take() guards the pool release; Drop releases; not Clone/Copy', r2_release_once)
    ctx.run('C08.R3', 'pool side: entry write and tail store under reregister_lock, wrap-safe 16-bit tail, Release store last', r3_pool_side)
    ctx.run('C08.R4', 'id <-> address agreement between new / init_buffer / release; ids only from CompletionFlags::buf_id', r4_id_address)
    ctx.run('C08.R7', 'the initial offer: every entry written, then the ring tail published (pool_size, Release) on every path that returns the pool', r7_initial_offer)
    ctx.run('C08.R6', 'a completion naming a pool buffer always hands it to a ReadBuf (no extra condition between buf_id() and buffer_init/new_buffer)', r6_selected_buffer_adopted)
    ctx.run('C08.R5', 'abandoned pool reads must give the selected buffer back', r5_abandoned)


def check_extra(ctx):
    if ctx.tier != 'thorough':
        return
    from . import witness
    ctx.run('C08.W', 'compile-fail witness: ReadBuf is not Clone', lambda r, facts: witness.run_group(r, ctx.repo, 'c08'))
