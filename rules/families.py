"""Cross-cutting rule families (DESIGN §2): CTR, ORD, guard liveness, LIFE helpers."""
import re

from .kernel import (AnchorMissing, ExprBuilder, Loc, access_path, callee_name,
                     const_val, is_local, place_str, rvalue_operands, subexprs)

SQ_COUNTERS = ('submissions_head', 'submissions_tail')
CQ_COUNTERS = ('entries_head', 'entries_tail')
COUNTER_FIELDS = SQ_COUNTERS + CQ_COUNTERS
NON_COUNTER_WORDS = ('kernel_flags',)

LOAD_KERNEL_SHARED = 'io_uring::load_kernel_shared'

ORDER_CMP = ('Lt', 'Le', 'Gt', 'Ge', 'Cmp')
ARITH = ('Add', 'Sub', 'Mul', 'Div', 'Rem', 'AddWithOverflow', 'SubWithOverflow', 'MulWithOverflow',
         'AddUnchecked', 'SubUnchecked', 'MulUnchecked', 'Shl', 'Shr', 'ShlUnchecked', 'ShrUnchecked')

NUM_METHOD = re.compile(r'^core::num::<impl (u16|u32|u64|usize)>::(\w+)$')


def log_macro(span):
    ms = span.get('macros') or []
    return any(m.startswith('log::') or m.startswith('log::__') for m in ms)


def in_macro(span, names):
    ms = span.get('macros') or []
    return any(m in names for m in ms)


def last_field(expr):
    ap = access_path(expr)
    if ap is None:
        return None
    return ap[1].split('.')[-1] if ap[1] else None


class CtrResult:
    def __init__(self):
        self.sources = []     # (loc, word)
        self.uses = []        # (loc, description) accepted uses
        self.findings = []    # (loc, key_suffix, msg)
        self.returns = set()  # tags on _0
        self.tags = {}


def ctr_analysis(f, extra_sources=None, summaries=None, param_tags=None):
    """Counter typestate for one function.

    extra_sources: callable(term, ExprBuilder) -> word name or None, for loads
    other than load_kernel_shared (the 16-bit pool ring tail).
    summaries: {callee path: set(tags)} for crate-local functions returning
    counters/distances.
    param_tags: {local: set(tags)} for tainted parameters.
    """
    res = CtrResult()
    eb = ExprBuilder(f)
    tags = {}
    if param_tags:
        for k, v in param_tags.items():
            tags[k] = set(v)
    summaries = summaries or {}

    ftags = {}      # (local, field index) -> tags: counters carried in a struct/tuple (`QueueIndices { head, tail }`)

    def optags(op):
        if 'l' not in op:
            return set()
        if len(op['p']) == 1 and op['p'][0]['k'] == 'field' and (op['l'], op['p'][0].get('i')) in ftags:
            return set(ftags[(op['l'], op['p'][0].get('i'))])
        # (_x.0) of an overflow tuple inherits; other projections: field loads
        return set(tags.get(op['l'], ())) if (not op['p'] or all(p['k'] == 'field' and p.get('adt') == '{tuple}' for p in op['p'])) else set()

    def is_ctr(ts):
        return any(t.startswith('ctr:') for t in ts)

    def source_word(t):
        if t.get('callee') == LOAD_KERNEL_SHARED:
            fld = last_field(eb.operand(t['args'][0]))
            return fld or '?'
        if extra_sources:
            return extra_sources(t, eb)
        return None

    # -- fixpoint on local tags
    changed = True
    rounds = 0
    while changed and rounds < 50:
        changed = False
        rounds += 1
        for b, blk in enumerate(f.blocks):
            if blk['cleanup']:
                continue
            for i, s in enumerate(blk['stmts']):
                if s['k'] != 'assign':
                    continue
                lhs = s['lhs']
                if lhs['p']:
                    continue
                rv = s['rv']
                new = set()
                k = rv['k']
                if k == 'use':
                    new = optags(rv['op'])
                elif k == 'cast' and rv['ck'] == 'IntToInt':
                    new = optags(rv['op'])
                elif k == 'bin':
                    ta, tb = optags(rv['a']), optags(rv['b'])
                    op = rv['op']
                    if op == 'BitAnd':
                        # a masked counter is a slot index: it no longer distinguishes full from empty
                        new = {'idx:' + t[4:] for t in (ta | tb) if t.startswith('ctr:')} | {t for t in (ta | tb) if t.startswith('idx:')}
                    elif op in ('Eq', 'Ne') or op in ORDER_CMP:
                        new = set()
                    elif op in ARITH:
                        # counters: flagged below (root only); distances stay distances
                        new = {t for t in (ta | tb) if t == 'dist'}
                    else:
                        new = ta | tb
                elif k in ('ref',):
                    pl = rv['place']
                    if not pl['p']:
                        new = {'ref:' + t for t in tags.get(pl['l'], ()) if not t.startswith('ref:')}
                elif k == 'agg' and rv.get('ak') == 'tuple':
                    for o in rv['ops']:
                        new |= optags(o)
                if k == 'agg' and rv.get('ak') in ('tuple', 'adt') and rv.get('vidx') in (None, 0):
                    for i_, o in enumerate(rv['ops']):
                        ot = optags(o)
                        if ot - ftags.get((lhs['l'], i_), set()):
                            ftags.setdefault((lhs['l'], i_), set()).update(ot)
                            changed = True
                if k == 'use' and 'l' in rv['op'] and not rv['op']['p']:
                    for (l_, i_), ts_ in list(ftags.items()):
                        if l_ == rv['op']['l'] and ts_ - ftags.get((lhs['l'], i_), set()):
                            ftags.setdefault((lhs['l'], i_), set()).update(ts_)
                            changed = True
                if new - tags.get(lhs['l'], set()):
                    tags.setdefault(lhs['l'], set()).update(new)
                    changed = True
            t = blk['term']
            if t['k'] == 'call' and not t['dest']['p']:
                new = set()
                w = source_word(t)
                name = t.get('callee') or ''
                if w is not None:
                    if w in COUNTER_FIELDS or w == 'ring_tail':
                        new = {'ctr:' + w}
                else:
                    m = NUM_METHOD.match(name)
                    at = [optags(a) for a in t['args']]
                    if m:
                        meth = m.group(2)
                        anyc = [is_ctr(x) for x in at]
                        if meth == 'wrapping_sub':
                            if len(at) == 2 and anyc[0] and anyc[1]:
                                new = {'dist'}
                            elif any(anyc):
                                new = set().union(*at)
                        elif meth == 'wrapping_add':
                            new = set().union(*at)
                        else:
                            new = set()  # flagged below; report the root only
                    elif name in summaries:
                        new = set(summaries[name])
                if new - tags.get(t['dest']['l'], set()):
                    tags.setdefault(t['dest']['l'], set()).update(new)
                    changed = True
    res.tags = tags
    res.returns = set(tags.get(0, ()))

    # -- uses
    for b, blk in enumerate(f.blocks):
        if blk['cleanup']:
            continue
        for i, s in enumerate(blk['stmts']):
            if s['k'] != 'assign':
                continue
            loc = Loc(b, i)
            rv = s['rv']
            if rv['k'] == 'bin':
                ta, tb = optags(rv['a']), optags(rv['b'])
                op = rv['op']
                ia = {t[4:] for t in ta if t.startswith('idx:')}
                ib = {t[4:] for t in tb if t.startswith('idx:')}
                if (op in ('Eq', 'Ne') or op in ORDER_CMP) and ia and ib and ia != ib:
                    res.findings.append((loc, 'masked-compare', 'masked ring indices of %s and %s are compared: a full ring (distance == size) is indistinguishable from an empty one: %s' % (sorted(ia), sorted(ib), s['text'])))
                if not (is_ctr(ta) or is_ctr(tb)):
                    continue
                if op in ('Eq', 'Ne'):
                    res.uses.append((loc, 'compare %s' % op))
                elif op == 'BitAnd':
                    res.uses.append((loc, 'mask'))
                elif op in ORDER_CMP:
                    res.findings.append((loc, 'ordered-compare', 'ring counter compared with %s (not wrap-safe): %s' % (op, s['text'])))
                elif op in ARITH:
                    res.findings.append((loc, 'non-wrapping-arith', 'non-wrapping %s on a ring counter (panics or goes wrong at wrap-around): %s' % (op, s['text'])))
                else:
                    res.findings.append((loc, 'unrecognised-use', 'unrecognised operation %s on a ring counter: %s' % (op, s['text'])))
        t = blk['term']
        loc = f.term_loc(b)
        if t['k'] == 'call':
            w = source_word(t)
            if w is not None:
                if w in COUNTER_FIELDS or w == 'ring_tail':
                    res.sources.append((loc, w))
                elif w in NON_COUNTER_WORDS:
                    pass
                else:
                    res.findings.append((loc, 'unrecognised-source', 'load of an unrecognised kernel-shared word %r' % w))
                continue
            at = [optags(a) for a in t['args']]
            anyc = [is_ctr(x) or any(y.startswith('ref:ctr:') for y in x) for x in at]
            if not any(anyc):
                continue
            name = t.get('callee') or ''
            if log_macro(t['span']):
                continue
            m = NUM_METHOD.match(name)
            if m:
                meth = m.group(2)
                if meth in ('wrapping_sub', 'wrapping_add'):
                    res.uses.append((loc, meth))
                else:
                    res.findings.append((loc, 'non-wrapping-arith', 'ring counter passed to %s (not wrap-safe)' % name))
                continue
            if re.match(r'^std::sync::atomic::Atomic::<u(16|32)>::store$', name):
                res.uses.append((loc, 'store'))
                continue
            if name.startswith('log::') or 'std::fmt::' in name or name.startswith('core::fmt::'):
                continue
            res.findings.append((loc, 'unrecognised-use', 'ring counter passed to %s (not an accepted use)' % callee_name(t)))
        elif t['k'] == 'switch':
            if is_ctr(optags(t['discr'])):
                res.findings.append((loc, 'unrecognised-use', 'switch on a raw ring counter'))
    return res


# ---------------------------------------------------------------------------
# ORD
# ---------------------------------------------------------------------------

ATOMIC_RX = re.compile(r'^std::sync::atomic::Atomic::<(u8|u16|u32|u64|usize)>::(\w+)$')
ORD_RANK = {'Relaxed': 0, 'Acquire': 1, 'Release': 1, 'AcqRel': 2, 'SeqCst': 3}


def ordering_of(f, op):
    e = ExprBuilder(f).operand(op)
    if e[0] == 'agg' and e[1].startswith('std::sync::atomic::Ordering::'):
        return e[1].rsplit('::', 1)[1]
    if e[0] == 'const' and e[2] and 'Ordering::' in str(e[2]):
        return str(e[2]).rsplit('::', 1)[1]
    return None


def atomic_sites(f):
    out = []
    for loc, t in f.calls():
        m = ATOMIC_RX.match(t.get('callee') or '')
        if m:
            out.append((loc, t, m.group(2)))
    return out


def ord_ok(kind, ordering):
    """kind in load/store/rmw"""
    if ordering is None:
        return False
    if kind == 'load':
        return ordering in ('Acquire', 'SeqCst')
    if kind == 'store':
        return ordering in ('Release', 'SeqCst')
    return ordering in ('AcqRel', 'SeqCst')


def atomic_kind(method):
    if method == 'load':
        return 'load'
    if method == 'store':
        return 'store'
    if method in ('swap', 'fetch_or', 'fetch_and', 'fetch_add', 'fetch_sub', 'fetch_xor',
                  'compare_exchange', 'compare_exchange_weak', 'fetch_update', 'fetch_nand', 'fetch_max', 'fetch_min'):
        return 'rmw'
    return None


# ---------------------------------------------------------------------------
# Mutex guard liveness
# ---------------------------------------------------------------------------

LOCK_FNS = ('lock', 'try_lock')


def guard_regions(f, field=None):
    """Find calls lock(&X) / try_lock(&X) (crate helpers) where X's access path
    ends in `field` (or any when None). For each, compute the set of locations
    where the guard is live: from the call's successor to the point where the
    guard local (or a local it was moved to) is passed by value to
    mem::drop / dropped by a Drop terminator.
    Returns list of dict(loc, field, live:set(Loc), releases:[Loc])."""
    eb = ExprBuilder(f)
    out = []
    for loc, t in f.calls():
        if t.get('callee') not in LOCK_FNS:
            continue
        fld = last_field(eb.operand(t['args'][0]))
        if field is not None and fld != field:
            continue
        if t['dest']['p']:
            continue
        g = t['dest']['l']
        aliases = {g}
        # follow moves of the guard into other locals (incl. Option payload of try_lock)
        changed = True
        while changed:
            changed = False
            for l2, s in f.assigns():
                rv = s['rv']
                if rv['k'] == 'use' and 'l' in rv['op'] and rv['op']['l'] in aliases and not s['lhs']['p']:
                    if s['lhs']['l'] not in aliases:
                        aliases.add(s['lhs']['l'])
                        changed = True
        releases = []
        for l2, t2 in f.calls():
            if t2.get('callee') == 'std::mem::drop' and t2['args'] and 'l' in t2['args'][0] and t2['args'][0]['l'] in aliases:
                releases.append(l2)
        for b, blk in enumerate(f.blocks):
            if blk['cleanup']:
                continue
            tt = blk['term']
            if tt['k'] == 'drop' and tt['place']['l'] in aliases:
                releases.append(f.term_loc(b))
        start = Loc(t['target'], 0) if t['target'] is not None else None
        live = f.reachable_locs([start], blockers=releases) if start else set()
        # 'live' is a may-set (some path from the lock reaches the location with the guard alive);
        # 'held' is the must-set: locations that cannot be reached from the function entry, or from
        # behind a release, without passing through this lock call again (so a lock taken on one
        # branch only, `if c { None } else { Some(lock(..)) }`, holds nowhere after the join)
        after = []
        for rl in releases:
            tt = f.at(rl)
            if f.is_term(rl) and tt.get('target') is not None:
                after.append(Loc(tt['target'], 0))
        unlocked = f.reachable_locs([Loc(0, 0)] + after, blockers=[loc])
        held = {l for l in live if l not in unlocked}
        out.append({'loc': loc, 'field': fld, 'live': live, 'held': held, 'releases': releases, 'guard': g, 'aliases': aliases})
    return out
