"""C16 Socket addresses round-trip through their kernel representation."""
import re

from .kernel import (specialise_value, ExprBuilder, Loc, access_path, subexprs, variant_edges, is_local, const_val)
from . import families as fam
from . import c10

EXPLANATION = (
    'Decides per SocketAddress impl: (R1) writer/reader agreement — the sockaddr_* fields written by '
    'into_storage are exactly the fields read back by init (padding excluded) and byte-order conversions pair '
    'up (to_be<->from_be, from_ne_bytes<->to_ne_bytes, raw<->raw), each field carrying the matching accessor '
    '(port, ip/octets, flowinfo, scope_id) on every path (no value chosen on a condition); SocketAddr (either '
    'family) dispatches on the family field in both directions; (R2) pointer/length shape — as_ptr/as_mut_ptr '
    "return the address of the storage parameter and a length that is size_of of the family's struct (selected "
    'by the family field for the either-family type); (R3) the Unix reader cuts the path at a NUL before '
    "from_pathname (the kernel's length includes the terminator) and cuts nothing off the bytes given to "
    'from_abstract_name (NULs are part of abstract names); (R5) the view of sun_path is bounded by the storage '
    'size (the kernel reports 111 for a 108-byte path); (R4) for sockaddr_un the length given to the kernel '
    'must depend on the address (abstract and unnamed addresses are length-delimited) — known finding K4. '
    'Equality of the round trip for all values is not decided.'
    ' (R3) the forward search for the path terminator is true for a zero byte (first NUL).'
)
NOT_DECIDED = "value equality of the round trip for all addresses"
ASSUMPTIONS = ["std::net accessors (port, ip, octets, flowinfo, scope_id) are each other's inverses with the constructors"]

TRAIT = 'net::SocketAddress'
CONV_PAIR = {'to_be': 'from_be', 'from_ne_bytes': 'to_ne_bytes', 'to_le': 'from_le', None: None, 'to_be_bytes': 'from_be_bytes', 'from_be_bytes': 'to_be_bytes'}


def impl_fn(facts, self_ty, meth):
    for i, f in facts.impl_fns(TRAIT, meth):
        if i['self'] == self_ty:
            return f
    return None


def conv_of(e):
    """outermost byte-order conversion in e"""
    for x in subexprs(e):
        if x[0] == 'call':
            m = re.match(r'^core::num::<impl u(16|32|64|128)>::(to_be|from_be|to_le|from_le|from_ne_bytes|to_ne_bytes|to_be_bytes|from_be_bytes)$', x[1])
            if m:
                return m.group(2)
    return None


def order_class(e):
    """net byte-order effect of the conversions in e: 'be' when the value crosses between host order and network (big
    endian) order an odd number of times, 'le' likewise for little endian, 'none' otherwise.  `x.to_be()`,
    `from_ne_bytes(x.to_be_bytes())` are the same; so are `from_ne_bytes(ip.octets())` and `ip.to_bits().to_be()`
    (octets are the address in network order), `Ipv4Addr::from(x.to_ne_bytes())` and `Ipv4Addr::from_bits(u32::from_be(x))`."""
    be = le = 0
    for x in subexprs(e):
        if x[0] != 'call':
            continue
        m = re.match(r'^core::num::<impl [ui](16|32|64|128)>::(\w+)$', x[1])
        if m:
            n = m.group(2)
            if n in ('to_be', 'from_be', 'to_be_bytes', 'from_be_bytes', 'swap_bytes') and n != 'swap_bytes':
                be += 1
            elif n in ('to_le', 'from_le', 'to_le_bytes', 'from_le_bytes'):
                le += 1
            elif n == 'swap_bytes':
                be += 1
            continue
        if x[1] in ('std::net::Ipv4Addr::octets', 'std::net::Ipv6Addr::octets', 'std::net::Ipv6Addr::segments'):
            be += 1
        if x[1] in ('std::convert::From::from', 'std::convert::Into::into') and re.search(r'Ipv[46]Addr as std::convert::From<\[u(8|16); \d+\]>', str(x[3] or '')):
            be += 1
    return 'be' if be % 2 else ('le' if le % 2 else 'none')


def accessor_of(e):
    names = [x[1].rsplit('::', 1)[1] for x in subexprs(e) if x[0] == 'call' and x[1].startswith('std::net::')]
    return [n for n in names if n in ('port', 'ip', 'octets', 'flowinfo', 'scope_id')]


def flatten_agg(e, prefix=''):
    """aggregate -> {field path: expr}"""
    out = {}
    if e[0] == 'agg' and e[2] and '::' in e[1]:
        for name, v in zip(e[2], e[3]):
            if v[0] == 'agg' and v[2] and '::' in v[1]:
                out.update(flatten_agg(v, prefix + name + '.'))
            else:
                out[prefix + name] = v
    return out


def r1_field_agreement(r, facts):
    plan = {
        # (accessor, byte-order class of the stored value: ports and addresses in network order, the rest as is)
        'std::net::SocketAddrV4': {'sin_port': ('port', 'be'), 'sin_addr.s_addr': ('ip', 'be')},
        'std::net::SocketAddrV6': {'sin6_port': ('port', 'be'), 'sin6_addr.s6_addr': ('ip', 'be'), 'sin6_flowinfo': ('flowinfo', 'none'), 'sin6_scope_id': ('scope_id', 'none')},
    }
    ctor_arg = {'std::net::SocketAddrV4': ['ip', 'port'], 'std::net::SocketAddrV6': ['ip', 'port', 'flowinfo', 'scope_id']}
    for ty, want in plan.items():
        w = impl_fn(facts, ty, 'into_storage')
        rd = impl_fn(facts, ty, 'init')
        if not r.require(w is not None and rd is not None, ty, 'into_storage/init impl not found for %s' % ty):
            continue
        ew = ExprBuilder(w, multi='phi')
        written = {}
        for loc, s in w.assigns():
            if s['lhs']['l'] == 0 and not s['lhs']['p']:
                written = flatten_agg(ew.rvalue(s['rv']))
        wf = {}
        for fld, v in written.items():
            if v[0] == 'const' or (v[0] == 'cast' and v[4][0] == 'const') or v[0] == 'repeat':
                continue  # family constant / zero padding
            wf[fld] = (accessor_of(v), order_class(v))
            # unconditional: a value chosen on a condition (`if link_local { scope_id } else { 0 }`) drops the
            # component for part of the address space although the reader decodes it for all of it
            core = v
            while core[0] == 'cast':
                core = core[4]
            if core[0] == 'phi':
                bad_alts = [a for a in core[1] if not accessor_of(a)]
                r.require(not bad_alts, '%s/%s/conditional' % (ty, fld), 'field %s is written from the address only on some paths (other paths store %s): for those addresses the component does not survive the round trip' % (fld, ', '.join(str(a)[:40] for a in bad_alts)), w.where())
        r.inst('%s writes %s' % (ty, {k: v for k, v in wf.items()}), w.where())
        # family constant
        fam_fld = [k for k in written if k.endswith('family')]
        if r.require(len(fam_fld) == 1, ty + '/family', 'family field not written', w.where()):
            fv = written[fam_fld[0]]
            txt = str(fv)
            wantf = 'AF_INET6' if ty.endswith('V6') else 'AF_INET'
            r.require(re.search(r'libc::%s\b' % wantf, txt) is not None and not (wantf == 'AF_INET' and 'AF_INET6' in txt), ty + '/family', 'family written is %s, expected %s' % (txt, wantf), w.where())
        er = ExprBuilder(rd, multi='phi')
        news = [(loc, t) for loc, t in rd.calls() if (t.get('callee') or '') == ty + '::new']
        if not r.require(len(news) == 1, ty + '/reader', 'reader does not rebuild the address with %s::new' % ty, rd.where()):
            continue
        args = [er.operand(a) for a in news[0][1]['args']]
        rf = {}
        for pos, a in enumerate(args):
            flds = set()
            for x in subexprs(a):
                if x[0] == 'proj':
                    ap = access_path(x)
                    if ap and ap[1] and (ap[1].startswith('sin') or '.sin' in ap[1]):
                        flds.add(re.sub(r'^.*?(sin6?_)', r'\1', ap[1]))
            for fl in flds:
                longest = max(flds, key=len)
                if fl == longest:
                    rf[fl] = (ctor_arg[ty][pos] if pos < len(ctor_arg[ty]) else '?', order_class(a))
        r.inst('%s reads %s' % (ty, rf), rd.where())
        r.require(set(wf) == set(want), ty + '/writer-fields', 'into_storage writes fields %s, expected %s' % (sorted(wf), sorted(want)), w.where())
        r.require(set(rf) == set(wf), ty + '/field-sets', 'fields written %s and fields read back %s differ (a component of the address does not survive the round trip)' % (sorted(wf), sorted(rf)), rd.where())
        for fld, (acc, conv) in want.items():
            if fld in wf:
                r.require(acc in wf[fld][0], '%s/%s/accessor' % (ty, fld), 'field %s is written from %s, expected %s()' % (fld, wf[fld][0], acc), w.where())
                r.require(wf[fld][1] == conv, '%s/%s/conv' % (ty, fld), 'field %s is written with conversion %s, expected %s' % (fld, wf[fld][1], conv), w.where())
            if fld in rf:
                r.require(rf[fld][0] == acc, '%s/%s/ctor-arg' % (ty, fld), 'field %s is read into constructor argument %s, expected %s' % (fld, rf[fld][0], acc), rd.where())
                r.require(rf[fld][1] == conv, '%s/%s/conv-pair' % (ty, fld), 'field %s is written with byte-order class %s but read with %s (byte order does not round-trip)' % (fld, conv, rf[fld][1]), rd.where())
    # either-family type dispatches on the family in both directions
    ty = 'std::net::SocketAddr'
    w, rd, ap_ = impl_fn(facts, ty, 'into_storage'), impl_fn(facts, ty, 'init'), impl_fn(facts, ty, 'as_ptr')
    if r.require(w is not None and rd is not None, ty, 'impl not found'):
        delegs = sorted({(t.get('callee_full') or '') for loc, t in w.calls() if (t.get('callee') or '') == TRAIT + '::into_storage'})
        r.inst('SocketAddr::into_storage delegates %s' % delegs, w.where())
        r.require(any('SocketAddrV4' in d for d in delegs) and any('SocketAddrV6' in d for d in delegs), ty + '/writer-dispatch', 'into_storage does not delegate to both V4 and V6', w.where())
        delegs = sorted({(t.get('callee_full') or '') for loc, t in rd.calls() if (t.get('callee') or '') == TRAIT + '::init'})
        r.inst('SocketAddr::init delegates %s' % delegs, rd.where())
        r.require(any('SocketAddrV4' in d for d in delegs) and any('SocketAddrV6' in d for d in delegs), ty + '/reader-dispatch', 'init does not delegate to both V4 and V6', rd.where())
        # reader: decided by value — with the family read from the storage fixed to AF_INET only the V4 decoder is
        # reachable, with AF_INET6 only the V6 decoder (`if family == AF_INET`, `match family { .. }`, a helper alike)
        def fam_subj(e):
            if fam.last_field(e) in ('sin6_family', 'sin_family', 'sa_family', 'ss_family'):
                return True
            if e[0] == 'call' and e[1].endswith('::read') and e[2] and any(x[0] == 'arg' and x[1] == 1 for x in subexprs(e)) and \
                    any(x[0] == 'proj' and fam.last_field(x) in ('sin6_family', 'sin_family', 'sa_family', 'ss_family') for x in subexprs(e[2][0])):
                return True     # `addr_of!((*p).sin6_family).read()`
            return e[0] == 'call' and e[1].endswith('::read') and any(x[0] == 'arg' and x[1] == 1 for x in subexprs(e)) \
                and any(x[0] == 'call' and x[1].rsplit('::', 1)[-1] in ('byte_offset', 'byte_add', 'offset', 'add') for x in subexprs(e))
        ok = True
        for v, want in ((2, 'SocketAddrV4'), (10, 'SocketAddrV6')):
            g, decided = specialise_value(rd, fam_subj, v, ExprBuilder(rd), bits=16)
            reach = g.reachable_blocks(0)
            got = sorted({('SocketAddrV4' if 'SocketAddrV4' in (t.get('callee_full') or '') else 'SocketAddrV6') for loc, t in g.calls()
                          if loc[0] in reach and (t.get('callee') or '') == TRAIT + '::init' and not g.blocks[loc[0]]['cleanup']})
            r.inst('family=%d decodes as %s' % (v, got), rd.where())
            if got != [want] or not decided:
                ok = False
            # ... and what is returned is that decoder's result as it is (only wrapped into the enum): no second look at the
            # address that turns, say, an IPv4-mapped IPv6 address into a V4 one
            eg = ExprBuilder(g, multi='phi')
            rets = [eg.rvalue(s_['rv']) for l_, s_ in g.assigns() if s_['lhs']['l'] == 0 and not s_['lhs']['p'] and l_[0] in reach]
            rets += [eg.call(t_) for l_, t_ in g.calls() if is_local(t_['dest'], 0) and l_[0] in reach and not g.blocks[l_[0]]['cleanup']]
            flat = []
            for e_ in rets:
                flat += list(e_[1]) if e_[0] == 'phi' else [e_]
            for e_ in flat:
                x = e_
                while (x[0] == 'call' and x[1] in ('std::convert::Into::into', 'std::convert::From::from') and len(x[2]) == 1) or \
                        (x[0] == 'agg' and x[1].startswith('std::net::SocketAddr::') and len(x[3]) == 1):
                    x = x[2][0] if x[0] == 'call' else x[3][0]
                direct = x[0] == 'call' and x[1] == TRAIT + '::init' and want in (x[3] or '')
                r.require(direct, ty + '/reader-rewrites:%s' % want, 'with family %d SocketAddr::init does not return the %s decoder\'s result as it is: %s — some addresses of that family read back as a different address' % (v, want, str(e_)[:160]), rd.where())
        r.require(ok, ty + '/reader-family', 'the AF_INET branch of SocketAddr::init does not decode as V4', rd.where())
    r.floor(6)


def _start_offset(e):
    """start offset of a (nested) slicing of sun_path: sum of the range starts (RangeFrom, Range, RangeInclusive,
    the second half of split_at[_mut]); the first half of a split and RangeTo start at 0"""
    off = 0
    for x in subexprs(e):
        if x[0] == 'agg' and (x[1].endswith('RangeFrom::RangeFrom') or x[1].endswith('Range::Range')) and x[3] and x[3][0][0] == 'const' and x[3][0][1] is not None:
            off += x[3][0][1]
        if x[0] == 'call' and x[1].startswith('std::ops::RangeInclusive') and x[1].endswith('::new') and x[2] and x[2][0][0] == 'const' and x[2][0][1] is not None:
            off += x[2][0][1]
        if x[0] == 'proj' and x[2][:1] == ('.1',) and x[1][0] == 'call' and 'split_at' in x[1][1] and x[1][2][1][0] == 'const' and x[1][2][1][1] is not None:
            off += x[1][2][1][1]
        # `split_first()`: the rest starts behind the first element
        if x[0] == 'proj' and x[1][0] == 'call' and x[1][1].endswith('::split_first') and tuple(x[2][:3]) == ('@Some', '.0', '.1'):
            off += 1
        # a slice pattern `[first, rest @ ..]`: the sub-slice projection starts behind the matched elements
        if x[0] == 'proj':
            for p_ in x[2]:
                m_ = re.match(r'^\[(\d+)\.\.', p_)
                if m_:
                    off += int(m_.group(1))
    return off


def r1b_unix_layout(r, facts):
    """Unix addresses: writer and reader agree on where the name lives in sun_path
    (pathname at offset 0, abstract name after one leading NUL)"""
    w = impl_fn(facts, 'std::os::unix::net::SocketAddr', 'into_storage')
    rd = impl_fn(facts, 'std::os::unix::net::SocketAddr', 'init')
    if not r.require(w is not None and rd is not None, 'unix', 'Unix SocketAddress impl not found'):
        return
    ew = ExprBuilder(w, multi='phi')
    copies = [(loc, t) for loc, t in w.calls() if (t.get('callee') or '').endswith('copy_from_slice')]
    wr = {}
    from .kernel import correlated_alternatives
    pairs = []
    for loc, t in copies:
        # one entry per (offset, bytes) alternative when both come out of one tuple (`let (off, bytes) = ..`)
        pairs += [(loc, t, dst, src) for dst, src in correlated_alternatives(w, [t['args'][0], t['args'][1]])]
    for loc, t, dst, src in pairs:
        kind = 'abstract' if 'as_abstract_name' in str(src) else ('pathname' if 'as_pathname' in str(src) else '?')
        if kind == '?' and len(pairs) > len(copies) and not any(x[0] in ('arg', 'local') for x in subexprs(src)) \
                and not any(x[0] == 'call' and not x[1].startswith('std::ops::Index') for x in subexprs(src)) \
                and any(x[0] == 'const' and (x[3] or '').startswith('&[u8; 0]') for x in subexprs(src)):
            continue  # the unnamed address: an empty constant slice, nothing is written
        wr[kind] = (_start_offset(dst), loc)
        r.inst('writer: %s name at sun_path[%d..]' % (kind, wr[kind][0]), w.where(loc))
        r.require('sun_path' in str(dst), 'unix/writer-target:%s' % kind, 'the %s name is not copied into sun_path' % kind, w.where(loc))
    r.require(set(wr) == {'abstract', 'pathname'}, 'unix/writer-kinds', 'writer handles %s, expected pathname and abstract names' % sorted(wr), w.where())
    # family
    fam_ok = any('AF_UNIX' in str(ew.rvalue(s['rv'])) for loc, s in w.assigns() if s['rv']['k'] == 'agg' and (s['rv'].get('adt') or '').endswith('sockaddr_un'))
    r.require(fam_ok, 'unix/family', 'sun_family is not AF_UNIX', w.where())
    er = ExprBuilder(rd, multi='phi')
    rdoff = {}
    for loc, t in rd.calls():
        c = t.get('callee') or ''
        if c.endswith('from_abstract_name'):
            rdoff['abstract'] = (_start_offset(er.operand(t['args'][0])), loc)
        if c == 'std::os::unix::net::SocketAddr::from_pathname' and not rd.blocks[loc[0]]['cleanup']:
            e = er.operand(t['args'][0])
            if 'from_raw_parts' in str(e):
                rdoff['pathname'] = (_start_offset(e), loc)
    for kind in ('abstract', 'pathname'):
        if r.require(kind in rdoff and kind in wr, 'unix/reader:%s' % kind, 'reader does not decode %s names' % kind, rd.where()):
            r.inst('reader: %s name from sun_path[%d..]' % (kind, rdoff[kind][0]), rd.where(rdoff[kind][1]))
            r.require(rdoff[kind][0] == wr[kind][0], 'unix/offset:%s' % kind, '%s names are written at sun_path[%d..] but read from sun_path[%d..]' % (kind, wr[kind][0], rdoff[kind][0]), rd.where(rdoff[kind][1]))
    r.require(wr.get('abstract', (None,))[0] == 1 and wr.get('pathname', (None,))[0] == 0, 'unix/offsets', 'abstract names must start after one NUL byte and path names at offset 0 (unix(7)): %s' % {k: v[0] for k, v in wr.items()}, w.where())
    # the abstract branch of the reader is taken only when the first byte is NUL
    ok = False
    for b, blk in enumerate(rd.blocks):
        tt = blk['term']
        if blk['cleanup'] or tt['k'] != 'switch':
            continue
        e = er.operand(tt['discr'])
        first_elem = e[0] == 'proj' and e[2] and e[2][-1] == '[0]' and 'from_raw_parts' in str(e)     # `[0, rest @ ..]`
        if e[0] == 'proj' and e[1][0] == 'call' and e[1][1].endswith('::split_first') and tuple(x_ for x_ in e[2] if x_ != '*')[:3] == ('@Some', '.0', '.0'):
            first_elem = True                                                                      # `Some((&0, rest)) = split_first()`
        if any(x[0] == 'call' and x[1].endswith('::first') for x in subexprs(e)) or first_elem:
            vals = {int(v): tg for v, tg in tt['targets']}
            if 0 in vals and 'abstract' in rdoff and rd.edge_dominates((b, vals[0]), rdoff['abstract'][1]):
                ok = True
    if not ok:
        # `path.first() == Some(&0)`: PartialEq::eq(&first(path), &Some(&0)) with the constant's bytes from the facts
        for b, blk in enumerate(rd.blocks):
            tt = blk['term']
            if blk['cleanup'] or tt['k'] != 'switch':
                continue
            e = er.operand(tt['discr'])
            if e[0] == 'call' and e[1] in ('std::cmp::PartialEq::eq', 'std::cmp::PartialEq::ne') and len(e[2]) == 2:
                firsts = [a for a in e[2] if any(x[0] == 'call' and x[1].endswith('::first') for x in subexprs(a))]
                consts = [a for a in e[2] if a[0] == 'const' and len(a) > 5 and a[5] == ((0, (0,)),) and 'Option<&u8>' in (a[3] or '')]
                if firsts and consts:
                    vals = {int(v): tg for v, tg in tt['targets']}
                    tgt = vals.get(1, tt['otherwise']) if e[1].endswith('::eq') else vals.get(0)
                    if 'abstract' in rdoff and tgt is not None and rd.edge_dominates((b, tgt), rdoff['abstract'][1]):
                        ok = True
    r.require(ok, 'unix/abstract-test', 'abstract decoding is not guarded by `first byte == 0`', rd.where())
    # the name length handed to the reader excludes the header: length - offset_of(sun_path)
    r.floor(4)


def _len_value(facts, e):
    """numeric value of a length expression made of casts, constants and size_of::<T>() (from the layout facts)"""
    while e[0] == 'cast':
        e = e[4]
    if e[0] == 'const':
        return e[1]
    if e[0] == 'call' and e[1].startswith('std::mem::size_of::<') and e[1].endswith('>'):
        return facts.layouts.get(e[1][len('std::mem::size_of::<'):-1], (None,))[0]
    return None


def r2_ptr_len(r, facts):
    sizes = {'std::net::SocketAddrV4': 'libc::sockaddr_in', 'std::net::SocketAddrV6': 'libc::sockaddr_in6',
             'std::os::unix::net::SocketAddr': 'libc::sockaddr_un'}
    for meth in ('as_ptr', 'as_mut_ptr'):
        for i, f in facts.impl_fns(TRAIT, meth):
            ty = i['self']
            if ty == 'net::NoAddress':
                continue
            eb = ExprBuilder(f, multi='phi')
            ret = None
            for loc, s in f.assigns():
                if s['lhs']['l'] == 0 and not s['lhs']['p']:
                    ret = eb.rvalue(s['rv'])
            if not r.require(ret is not None and ret[0] == 'agg' and len(ret[3]) == 2, '%s::%s' % (ty, meth), 'return tuple not found', f.where()):
                continue
            p, ln = ret[3]
            r.inst('%s::%s -> (%s, %s)' % (ty, meth, p, ln), f.where())
            r.require(p[0] == 'arg' and p[1] == 1, '%s::%s/ptr' % (ty, meth), 'pointer returned is not the storage parameter: %s' % (p,), f.where())
            szs = sorted({x[1] for x in subexprs(ln) if x[0] == 'call' and x[1].startswith('std::mem::size_of::<')})
            # by value: a size_of::<T>() call or a named constant with that value alike
            lv = _len_value(facts, ln)
            if ty in sizes:
                want_ = facts.layouts.get(sizes[ty], (None,))[0]
                r.require(szs == ['std::mem::size_of::<%s>' % sizes[ty]] or (lv is not None and lv == want_), '%s::%s/len' % (ty, meth), 'length is %s (%s), expected size_of::<%s>()' % (szs, lv, sizes[ty]), f.where())
            elif ty == 'std::net::SocketAddr' and meth == 'as_mut_ptr':
                want_ = facts.layouts.get('libc::sockaddr_in6', (None,))[0]
                r.require(szs == ['std::mem::size_of::<libc::sockaddr_in6>'] or (lv is not None and lv == want_), '%s::%s/len' % (ty, meth), 'receive storage length is %s (%s), expected the larger sockaddr_in6' % (szs, lv), f.where())
            elif ty == 'std::net::SocketAddr':
                # decided by value: with the family field fixed to AF_INET the length returned is the size of sockaddr_in,
                # with AF_INET6 that of sockaddr_in6 (if/else, match, a flag, size_of calls or named constants alike)
                def subj(e):
                    if fam.last_field(e) == 'sin6_family':
                        return True
                    return e[0] == 'call' and e[1].endswith('::from') and e[2] and fam.last_field(e[2][0]) == 'sin6_family'
                ok = True
                for v, st in ((2, 'libc::sockaddr_in'), (10, 'libc::sockaddr_in6')):
                    g, decided = specialise_value(f, subj, v, ExprBuilder(f), bits=32)
                    eg = ExprBuilder(g, multi='phi')
                    reach = g.reachable_blocks(0)
                    got = None
                    for loc, s_ in g.assigns():
                        if s_['lhs']['l'] == 0 and not s_['lhs']['p'] and loc[0] in reach:
                            rt = eg.rvalue(s_['rv'])
                            if rt[0] == 'agg' and len(rt[3]) == 2:
                                got = _len_value(facts, rt[3][1])
                    want = facts.layouts.get(st, (None,))[0]
                    r.inst('family=%d -> length %s (size of %s: %s)' % (v, got, st, want), f.where())
                    if got is None or got != want or not decided:
                        ok = False
                        r.bad('%s::%s/len' % (ty, meth), 'with sin6_family == %d the length handed to the kernel is %s, expected size_of::<%s>() = %s' % (v, got, st, want), f.where())
                r.require(ok, '%s::%s/family' % (ty, meth), 'sockaddr_in length is not selected by sin6_family == AF_INET', f.where())
    # storage sizes match the structs (layout facts)
    for ty, st in sizes.items():
        lay = facts.layouts.get(st)
        r.require(lay is not None, 'layout:%s' % st, 'no layout for %s' % st)
    r.floor(8)


TRIM_IDIOMS = ('core::slice::<impl [T]>::iter', 'std::iter::Iterator::position', 'core::slice::<impl [T]>::split', 'core::slice::memchr::memchr',
               'std::ffi::CStr::from_bytes_until_nul', 'core::slice::<impl [T]>::strip_suffix', 'core::slice::<impl [T]>::trim_ascii_end',
               'std::iter::Iterator::take_while', 'core::slice::<impl [u8]>::trim_end_matches')


def _kind_by_length(r, f, eb):
    """which kind of address is read back is decided by the bytes of sun_path; the reported length may only short-cut to
    `unnamed` when it leaves no byte of path at all (length <= offset_of(sun_path) = 2).  `length == 3` is the abstract
    address with the empty name, `length >= 4` a one-byte path or name."""
    from .kernel import eval_int
    raws = [l_ for l_, t_ in f.calls() if (t_.get('callee') or '') == 'std::slice::from_raw_parts' and not f.blocks[l_[0]]['cleanup']]
    if not raws:
        return
    rets = f.returns()

    def strip(x):
        while x[0] == 'cast':
            x = x[4]
        return x
    is_len = lambda x: strip(x)[0] == 'arg' and strip(x)[1] == 2
    n = 0
    for b, blk in enumerate(f.blocks):
        t = blk['term']
        if blk['cleanup'] or t['k'] != 'switch':
            continue
        e = strip(eb.operand(t['discr']))
        if e[0] != 'bin' or e[1] not in ('Le', 'Lt', 'Ge', 'Gt', 'Eq', 'Ne'):
            continue
        a_, b_ = e[2], e[3]
        op = e[1]
        if is_len(b_) and not is_len(a_):
            a_, b_ = b_, a_
            op = {'Le': 'Ge', 'Lt': 'Gt', 'Ge': 'Le', 'Gt': 'Lt'}.get(op, op)
        if not is_len(a_):
            continue
        k = eval_int(f, eb, b_)
        vals = {int(v): g for v, g in t['targets']}
        edges = {1: vals.get(1, t['otherwise']), 0: vals.get(0, t['otherwise'])}
        for truth, tgt in edges.items():
            hit = f.forward_paths_hit([Loc(tgt, 0)], rets, blockers=raws)
            if hit is None:
                continue        # the path bytes are looked at (or the edge panics)
            n += 1
            # largest length for which this edge is taken
            if k is None:
                hi = None
            elif (op, truth) in (('Le', 1), ('Gt', 0)):
                hi = k
            elif (op, truth) in (('Lt', 1), ('Ge', 0)):
                hi = k - 1
            elif (op, truth) in (('Eq', 1), ('Ne', 0)):
                hi = k
            else:
                hi = float('inf')
            r.inst('unix init: returns without reading sun_path for length %s %s (edge %s)' % (op, k, truth), f.where(f.term_loc(b)))
            if hi is not None:
                r.require(hi <= 2, 'unix::init/kind-by-length', 'the Unix reader returns without looking at sun_path for reported lengths up to %s: from length 3 on there is a byte of path (3 = the abstract address with the empty name, which would read back as unnamed)' % hi, f.where(f.term_loc(b)))


def r3_nul_trim(r, facts):
    f = impl_fn(facts, 'std::os::unix::net::SocketAddr', 'init')
    if not r.require(f is not None, 'unix::init', 'Unix SocketAddress::init not found'):
        return
    eb = ExprBuilder(f, multi='phi')
    fp = [(loc, t) for loc, t in f.calls() if (t.get('callee') or '') == 'std::os::unix::net::SocketAddr::from_pathname' and not f.blocks[loc[0]]['cleanup']]
    if not r.require(len(fp) >= 1, 'unix::init/from_pathname', 'from_pathname call not found', f.where()):
        return
    # (the unnamed fallback `from_pathname("")` is also a from_pathname call: the one that decodes is the one fed from storage)
    fed = [(l_, t_) for l_, t_ in fp if any(x[0] == 'call' and x[1] == 'std::slice::from_raw_parts' for x in subexprs(eb.operand(t_['args'][0])))]
    loc, t = (fed or fp)[0]
    e = eb.operand(t['args'][0])
    raw = [x for x in subexprs(e) if x[0] == 'call' and x[1] == 'std::slice::from_raw_parts']
    _kind_by_length(r, f, eb)
    trimmed = [x for x in subexprs(e) if x[0] == 'call' and (x[1] in TRIM_IDIOMS or x[1] in ('std::ops::Index::index',))]
    # an Index with a range whose bound comes from a NUL search
    NUL_SEARCH = ('std::iter::Iterator::position', 'std::iter::Iterator::rposition', 'std::iter::DoubleEndedIterator::rposition', 'core::slice::memchr::memchr',
                  'core::slice::memchr::memrchr', 'std::ffi::CStr::from_bytes_until_nul', 'core::slice::<impl [T]>::split', 'core::slice::<impl [T]>::strip_suffix',
                  'core::slice::<impl [T]>::trim_ascii_end', 'std::iter::Iterator::take_while', 'core::slice::<impl [u8]>::trim_end_matches')
    nul_search = [x for x in subexprs(e) if x[0] == 'call' and x[1] in NUL_SEARCH]
    r.inst('from_pathname(%s)' % (str(e)[:200],), f.where(loc))
    r.require(bool(raw), 'unix::init/source', 'the path is not taken from the storage bytes', f.where(loc))
    # .. at the *first* NUL: a forward search whose predicate is true for a zero byte
    from . import c17
    for l3, t3 in f.calls():
        if (t3.get('callee') or '') in ('std::iter::Iterator::position', 'std::iter::Iterator::take_while') and not f.blocks[l3[0]]['cleanup']:
            for wh, is_zero in c17.closure_zero_tests(f, facts, t3):
                want_zero = (t3.get('callee') or '').endswith('position')
                r.inst('NUL search predicate: byte %s 0 (%s)' % ('==' if is_zero else '!=', (t3.get('callee') or '').rsplit('::', 1)[1]), wh)
                r.require(is_zero == want_zero, 'unix::init/nul-predicate', 'the path is cut at the first byte that is %s NUL: path names are cut at their first character / keep the terminator and read back as unnamed' % ('not' if not is_zero else ''), wh)
    r.require(bool(nul_search), 'unix::init/nul', 'the bytes given to from_pathname are the kernel-reported length including the terminating NUL (not cut at a NUL): from_pathname rejects them and every path-bound socket reads back as unnamed', f.where(loc))
    # abstract names are *all* bytes the kernel reported after the leading NUL: NUL bytes are part of the name,
    # so nothing may be searched for / trimmed off before from_abstract_name
    fa = [(l2, t2) for l2, t2 in f.calls() if (t2.get('callee') or '').endswith('SocketAddrExt>::from_abstract_name') or (t2.get('callee') or '').endswith('::from_abstract_name')]
    fa = [(l2, t2) for l2, t2 in fa if not f.blocks[l2[0]]['cleanup']]
    if r.require(len(fa) >= 1, 'unix::init/from_abstract_name', 'from_abstract_name call not found in the Unix reader (abstract names cannot be read back)', f.where()):
        for l2, t2 in fa:
            ea = eb.operand(t2['args'][0])
            r.inst('from_abstract_name(%s)' % (str(ea)[:200],), f.where(l2))
            cut = [x for x in subexprs(ea) if x[0] == 'call' and x[1] in NUL_SEARCH]
            r.require(not cut, 'unix::init/abstract-trimmed', 'the bytes given to from_abstract_name were cut at a NUL (%s): NUL bytes are part of an abstract name, names ending in NUL read back as a different address' % (cut[0][1] if cut else ''), f.where(l2))
            r.require(any(x[0] == 'call' and x[1] == 'std::slice::from_raw_parts' for x in subexprs(ea)), 'unix::init/abstract-source', 'the abstract name is not taken from the storage bytes', f.where(l2))
    r.floor(1)


def r4_unix_length(r, facts):
    f = impl_fn(facts, 'std::os::unix::net::SocketAddr', 'as_ptr')
    if not r.require(f is not None, 'unix::as_ptr', 'Unix as_ptr not found'):
        return
    eb = ExprBuilder(f, multi='phi')
    ret = None
    for loc, s in f.assigns():
        if s['lhs']['l'] == 0 and not s['lhs']['p']:
            ret = eb.rvalue(s['rv'])
    ln = ret[3][1] if ret is not None and ret[0] == 'agg' and len(ret[3]) == 2 else None
    dep = ln is not None and any(x[0] in ('arg', 'proj') for x in subexprs(ln))
    r.inst('unix as_ptr length = %s (depends on storage: %s)' % (ln, dep), f.where())
    r.require(dep, 'unix::as_ptr', 'Unix addresses are always passed with size_of::<sockaddr_un>(): abstract names acquire trailing NULs (a different address) and the unnamed address is not length 2', f.where())
    r.floor(1)


def r5_unix_reader_bound(r, facts):
    """the kernel reports 111 for a 108-byte path (no room for the NUL, unix(7) BUGS): the reader must bound the
    length by the storage before it views sun_path"""
    f = impl_fn(facts, 'std::os::unix::net::SocketAddr', 'init')
    if not r.require(f is not None, 'unix::init', 'Unix SocketAddress::init not found'):
        return
    eb = ExprBuilder(f, multi='phi')
    views = [(loc, t) for loc, t in f.calls() if (t.get('callee') or '') in ('std::slice::from_raw_parts', 'std::ptr::slice_from_raw_parts') and not f.blocks[loc[0]]['cleanup']]
    if not r.require(len(views) >= 1, 'unix::init/view', 'the view of sun_path (slice::from_raw_parts) was not found (unrecognised form)', f.where()):
        return
    for loc, t in views:
        ln = eb.operand(t['args'][1])
        dep = any(x[0] == 'arg' and x[1] == 2 for x in subexprs(ln))
        bounded = False
        for x in subexprs(ln):
            if x[0] == 'call' and x[1].split('::')[-1] in ('min', 'clamp') and any(
                    (y[0] == 'call' and y[1].startswith('std::mem::size_of')) or (y[0] == 'const' and y[1] is not None) or (y[0] == 'call' and y[1].endswith('::len'))
                    for a in x[2] for y in subexprs(a)):
                bounded = True
        # or a dominating comparison of the length with a size
        for (b, tgt) in c10.controlling_switches(f, loc):
            e = eb.operand(f.term(b)['discr'])
            if e[0] == 'bin' and e[1] in ('Le', 'Lt', 'Ge', 'Gt') and any(x[0] == 'arg' and x[1] == 2 for x in subexprs(e)) \
                    and any((y[0] == 'call' and y[1].startswith('std::mem::size_of')) or (y[0] == 'call' and y[1].endswith('::len')) for y in subexprs(e)):
                bounded = True
        r.inst('sun_path view of length %s: depends on the kernel length %s, bounded %s' % (str(ln)[:140], dep, bounded), f.where(loc))
        r.require(not dep or bounded, 'unix::init/unbounded-view', 'sun_path is viewed with the kernel-reported length without bounding it by the storage size: for a socket bound to a 108-byte path the kernel reports 111 (> size_of::<sockaddr_un>()), the slice then extends one byte past the storage (out-of-bounds read)', f.where(loc))
    r.floor(1)


def check(ctx):
    ctx.run('C16.R1', 'writer/reader field and byte-order agreement per address family', r1_field_agreement)
    ctx.run('C16.R1b', 'Unix: writer and reader agree on the position of path / abstract names in sun_path', r1b_unix_layout)
    ctx.run('C16.R2', 'pointer/length shape of as_ptr/as_mut_ptr', r2_ptr_len)
    ctx.run('C16.R3', 'Unix reader cuts the path at the first NUL (kernel lengths include the terminator)', r3_nul_trim)
    ctx.run('C16.R5', 'Unix reader bounds the kernel-reported length by the storage size before viewing sun_path', r5_unix_reader_bound)
    ctx.run('C16.R4', 'Unix address length depends on the address', r4_unix_length)
