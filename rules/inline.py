"""Normalisation of the fact file against helper extraction / renaming.

The rules name *anchor* functions of the pinned tree (Submissions::add, Completions::poll, ...).  A later,
behaviour-preserving edit may move part of an anchor into a new private helper, or rename a helper.  Before
the rules run, every crate function that is **not** in the reference list `abi/known_functions.json`
(the function paths of the tree the rules were written against) is

  * treated as a *rename* when exactly one reference function with the same last path segment and the same
    number of arguments has disappeared: it is registered under the old path and calls to it are rewritten, or
  * *inlined* into all of its callers (MIR-level: locals renumbered, arguments assigned to the parameters,
    `return` replaced by an assignment to the call's destination and a goto to its target), transitively,

so that the anchors look the way they would without the extraction.  New helpers whose every call site was
inlined are dropped from the function list; one that is still referenced (fn pointer, recursion, too large)
stays and is then judged by the who-may-call / who-may-write rules like any other function.
Nothing is inlined when the reference list is absent."""
import copy
import json
import os

HERE = os.path.dirname(os.path.dirname(os.path.abspath(__file__)))
KNOWN = os.path.join(HERE, 'abi', 'known_functions.json')
MAX_BLOCKS = 120
MAX_ROUNDS = 6


def _last(path):
    p = path.split('::{closure')[0]
    return p.rsplit('::', 1)[-1]


def _remap(x, off, boff):
    """deep copy of a statement/terminator with locals shifted by off and block indices by boff"""
    if isinstance(x, list):
        return [_remap(y, off, boff) for y in x]
    if not isinstance(x, dict):
        return x
    out = {}
    for k, v in x.items():
        if k == 'l' and isinstance(v, int):
            out[k] = v + off
        elif k == 'local' and isinstance(v, int) and x.get('k') == 'index':
            out[k] = v + off
        elif k in ('target', 'otherwise', 'unwind') and isinstance(v, int):
            out[k] = v + boff
        elif k == 'targets' and isinstance(v, list):
            out[k] = [[a, b + boff] for a, b in v]
        else:
            out[k] = _remap(v, off, boff)
    return out


def _fn_refs(x):
    """function paths mentioned as values (fn pointers / fn items passed around) inside an operand or rvalue"""
    if isinstance(x, list):
        for y in x:
            yield from _fn_refs(y)
    elif isinstance(x, dict):
        if x.get('k') == 'const' and x.get('fn'):
            yield x['fn']
        for v in x.values():
            if isinstance(v, (dict, list)):
                yield from _fn_refs(v)


def _inline_call(caller, bi, callee):
    blk = caller['blocks'][bi]
    t = blk['term']
    off = len(caller['locals'])
    boff = len(caller['blocks'])
    caller['locals'].extend(copy.deepcopy(callee['locals']))
    span = t.get('span')
    # arguments -> parameters
    for i, a in enumerate(t['args']):
        pl = {'l': off + 1 + i, 'p': [], 'ty': callee['locals'][1 + i]['ty'] if 1 + i < len(callee['locals']) else ''}
        blk['stmts'].append({'k': 'assign', 'lhs': pl, 'rv': {'k': 'use', 'op': a}, 'span': span, 'text': 'inline arg', 'inlined_arg': callee['path']})
    dest, target = t['dest'], t.get('target')
    for cb in callee['blocks']:
        nb = _remap(cb, off, boff)
        nb['inlined_from'] = callee['path']
        tt = nb['term']
        if tt['k'] == 'return':
            nb['stmts'].append({'k': 'assign', 'lhs': dest, 'rv': {'k': 'use', 'op': {'l': off, 'p': [], 'ty': callee['locals'][0]['ty'], 'k': 'move'}},
                                'span': tt.get('span'), 'text': 'inline return', 'inlined_ret': callee['path']})
            nb['term'] = {'k': 'goto', 'target': target, 'span': tt.get('span')} if target is not None else {'k': 'unreachable', 'span': tt.get('span')}
        caller['blocks'].append(nb)
    blk['term'] = {'k': 'goto', 'target': boff, 'span': span}
    for d in callee.get('debug', []):
        nd = _remap(d, off, 0)
        nd['arg'] = None
        caller.setdefault('debug', []).append(nd)


def normalise(j):
    """transform the fact JSON in place; returns a list of notes"""
    notes = []
    if not os.path.exists(KNOWN):
        return notes
    known = json.load(open(KNOWN))
    kpaths = {k['path']: k for k in known}
    fns = j['functions']
    present = {}
    for f in fns:
        present.setdefault(f['path'], []).append(f)
    # trait impl items are reached through the impl table, never treated as extracted helpers
    impl_items = {it['path'] for i in j.get('impls', []) if i.get('trait') for it in i.get('items', [])}
    new = [f for f in fns if f['path'] not in kpaths and f['kind'] in ('fn', 'assoc') and f['path'] not in impl_items]
    missing = [k for k in known if k['path'] not in present and k['kind'] in ('fn', 'assoc')]
    # renames
    renamed = {}
    for f in new:
        cands = [k for k in missing if _last(k['path']) == _last(f['path']) and k['arg_count'] == f['arg_count']]
        same = [g for g in new if _last(g['path']) == _last(f['path']) and g['arg_count'] == f['arg_count']]
        if len(cands) == 1 and len(same) == 1:
            renamed[f['path']] = cands[0]['path']
    for old_new, old in renamed.items():
        notes.append('renamed helper: %s is treated as %s' % (old_new, old))
    if renamed:
        for f in fns:
            if f['path'] in renamed:
                f['renamed_from'] = f['path']
                f['path'] = renamed[f['path']]
            elif any(f['path'].startswith(n + '::{closure') for n in renamed):
                for n, o in renamed.items():
                    if f['path'].startswith(n + '::{closure'):
                        f['path'] = o + f['path'][len(n):]
            for b in f['blocks']:
                t = b['term']
                if t['k'] == 'call':
                    for key in ('callee', 'resolved'):
                        if t.get(key) in renamed:
                            t[key] = renamed[t[key]]
                for s in b['stmts']:
                    rv = s.get('rv') or {}
                    if rv.get('k') == 'agg' and rv.get('closure'):
                        for n, o in renamed.items():
                            if rv['closure'].startswith(n + '::{closure'):
                                rv['closure'] = o + rv['closure'][len(n):]
    new = [f for f in new if 'renamed_from' not in f]
    newp = {f['path']: f for f in new}
    if not newp:
        return notes
    # recursion among new helpers: never inline a helper that can reach itself
    calls = {p: {b['term'].get('resolved') or b['term'].get('callee') for b in f['blocks'] if b['term']['k'] == 'call'} & set(newp) for p, f in newp.items()}

    def reaches(a, b, seen=()):
        return any(c == b or (c not in seen and reaches(c, b, seen + (c,))) for c in calls.get(a, ()))
    inlinable = {p for p, f in newp.items() if not reaches(p, p) and len(f['blocks']) <= MAX_BLOCKS}
    for p in sorted(set(newp) - inlinable):
        notes.append('new helper %s is not inlined (recursive or larger than %d blocks)' % (p, MAX_BLOCKS))
    count = {}
    for rnd in range(MAX_ROUNDS):
        did = False
        for f in fns:
            bi = 0
            while bi < len(f['blocks']):
                t = f['blocks'][bi]['term']
                if t['k'] == 'call' and not t.get('indirect'):
                    tgt = t.get('resolved') if t.get('resolved') in inlinable else (t.get('callee') if t.get('callee') in inlinable else None)
                    if tgt is not None and tgt != f['path'] and len(t['args']) == newp[tgt]['arg_count']:
                        _inline_call(f, bi, newp[tgt])
                        count[tgt] = count.get(tgt, 0) + 1
                        did = True
                bi += 1
        if not did:
            break
    # drop helpers that are not referenced any more
    still = set()
    for f in fns:
        for b in f['blocks']:
            t = b['term']
            if t['k'] == 'call':
                for key in ('callee', 'resolved'):
                    if t.get(key) in newp and f['path'] != t.get(key):
                        still.add(t[key])
            for s in b['stmts']:
                for ref in _fn_refs(s.get('rv') or {}):
                    if ref in newp:
                        still.add(ref)
            if t['k'] == 'call':
                for a in t.get('args', []):
                    for ref in _fn_refs(a):
                        if ref in newp:
                            still.add(ref)
    drop = {p for p in inlinable if p in count and p not in still}
    for p in sorted(count):
        notes.append('new helper %s inlined at %d call site(s)%s' % (p, count[p], '' if p in drop else ' (still referenced elsewhere: kept as a function too)'))
    if drop:
        j['functions'] = [f for f in fns if f['path'] not in drop]
    return notes
