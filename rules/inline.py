"""Normalisation of the fact file against helper extraction / renaming.

The rules name *anchor* functions of the pinned tree (Submissions::add, Completions::poll, ...).  A later,
behaviour-preserving edit may move part of an anchor into a new private helper, or rename a helper.  Before
the rules run, every crate function that is **not** in the reference list `abi/known_functions.json`
(the function paths of the tree the rules were written against) is

  * treated as a *rename* when exactly one reference function with the same last path segment and the same
    number of arguments has disappeared: it is registered under the old path and calls to it are rewritten, or
  * *inlined* into all of its callers (MIR-level: locals renumbered, arguments assigned to the parameters,
    `return` replaced by an assignment to the call's destination and a goto to its target), transitively,

so that the anchors look the way they would without the extraction.  New helpers whose every call site was
inlined are dropped from the function list; one that is still referenced (fn pointer, recursion, too large)
stays and is then judged by the who-may-call / who-may-write rules like any other function.
Nothing is inlined when the reference list is absent."""
import copy
import re
import json
import os

HERE = os.path.dirname(os.path.dirname(os.path.abspath(__file__)))
KNOWN = os.path.join(HERE, 'abi', 'known_functions.json')
MAX_BLOCKS = 120
MAX_ROUNDS = 6


def _last(path):
    p = path.split('::{closure')[0]
    return p.rsplit('::', 1)[-1]


def _remap(x, off, boff):
    """deep copy of a statement/terminator with locals shifted by off and block indices by boff"""
    if isinstance(x, list):
        return [_remap(y, off, boff) for y in x]
    if not isinstance(x, dict):
        return x
    out = {}
    for k, v in x.items():
        if k == 'l' and isinstance(v, int):
            out[k] = v + off
        elif k == 'local' and isinstance(v, int) and x.get('k') == 'index':
            out[k] = v + off
        elif k in ('target', 'otherwise', 'unwind') and isinstance(v, int):
            out[k] = v + boff
        elif k == 'targets' and isinstance(v, list):
            out[k] = [[a, b + boff] for a, b in v]
        else:
            out[k] = _remap(v, off, boff)
    return out


def _fn_refs(x):
    """function paths mentioned as values (fn pointers / fn items passed around) inside an operand or rvalue"""
    if isinstance(x, list):
        for y in x:
            yield from _fn_refs(y)
    elif isinstance(x, dict):
        if x.get('k') == 'const' and x.get('fn'):
            yield x['fn']
        for v in x.values():
            if isinstance(v, (dict, list)):
                yield from _fn_refs(v)


_CANONICAL_KEYS = ('callee', 'resolved', 'fn', 'path', 'def_path', 'closure', 'adt', 'callee_trait', 'name', 'variant', 'k', 'ak', 'op', 'ck')


def _subst_generics(obj, pairs):
    """replace the callee's generic parameter names by the call's generic arguments in every string of obj"""
    if isinstance(obj, str):
        for rx, to in pairs:
            if rx.search(obj):
                obj = rx.sub(lambda m: to, obj)
        return obj
    if isinstance(obj, list):
        return [_subst_generics(x, pairs) for x in obj]
    if isinstance(obj, dict):
        # canonical item paths (`Shared::<T>::update`) name the item, not an instantiation: left alone
        return {k: (v if k in _CANONICAL_KEYS and isinstance(v, str) else _subst_generics(v, pairs)) for k, v in obj.items()}
    return obj


def _generic_pairs(callee, t):
    gen, ga = callee.get('generics') or [], t.get('gargs') or []
    if not gen or len(gen) != len(ga):
        return []
    out = []
    for g, a in zip(gen, ga):
        if g == a or g.startswith("'"):
            continue
        if re.match(r'^\w+$', g):
            out.append((re.compile(r'(?<![\w:])%s(?!\w)' % re.escape(g)), a))
        else:
            out.append((re.compile(re.escape(g)), a))
    return out


def _inline_call(caller, bi, callee):
    blk = caller['blocks'][bi]
    t = blk['term']
    pairs = _generic_pairs(callee, t)
    if pairs:
        callee = dict(callee, locals=_subst_generics(callee['locals'], pairs), blocks=_subst_generics(callee['blocks'], pairs),
                      debug=_subst_generics(callee.get('debug', []), pairs))
    off = len(caller['locals'])
    boff = len(caller['blocks'])
    caller['locals'].extend(copy.deepcopy(callee['locals']))
    span = t.get('span')
    # arguments -> parameters
    for i, a in enumerate(t['args']):
        pl = {'l': off + 1 + i, 'p': [], 'ty': callee['locals'][1 + i]['ty'] if 1 + i < len(callee['locals']) else ''}
        blk['stmts'].append({'k': 'assign', 'lhs': pl, 'rv': {'k': 'use', 'op': a}, 'span': span, 'text': 'inline arg', 'inlined_arg': callee['path']})
    dest, target = t['dest'], t.get('target')
    for cb in callee['blocks']:
        nb = _remap(cb, off, boff)
        nb['inlined_from'] = callee['path']
        tt = nb['term']
        if tt['k'] == 'return':
            nb['stmts'].append({'k': 'assign', 'lhs': dest, 'rv': {'k': 'use', 'op': {'l': off, 'p': [], 'ty': callee['locals'][0]['ty'], 'k': 'move'}},
                                'span': tt.get('span'), 'text': 'inline return', 'inlined_ret': callee['path']})
            nb['term'] = {'k': 'goto', 'target': target, 'span': tt.get('span')} if target is not None else {'k': 'unreachable', 'span': tt.get('span')}
        caller['blocks'].append(nb)
    blk['term'] = {'k': 'goto', 'target': boff, 'span': span}
    for d in callee.get('debug', []):
        nd = _remap(d, off, 0)
        nd['arg'] = None
        caller.setdefault('debug', []).append(nd)


FORCE_INLINE = ('io_uring::op::set_waker',)


def _place_nodes(obj):
    if isinstance(obj, dict):
        if 'l' in obj and isinstance(obj.get('p'), list):
            yield obj
        for v in obj.values():
            yield from _place_nodes(v)
    elif isinstance(obj, list):
        for v in obj:
            yield from _place_nodes(v)


def elim_inlined_refs(f):
    """after a helper taking `&mut x` / `&x` was inlined, its parameter is a local holding that reference and the body
    works on `*param`.  Where such a reference local is only dereferenced (or handed to mem::replace, which is
    written out), `*param` is replaced by the place itself, so `take(&mut left, n)` inlined reads like code
    working on `left`."""
    def defs_of(l):
        ds = [s2 for b2 in f['blocks'] for s2 in b2['stmts'] if s2['k'] == 'assign' and s2['lhs']['l'] == l and not s2['lhs']['p']]
        cs = [b2 for b2 in f['blocks'] if b2['term']['k'] == 'call' and b2['term']['dest']['l'] == l]
        return ds, cs

    def resolve(l, depth=0):
        """the place a reference local points to, when that is fixed by its single definition"""
        if depth > 6:
            return None
        ds, cs = defs_of(l)
        if len(ds) != 1 or cs:
            return None
        rv = ds[0]['rv']
        if rv['k'] == 'use' and 'l' in rv['op'] and not rv['op']['p']:
            return resolve(rv['op']['l'], depth + 1)
        if rv['k'] != 'ref':
            return None
        P = rv['place']
        if any(x['k'] in ('index', 'constindex', 'subslice') for x in P['p']):
            return None
        if P['p'] and P['p'][0]['k'] == 'deref':
            T0 = resolve(P['l'], depth + 1)
            if T0 is None:
                return None
            return {'l': T0['l'], 'p': list(T0['p']) + P['p'][1:], 'ty': P.get('ty', '')}
        if any(x['k'] == 'deref' for x in P['p']):
            return None
        # a whole local, or fields of one: the same place wherever the reference is used
        return {'l': P['l'], 'p': list(P['p']), 'ty': P.get('ty', '')}

    n_done = 0
    done = set()
    changed = True
    while changed:
        changed = False
        cands = []
        for b in f['blocks']:
            for st in b['stmts']:
                if st['k'] == 'assign' and not st['lhs']['p'] and (st.get('inlined_arg') or b.get('inlined_from')) and st['lhs']['l'] not in done \
                        and (f['locals'][st['lhs']['l']]['ty'] or '').startswith('&'):
                    cands.append((st['lhs']['l'], st))
        for p_, st in cands:
            T = resolve(p_)
            if T is None or T['l'] == p_:
                continue
            ok = True
            repl = []
            uses = 0
            for b2 in f['blocks']:
                for s2 in b2['stmts']:
                    if s2 is st:
                        continue
                    for nd in _place_nodes(s2):
                        if nd['l'] == p_:
                            uses += 1
                            if not (nd['p'] and nd['p'][0]['k'] == 'deref'):
                                ok = False
                t2 = b2['term']
                for key, v in t2.items():
                    for nd in _place_nodes(v):
                        if nd['l'] == p_:
                            uses += 1
                            if not (nd['p'] and nd['p'][0]['k'] == 'deref'):
                                if t2['k'] == 'call' and (t2.get('callee') or '') == 'std::mem::replace' and len(t2['args']) == 2 and nd is t2['args'][0] and t2.get('target') is not None:
                                    repl.append(b2)
                                else:
                                    ok = False
            if not ok or not uses:
                continue
            for b2 in repl:
                t2 = b2['term']
                tplace = {'l': T['l'], 'p': list(T['p']), 'ty': T.get('ty', '')}
                b2['stmts'].append({'k': 'assign', 'lhs': t2['dest'], 'rv': {'k': 'use', 'op': dict(tplace, k='copy')}, 'span': t2.get('span'), 'text': 'mem::replace: old value'})
                b2['stmts'].append({'k': 'assign', 'lhs': tplace, 'rv': {'k': 'use', 'op': t2['args'][1]}, 'span': t2.get('span'), 'text': 'mem::replace: new value'})
                b2['term'] = {'k': 'goto', 'target': t2['target'], 'span': t2.get('span')}
            for b2 in f['blocks']:
                for s2 in b2['stmts']:
                    if s2 is st:
                        continue
                    for nd in _place_nodes(s2):
                        if nd['l'] == p_ and nd['p'] and nd['p'][0]['k'] == 'deref':
                            nd['l'] = T['l']
                            nd['p'] = list(T['p']) + nd['p'][1:]
                for key, v in b2['term'].items():
                    for nd in _place_nodes(v):
                        if nd['l'] == p_ and nd['p'] and nd['p'][0]['k'] == 'deref':
                            nd['l'] = T['l']
                            nd['p'] = list(T['p']) + nd['p'][1:]
            done.add(p_)
            n_done += 1
            changed = True
    return n_done


def normalise(j):
    """transform the fact JSON in place; returns a list of notes"""
    notes = []
    if not os.path.exists(KNOWN):
        return desugar_combinators(j) + inline_local_closure_calls(j) + desugar_iter_closures(j) + desugar_prim_ops(j)
    known = json.load(open(KNOWN))
    kpaths = {k['path']: k for k in known}
    fns = j['functions']
    present = {}
    for f in fns:
        present.setdefault(f['path'], []).append(f)
    # trait impl items are reached through the impl table, never treated as extracted helpers
    impl_items = {it['path'] for i in j.get('impls', []) if i.get('trait') for it in i.get('items', [])}
    # small known helpers whose interface refactorings like to change are always analysed in their callers
    # (`set_waker(&mut shared.waker, ctx.waker())` / `shared.register_waker(..)` / `set_waker(slot, ctx)` read the same)
    new = [f for f in fns if (f['path'] not in kpaths or f['path'] in FORCE_INLINE) and f['kind'] in ('fn', 'assoc') and f['path'] not in impl_items and not f.get('in_trait')]
    missing = [k for k in known if k['path'] not in present and k['kind'] in ('fn', 'assoc')]
    # renames
    renamed = {}
    for f in new:
        # (a method provided by a trait is a new function of its own, never "the same helper under a new name"; nor does an
        # impl item that disappeared turn up again as a free function)
        if f.get('in_trait'):
            continue
        cands = [k for k in missing if _last(k['path']) == _last(f['path']) and k['arg_count'] == f['arg_count'] and not k['path'].startswith('<')]
        same = [g for g in new if _last(g['path']) == _last(f['path']) and g['arg_count'] == f['arg_count']]
        if len(cands) == 1 and len(same) == 1:
            renamed[f['path']] = cands[0]['path']
    for old_new, old in renamed.items():
        notes.append('renamed helper: %s is treated as %s' % (old_new, old))
    if renamed:
        for f in fns:
            if f['path'] in renamed:
                f['renamed_from'] = f['path']
                f['path'] = renamed[f['path']]
            elif any(f['path'].startswith(n + '::{closure') for n in renamed):
                for n, o in renamed.items():
                    if f['path'].startswith(n + '::{closure'):
                        f['path'] = o + f['path'][len(n):]
            for b in f['blocks']:
                t = b['term']
                if t['k'] == 'call':
                    for key in ('callee', 'resolved'):
                        if t.get(key) in renamed:
                            t[key] = renamed[t[key]]
                for s in b['stmts']:
                    rv = s.get('rv') or {}
                    if rv.get('k') == 'agg' and rv.get('closure'):
                        for n, o in renamed.items():
                            if rv['closure'].startswith(n + '::{closure'):
                                rv['closure'] = o + rv['closure'][len(n):]
    new = [f for f in new if 'renamed_from' not in f or f['path'] in FORCE_INLINE]
    newp = {f['path']: f for f in new}
    if not newp:
        return notes + desugar_combinators(j) + inline_local_closure_calls(j) + unroll_array_folds(j) + unroll_array_folds(j) + desugar_iter_closures(j) + desugar_prim_ops(j)
    # recursion among new helpers: never inline a helper that can reach itself
    calls = {p: {b['term'].get('resolved') or b['term'].get('callee') for b in f['blocks'] if b['term']['k'] == 'call'} & set(newp) for p, f in newp.items()}

    def reaches(a, b, seen=()):
        return any(c == b or (c not in seen and reaches(c, b, seen + (c,))) for c in calls.get(a, ()))
    inlinable = {p for p, f in newp.items() if not reaches(p, p) and len(f['blocks']) <= MAX_BLOCKS}
    for p in sorted(set(newp) - inlinable):
        notes.append('new helper %s is not inlined (recursive or larger than %d blocks)' % (p, MAX_BLOCKS))
    # methods of new traits implemented for concrete types (`<i32 as SyscallReturn>::is_failure`): once a generic helper is
    # instantiated at its call site the method call names the impl item and can be inlined like any other small new helper
    new_impl = {f['path']: f for f in fns if f['path'] not in kpaths and f['kind'] in ('fn', 'assoc') and f['path'] in impl_items
                and len(f['blocks']) <= MAX_BLOCKS and f['path'].startswith('<')}
    known_traits = {m_.group(1) for m_ in (re.search(r' as (.*)>::\w+$', k['path']) for k in known if k['path'].startswith('<')) if m_}
    new_traits = {t_['path'] for t_ in j.get('traits', [])} - known_traits
    new_impl = {p_: f_ for p_, f_ in new_impl.items() if any((' as %s>' % tr) in p_ for tr in new_traits)}
    count = {}
    for rnd in range(MAX_ROUNDS):
        did = False
        for f in fns:
            bi = 0
            while bi < len(f['blocks']):
                t = f['blocks'][bi]['term']
                if t['k'] == 'call' and not t.get('indirect'):
                    tgt = t.get('resolved') if t.get('resolved') in inlinable else (t.get('callee') if t.get('callee') in inlinable else None)
                    if tgt is None and t.get('callee_full') in new_impl and t['callee_full'] != f['path'] and len(t['args']) == new_impl[t['callee_full']]['arg_count'] \
                            and f['path'] not in new_impl:
                        _inline_call(f, bi, new_impl[t['callee_full']])
                        count[t['callee_full']] = count.get(t['callee_full'], 0) + 1
                        did = True
                        bi += 1
                        continue
                    if tgt is not None and tgt != f['path'] and len(t['args']) == newp[tgt]['arg_count']:
                        _inline_call(f, bi, newp[tgt])
                        count[tgt] = count.get(tgt, 0) + 1
                        did = True
                bi += 1
        if not did:
            break
    # drop helpers that are not referenced any more
    still = set()
    for f in fns:
        for b in f['blocks']:
            t = b['term']
            if t['k'] == 'call':
                for key in ('callee', 'resolved'):
                    if t.get(key) in newp and f['path'] != t.get(key):
                        still.add(t[key])
            for s in b['stmts']:
                for ref in _fn_refs(s.get('rv') or {}):
                    if ref in newp:
                        still.add(ref)
            if t['k'] == 'call':
                for a in t.get('args', []):
                    for ref in _fn_refs(a):
                        if ref in newp:
                            still.add(ref)
    drop = {p for p in inlinable if p in count and p not in still}
    ne = sum(elim_inlined_refs(f) for f in fns) if count else 0
    if ne:
        notes.append('%d by-reference parameter(s) of inlined helpers replaced by the place they refer to' % ne)
    for p in sorted(count):
        notes.append('new helper %s inlined at %d call site(s)%s' % (p, count[p], '' if p in drop else ' (still referenced elsewhere: kept as a function too)'))
    if drop:
        j['functions'] = [f for f in fns if f['path'] not in drop]
    return notes + desugar_combinators(j) + inline_local_closure_calls(j) + unroll_array_folds(j) + desugar_iter_closures(j) + desugar_prim_ops(j)


# ---------------------------------------------------------------------------
# combinators with closures: `c.then(|| e)`, `o.map(|x| e)`, `r.map_err(|e| ..)`, `o.map_or(d, |x| ..)`, ...
# are rewritten into the match they stand for, with the closure body inlined, so rules see the same control
# and data flow as in the `match`/`if let` spelling.
# ---------------------------------------------------------------------------

OPT = ('std::option::Option', [['0', 'None'], ['1', 'Some']])
RES = ('std::result::Result', [['0', 'Ok'], ['1', 'Err']])

# callee -> (enum of receiver or None for bool, variant index on which the closure runs, how the result is built)
COMBINATORS = {
    'std::primitive::bool::then': ('bool', 1, 'wrap_some_else_none'),
    'core::bool::<impl bool>::then': ('bool', 1, 'wrap_some_else_none'),
    'std::option::Option::<T>::map': (OPT, 1, 'wrap_same_else_same'),
    'std::option::Option::<T>::map_or': (OPT, 1, 'value_else_default'),
    'std::option::Option::<T>::is_some_and': (OPT, 1, 'value_else_false'),
    'std::option::Option::<T>::unwrap_or_else': (OPT, 0, 'value_else_payload'),
    'std::option::Option::<T>::and_then': (OPT, 1, 'value_else_same'),
    'std::result::Result::<T, E>::map': (RES, 0, 'wrap_same_else_same'),
    'std::result::Result::<T, E>::map_err': (RES, 1, 'wrap_same_else_same'),
    'std::result::Result::<T, E>::and_then': (RES, 0, 'value_else_same'),
    'std::result::Result::<T, E>::unwrap_or_else': (RES, 1, 'value_else_payload'),
    'std::result::Result::<T, E>::is_ok_and': (RES, 0, 'value_else_false'),
    'std::result::Result::<T, E>::is_err_and': (RES, 1, 'value_else_false'),
}


def _closure_of(f, op, fns_by_path):
    """(closure local, closure fn) when operand op is a local whose only definition builds a closure"""
    if 'l' not in op or op['p']:
        return None
    defs = []
    for b in f['blocks']:
        for s in b['stmts']:
            if s['k'] == 'assign' and s['lhs']['l'] == op['l'] and not s['lhs']['p']:
                defs.append(s)
        t = b['term']
        if t['k'] == 'call' and t['dest']['l'] == op['l']:
            defs.append(t)
    if len(defs) != 1 or defs[0].get('k') != 'assign':
        return None
    rv = defs[0]['rv']
    if rv['k'] != 'agg' or rv.get('ak') != 'closure':
        return None
    g = fns_by_path.get(rv.get('closure'))
    if g is None or g['kind'] != 'closure':
        return None
    return op['l'], g


def _new_local(f, ty):
    f['locals'].append({'ty': ty, 'mut': True})
    return len(f['locals']) - 1


def _pl(l, ty='', p=None):
    return {'l': l, 'p': p or [], 'ty': ty}


def _use(l, ty='', kind='move', p=None):
    return {'l': l, 'p': p or [], 'ty': ty, 'k': kind}


def _assign(lhs, rv, span):
    return {'k': 'assign', 'lhs': lhs, 'rv': rv, 'span': span, 'text': 'desugared combinator'}


def _agg(adt, variant, vidx, ops, full=''):
    return {'k': 'agg', 'ak': 'adt', 'adt': adt, 'adt_full': full or adt, 'variant': variant, 'vidx': vidx, 'fields': ['0'] if ops else [], 'ops': ops}


def _desugar_take_if(f, blk, t, fns_by_path):
    """`opt.take_if(|v| pred)`: when *opt is Some and pred holds the value is taken (Option::take), otherwise None"""
    recv, clo_op = t['args']
    got = _closure_of(f, clo_op, fns_by_path)
    if got is None or 'l' not in recv or recv['p']:
        return False
    clo_local, g = got
    if g['arg_count'] != 2 or len(g['blocks']) > MAX_BLOCKS:
        return False
    span = t.get('span')
    dest, target = t['dest'], t['target']
    d_ty = dest.get('ty', '')
    r_local = recv['l']
    opt_ty = f['locals'][r_local]['ty'].lstrip('&').replace('mut ', '', 1)
    env_ty = g['locals'][1]['ty']
    p_ty = g['locals'][2]['ty']
    d_local = _new_local(f, 'isize')
    blk['stmts'].append(_assign(_pl(d_local, 'isize'), {'k': 'discr', 'place': _pl(r_local, opt_ty, [{'k': 'deref'}]), 'adt': OPT[0], 'variants': OPT[1]}, span))
    base = len(f['blocks'])
    some_bb, none_bb, test_bb, take_bb = base, base + 1, base + 2, base + 3
    res_local = _new_local(f, 'bool')
    arg_local = _new_local(f, p_ty)
    some = {'cleanup': False, 'stmts': [_assign(_pl(arg_local, p_ty), {'k': 'ref', 'mut': True, 'place': _pl(r_local, '', [{'k': 'deref'}, {'k': 'downcast', 'variant': 'Some', 'vidx': 1}, {'k': 'field', 'i': 0, 'ty': '', 'name': '0'}])}, span)], 'term': None, 'desugared': 'take_if'}
    if env_ty.startswith('&'):
        e_local = _new_local(f, env_ty)
        some['stmts'].append(_assign(_pl(e_local, env_ty), {'k': 'ref', 'mut': env_ty.startswith('&mut'), 'place': _pl(clo_local, f['locals'][clo_local]['ty'])}, span))
        env_op = _use(e_local, env_ty)
    else:
        env_op = _use(clo_local, f['locals'][clo_local]['ty'])
    some['term'] = {'k': 'call', 'callee': g['path'], 'resolved': g['path'], 'args': [env_op, _use(arg_local, p_ty)], 'dest': _pl(res_local, 'bool'), 'target': test_bb, 'unwind': None, 'span': span}
    none = {'cleanup': False, 'stmts': [_assign(dest, _agg(OPT[0], 'None', 0, [], d_ty), span)], 'term': {'k': 'goto', 'target': target, 'span': span}, 'desugared': 'take_if'}
    test = {'cleanup': False, 'stmts': [], 'term': {'k': 'switch', 'discr': _use(res_local, 'bool', 'copy'), 'discr_ty': 'bool', 'targets': [['0', none_bb]], 'otherwise': take_bb, 'span': span}, 'desugared': 'take_if'}
    take = {'cleanup': False, 'stmts': [], 'desugared': 'take_if',
            'term': {'k': 'call', 'callee': 'std::option::Option::<T>::take', 'callee_full': 'std::option::Option::<T>::take', 'resolved': 'std::option::Option::<T>::take',
                     'args': [recv], 'dest': dest, 'target': target, 'unwind': None, 'span': span, 'gargs': []}}
    f['blocks'].extend([some, none, test, take])
    # an empty slot goes to take() as well: taking from None yields None, which is what take_if returns there
    blk['term'] = {'k': 'switch', 'discr': _use(d_local, 'isize'), 'discr_ty': 'isize', 'targets': [['1', some_bb]], 'otherwise': take_bb, 'span': span}
    _inline_call(f, some_bb, g)
    return True


def _desugar_filter(f, blk, t, fns_by_path):
    """`opt.filter(|v| pred)`: Some(v) is kept when pred(&v) holds; otherwise v is dropped and the result is None"""
    recv, clo_op = t['args']
    got = _closure_of(f, clo_op, fns_by_path)
    if got is None or t.get('target') is None or t['dest']['p']:
        return False
    clo_local, g = got
    if g['arg_count'] != 2 or len(g['blocks']) > MAX_BLOCKS:
        return False
    span, dest, target = t.get('span'), t['dest'], t['target']
    d_ty = dest.get('ty', '')
    if 'l' in recv and not recv['p']:
        r_local = recv['l']
    else:
        r_local = _new_local(f, recv.get('ty', ''))
        blk['stmts'].append(_assign(_pl(r_local, recv.get('ty', '')), {'k': 'use', 'op': recv}, span))
    r_ty = f['locals'][r_local]['ty']
    env_ty = g['locals'][1]['ty']
    p_ty = g['locals'][2]['ty']
    d_local = _new_local(f, 'isize')
    blk['stmts'].append(_assign(_pl(d_local, 'isize'), {'k': 'discr', 'place': _pl(r_local, r_ty), 'adt': OPT[0], 'variants': OPT[1]}, span))
    base = len(f['blocks'])
    some_bb, none_bb, test_bb, keep_bb, drop_bb = base, base + 1, base + 2, base + 3, base + 4
    res_local = _new_local(f, 'bool')
    arg_local = _new_local(f, p_ty)
    payload = [{'k': 'downcast', 'variant': 'Some', 'vidx': 1}, {'k': 'field', 'i': 0, 'ty': '', 'name': '0'}]
    some = {'cleanup': False, 'stmts': [_assign(_pl(arg_local, p_ty), {'k': 'ref', 'mut': False, 'place': _pl(r_local, '', list(payload))}, span)], 'term': None, 'desugared': 'filter'}
    if env_ty.startswith('&'):
        e_local = _new_local(f, env_ty)
        some['stmts'].append(_assign(_pl(e_local, env_ty), {'k': 'ref', 'mut': env_ty.startswith('&mut'), 'place': _pl(clo_local, f['locals'][clo_local]['ty'])}, span))
        env_op = _use(e_local, env_ty)
    else:
        env_op = _use(clo_local, f['locals'][clo_local]['ty'])
    some['term'] = {'k': 'call', 'callee': g['path'], 'resolved': g['path'], 'args': [env_op, _use(arg_local, p_ty)], 'dest': _pl(res_local, 'bool'), 'target': test_bb, 'unwind': None, 'span': span}
    none = {'cleanup': False, 'stmts': [_assign(dest, _agg(OPT[0], 'None', 0, [], d_ty), span)], 'term': {'k': 'goto', 'target': target, 'span': span}, 'desugared': 'filter'}
    test = {'cleanup': False, 'stmts': [], 'term': {'k': 'switch', 'discr': _use(res_local, 'bool', 'copy'), 'discr_ty': 'bool', 'targets': [['0', drop_bb]], 'otherwise': keep_bb, 'span': span}, 'desugared': 'filter'}
    keep = {'cleanup': False, 'stmts': [_assign(dest, {'k': 'use', 'op': _use(r_local, r_ty)}, span)], 'term': {'k': 'goto', 'target': target, 'span': span}, 'desugared': 'filter'}
    drop = {'cleanup': False, 'stmts': [], 'term': {'k': 'drop', 'place': _pl(r_local, '', list(payload)), 'target': none_bb, 'unwind': None, 'span': span}, 'desugared': 'filter'}
    f['blocks'].extend([some, none, test, keep, drop])
    blk['term'] = {'k': 'switch', 'discr': _use(d_local, 'isize'), 'discr_ty': 'isize', 'targets': [['1', some_bb]], 'otherwise': none_bb, 'span': span}
    _inline_call(f, some_bb, g)
    return True


VALUE_COMBINATORS = {
    'core::bool::<impl bool>::then_some': 'then_some', 'std::primitive::bool::then_some': 'then_some',
    'std::option::Option::<T>::or': 'opt_or', 'std::option::Option::<T>::unwrap_or': 'opt_unwrap_or',
    'std::result::Result::<T, E>::unwrap_or': 'res_unwrap_or', 'std::option::Option::<T>::ok_or': 'ok_or',
}


def _desugar_value_combinator(f, blk, t, kind):
    """combinators without a closure (`b.then_some(v)`, `a.or(b)`, `a.unwrap_or(d)`, `a.ok_or(e)`) written out as the
    two-way choice they are, so that path- and value-based rules see it"""
    args = t['args']
    if len(args) != 2 or t.get('target') is None or t['dest']['p']:
        return False
    span, dest, target = t.get('span'), t['dest'], t['target']
    d_ty = dest.get('ty', '')
    a, b = args
    if 'l' in a and not a['p']:
        a_local = a['l']
    else:
        a_local = _new_local(f, a.get('ty', ''))
        blk['stmts'].append(_assign(_pl(a_local, a.get('ty', '')), {'k': 'use', 'op': a}, span))
    a_ty = f['locals'][a_local]['ty']
    base = len(f['blocks'])
    yes_bb, no_bb = base, base + 1

    def mk(stmts):
        return {'cleanup': False, 'stmts': stmts, 'term': {'k': 'goto', 'target': target, 'span': span}, 'desugared': kind}
    if kind == 'then_some':
        yes = mk([_assign(dest, _agg(OPT[0], 'Some', 1, [b], d_ty), span)])
        no = mk([_assign(dest, _agg(OPT[0], 'None', 0, [], d_ty), span)])
        blk['term'] = {'k': 'switch', 'discr': _use(a_local, 'bool', 'copy'), 'discr_ty': 'bool', 'targets': [['0', no_bb]], 'otherwise': yes_bb, 'span': span}
    else:
        adt, variants, succ_idx = (RES[0], RES[1], 0) if kind == 'res_unwrap_or' else (OPT[0], OPT[1], 1)
        vname = dict((int(x), y) for x, y in variants)[succ_idx]
        d_local = _new_local(f, 'isize')
        blk['stmts'].append(_assign(_pl(d_local, 'isize'), {'k': 'discr', 'place': _pl(a_local, a_ty), 'adt': adt, 'variants': variants}, span))
        payload = _use(a_local, '', 'move', [{'k': 'downcast', 'variant': vname, 'vidx': succ_idx}, {'k': 'field', 'i': 0, 'ty': '', 'name': '0'}])
        if kind == 'opt_or':
            yes = mk([_assign(dest, {'k': 'use', 'op': _use(a_local, a_ty)}, span)])
            no = mk([_assign(dest, {'k': 'use', 'op': b}, span)])
        elif kind in ('opt_unwrap_or', 'res_unwrap_or'):
            yes = mk([_assign(dest, {'k': 'use', 'op': payload}, span)])
            no = mk([_assign(dest, {'k': 'use', 'op': b}, span)])
        else:  # ok_or
            yes = mk([_assign(dest, _agg(RES[0], 'Ok', 0, [payload], d_ty), span)])
            no = mk([_assign(dest, _agg(RES[0], 'Err', 1, [b], d_ty), span)])
        blk['term'] = {'k': 'switch', 'discr': _use(d_local, 'isize'), 'discr_ty': 'isize', 'targets': [[str(succ_idx), yes_bb]], 'otherwise': no_bb, 'span': span}
    f['blocks'].extend([yes, no])
    return True


def desugar_combinators(j):
    notes = []
    fns_by_path = {}
    for f in j['functions']:
        fns_by_path.setdefault(f['path'], f)
    count = {}
    for f in j['functions']:
        bi = 0
        while bi < len(f['blocks']):
            blk = f['blocks'][bi]
            t = blk['term']
            bi += 1
            if t['k'] != 'call' or blk.get('cleanup') or t.get('target') is None or t['dest']['p']:
                continue
            if (t.get('callee') or '') == 'std::option::Option::<T>::filter' and len(t['args']) == 2:
                if _desugar_filter(f, blk, t, fns_by_path):
                    count['filter'] = count.get('filter', 0) + 1
                continue
            vk = VALUE_COMBINATORS.get(t.get('callee') or '')
            if vk is not None:
                if _desugar_value_combinator(f, blk, t, vk):
                    count[vk] = count.get(vk, 0) + 1
                continue
            if (t.get('callee') or '') == 'std::option::Option::<T>::take_if' and len(t['args']) == 2:
                if _desugar_take_if(f, blk, t, fns_by_path):
                    count['take_if'] = count.get('take_if', 0) + 1
                continue
            spec = COMBINATORS.get(t.get('callee') or '')
            if spec is None:
                continue
            recv_kind, run_on, build = spec
            args = t['args']
            if build == 'value_else_default':
                if len(args) != 3:
                    continue
                recv, default, clo_op = args
            else:
                if len(args) != 2:
                    continue
                recv, clo_op = args
                default = None
            got = _closure_of(f, clo_op, fns_by_path)
            if got is None:
                continue
            clo_local, g = got
            if len(g['blocks']) > MAX_BLOCKS:
                continue
            span = t.get('span')
            dest, target = t['dest'], t['target']
            ret_ty = g['locals'][0]['ty']
            nparams = g['arg_count'] - 1          # parameters besides the environment
            # receiver into a local
            if 'l' in recv and not recv['p']:
                r_local = recv['l']
            else:
                r_local = _new_local(f, recv.get('ty', ''))
                blk['stmts'].append(_assign(_pl(r_local, recv.get('ty', '')), {'k': 'use', 'op': recv}, span))
            r_ty = f['locals'][r_local]['ty']
            # environment operand for the closure body
            env_ty = g['locals'][1]['ty'] if len(g['locals']) > 1 else ''
            if env_ty.startswith('&'):
                e_local = _new_local(f, env_ty)
                env_stmt = _assign(_pl(e_local, env_ty), {'k': 'ref', 'mut': env_ty.startswith('&mut'), 'place': _pl(clo_local, f['locals'][clo_local]['ty'])}, span)
                env_op = _use(e_local, env_ty)
            else:
                env_stmt = None
                env_op = _use(clo_local, f['locals'][clo_local]['ty'])
            # blocks: run (closure on the chosen variant), other (the remaining variant), both continue at target
            run_bb = len(f['blocks'])
            f['blocks'].append({'cleanup': False, 'stmts': [], 'term': None, 'desugared': t.get('callee')})
            oth_bb = len(f['blocks'])
            f['blocks'].append({'cleanup': False, 'stmts': [], 'term': {'k': 'goto', 'target': target, 'span': span}, 'desugared': t.get('callee')})
            run, oth = f['blocks'][run_bb], f['blocks'][oth_bb]
            res_local = _new_local(f, ret_ty)
            call_args = [env_op]
            if recv_kind == 'bool':
                blk['term'] = {'k': 'switch', 'discr': _use(r_local, 'bool', 'copy'), 'discr_ty': 'bool', 'targets': [['0', oth_bb]], 'otherwise': run_bb, 'span': span}
                if nparams != 0:
                    f['blocks'] = f['blocks'][:run_bb]
                    blk['term'] = t
                    continue
            else:
                adt, variants = recv_kind
                d_local = _new_local(f, 'isize')
                blk['stmts'].append(_assign(_pl(d_local, 'isize'), {'k': 'discr', 'place': _pl(r_local, r_ty), 'adt': adt, 'variants': variants}, span))
                blk['term'] = {'k': 'switch', 'discr': _use(d_local, 'isize'), 'discr_ty': 'isize', 'targets': [[str(run_on), run_bb]], 'otherwise': oth_bb, 'span': span}
                has_payload = not (adt == OPT[0] and run_on == 0)
                if nparams == 1 and has_payload:
                    p_ty = g['locals'][2]['ty'] if len(g['locals']) > 2 else ''
                    vname = dict((int(a), b) for a, b in variants)[run_on]
                    call_args.append(_use(r_local, p_ty, 'move', [{'k': 'downcast', 'variant': vname, 'vidx': run_on}, {'k': 'field', 'i': 0, 'ty': p_ty, 'name': '0'}]))
                elif nparams != 0:
                    f['blocks'] = f['blocks'][:run_bb]
                    blk['term'] = t
                    blk['stmts'].pop()
                    continue
            if env_stmt is not None:
                run['stmts'].append(env_stmt)
            # the inlined closure call, result in res_local, then build the combinator's result
            after_bb = len(f['blocks'])
            f['blocks'].append({'cleanup': False, 'stmts': [], 'term': {'k': 'goto', 'target': target, 'span': span}, 'desugared': t.get('callee')})
            run['term'] = {'k': 'call', 'callee': g['path'], 'resolved': g['path'], 'args': call_args, 'dest': _pl(res_local, ret_ty), 'target': after_bb, 'unwind': None, 'span': span}
            after = f['blocks'][after_bb]
            d_ty = dest.get('ty', '')
            if build == 'wrap_some_else_none':
                after['stmts'].append(_assign(dest, _agg(OPT[0], 'Some', 1, [_use(res_local, ret_ty)], d_ty), span))
                oth['stmts'].append(_assign(dest, _agg(OPT[0], 'None', 0, [], d_ty), span))
            elif build == 'wrap_same_else_same':
                adt, variants = recv_kind
                names = dict((int(a), b) for a, b in variants)
                other = 1 - run_on
                after['stmts'].append(_assign(dest, _agg(adt, names[run_on], run_on, [_use(res_local, ret_ty)], d_ty), span))
                if adt == OPT[0]:
                    oth['stmts'].append(_assign(dest, _agg(adt, 'None', 0, [], d_ty), span))
                else:
                    oth['stmts'].append(_assign(dest, _agg(adt, names[other], other, [_use(r_local, '', 'move', [{'k': 'downcast', 'variant': names[other], 'vidx': other}, {'k': 'field', 'i': 0, 'ty': '', 'name': '0'}])], d_ty), span))
            elif build == 'value_else_default':
                after['stmts'].append(_assign(dest, {'k': 'use', 'op': _use(res_local, ret_ty)}, span))
                oth['stmts'].append(_assign(dest, {'k': 'use', 'op': default}, span))
            elif build == 'value_else_false':
                after['stmts'].append(_assign(dest, {'k': 'use', 'op': _use(res_local, ret_ty)}, span))
                oth['stmts'].append(_assign(dest, {'k': 'use', 'op': {'k': 'const', 'ty': 'bool', 'text': 'const false', 'val': '0'}}, span))
            elif build == 'value_else_payload':
                adt, variants = recv_kind
                names = dict((int(a), b) for a, b in variants)
                other = 1 - run_on
                after['stmts'].append(_assign(dest, {'k': 'use', 'op': _use(res_local, ret_ty)}, span))
                oth['stmts'].append(_assign(dest, {'k': 'use', 'op': _use(r_local, d_ty, 'move', [{'k': 'downcast', 'variant': names[other], 'vidx': other}, {'k': 'field', 'i': 0, 'ty': d_ty, 'name': '0'}])}, span))
            elif build == 'value_else_same':
                after['stmts'].append(_assign(dest, {'k': 'use', 'op': _use(res_local, ret_ty)}, span))
                oth['stmts'].append(_assign(dest, {'k': 'use', 'op': _use(r_local, r_ty)}, span))
            _inline_call(f, run_bb, g)
            count[t.get('callee')] = count.get(t.get('callee'), 0) + 1
    for c, n in sorted(count.items()):
        notes.append('combinator %s with a closure rewritten as the match it stands for at %d site(s)' % (c.rsplit('::', 1)[-1] if '::' in c else c, n))
    return notes


# ---------------------------------------------------------------------------
# iterator consumers with a closure: `it.for_each(|x| body)`, `it.fold(init, |acc, x| body)`,
# `it.try_fold(init, |acc, x| body)`, `it.try_for_each(|x| body)` are rewritten into the loop they stand for
# (`loop { match it.next() { Some(x) => body, None => break } }`, the shape a `for` loop lowers to), with the
# closure body inlined, so loop rules see the same control and data flow as in the `for` spelling.
# ---------------------------------------------------------------------------
CF = ('std::ops::ControlFlow', [['0', 'Continue'], ['1', 'Break']])
ITER_CONSUMERS = {
    'std::iter::Iterator::for_each': ('value', False, False),
    'std::iter::Iterator::fold': ('value', True, False),
    'std::iter::Iterator::try_for_each': ('ref', False, True),
    'std::iter::Iterator::try_fold': ('ref', True, True),
    'std::iter::Iterator::find': ('ref', False, 'find'),
}


def desugar_iter_closures(j):
    notes = []
    fns_by_path = {}
    for f in j['functions']:
        fns_by_path.setdefault(f['path'], f)
    count = {}
    for f in j['functions']:
        bi = 0
        while bi < len(f['blocks']):
            blk = f['blocks'][bi]
            t = blk['term']
            bi += 1
            if t['k'] != 'call' or blk.get('cleanup') or t.get('target') is None or t['dest']['p']:
                continue
            spec = ITER_CONSUMERS.get(t.get('callee') or '')
            if spec is None:
                continue
            how, has_acc, is_try = spec
            args = t['args']
            if len(args) != (3 if has_acc else 2):
                continue
            it_op, clo_op = args[0], args[-1]
            init_op = args[1] if has_acc else None
            got = _closure_of(f, clo_op, fns_by_path)
            env = 1
            if got is None and clo_op.get('k') == 'const' and clo_op.get('fn'):
                # a named function of the crate handed to the adaptor (`for_each(wake_one)`)
                g_ = fns_by_path.get(clo_op.get('fn_full') or clo_op['fn']) or fns_by_path.get(clo_op['fn'])
                if g_ is not None and g_.get('kind') != 'closure':
                    got, env = (None, g_), 0
            if got is None or 'l' not in it_op:
                continue
            clo_local, g = got
            if len(g['blocks']) > MAX_BLOCKS:
                continue
            nparams = g['arg_count'] - env
            if nparams != (2 if has_acc else 1):
                continue
            span = t.get('span')
            dest, target = t['dest'], t['target']
            ret_ty = g['locals'][0]['ty']
            elem_ty = g['locals'][(2 if has_acc else 1) + env]['ty']
            is_find = is_try == 'find'
            if is_find:
                # the predicate of `find` looks at `&Item`
                if not elem_ty.startswith('&') or ret_ty != 'bool':
                    continue
                par_ty, elem_ty = elem_ty, re.sub(r"^&('\S+ )?", '', elem_ty)
                is_try = False
            acc_ty = g['locals'][1 + env]['ty'] if has_acc else ''
            # how a `try` closure reports: Option / Result / ControlFlow
            tri = None
            if is_try:
                if ret_ty.startswith('std::option::Option<'):
                    tri = (OPT, 1, 0)          # (adt, continue variant, break variant)
                elif ret_ty.startswith('std::result::Result<'):
                    tri = (RES, 0, 1)
                elif ret_ty.startswith('std::ops::ControlFlow<'):
                    tri = (CF, 0, 1)
                else:
                    continue
            # the iterator in a local; a `&mut` to it for every `next`
            if it_op['p']:
                it_local = _new_local(f, it_op.get('ty', ''))
                blk['stmts'].append(_assign(_pl(it_local, it_op.get('ty', '')), {'k': 'use', 'op': it_op}, span))
            else:
                it_local = it_op['l']
            it_ty = f['locals'][it_local]['ty']
            if has_acc:
                acc_local = _new_local(f, acc_ty)
                blk['stmts'].append(_assign(_pl(acc_local, acc_ty), {'k': 'use', 'op': init_op}, span))
            head_bb = len(f['blocks'])
            f['blocks'].append({'cleanup': False, 'stmts': [], 'term': None, 'desugared': t.get('callee')})
            sw_bb = len(f['blocks'])
            f['blocks'].append({'cleanup': False, 'stmts': [], 'term': None, 'desugared': t.get('callee')})
            body_bb = len(f['blocks'])
            f['blocks'].append({'cleanup': False, 'stmts': [], 'term': None, 'desugared': t.get('callee')})
            after_bb = len(f['blocks'])
            f['blocks'].append({'cleanup': False, 'stmts': [], 'term': None, 'desugared': t.get('callee')})
            exit_bb = len(f['blocks'])
            f['blocks'].append({'cleanup': False, 'stmts': [], 'term': {'k': 'goto', 'target': target, 'span': span}, 'desugared': t.get('callee')})
            head, sw, body, after, exit_ = (f['blocks'][x] for x in (head_bb, sw_bb, body_bb, after_bb, exit_bb))
            blk['term'] = {'k': 'goto', 'target': head_bb, 'span': span}
            opt_ty = 'std::option::Option<%s>' % elem_ty
            nxt = _new_local(f, opt_ty)
            if how == 'value':
                ref_ty = '&mut ' + it_ty
                ref_local = _new_local(f, ref_ty)
                head['stmts'].append(_assign(_pl(ref_local, ref_ty), {'k': 'ref', 'mut': True, 'place': _pl(it_local, it_ty)}, span))
                ref_op = _use(ref_local, ref_ty)
            else:
                ref_op = _use(it_local, it_ty, 'copy')
            head['term'] = {'k': 'call', 'callee': 'std::iter::Iterator::next', 'callee_full': 'std::iter::Iterator::next', 'resolved': None, 'args': [ref_op],
                            'func': {'k': 'const', 'ty': '', 'text': 'std::iter::Iterator::next', 'fn': 'std::iter::Iterator::next', 'fn_full': 'std::iter::Iterator::next'},
                            'dest': _pl(nxt, opt_ty), 'target': sw_bb, 'unwind': None, 'span': span}
            d_local = _new_local(f, 'isize')
            sw['stmts'].append(_assign(_pl(d_local, 'isize'), {'k': 'discr', 'place': _pl(nxt, opt_ty), 'adt': OPT[0], 'variants': OPT[1]}, span))
            sw['term'] = {'k': 'switch', 'discr': _use(d_local, 'isize'), 'discr_ty': 'isize', 'targets': [['1', body_bb]], 'otherwise': exit_bb, 'span': span}
            env_ty = g['locals'][1]['ty'] if len(g['locals']) > 1 else ''
            if not env:
                env_op = None
            elif env_ty.startswith('&'):
                e_local = _new_local(f, env_ty)
                body['stmts'].append(_assign(_pl(e_local, env_ty), {'k': 'ref', 'mut': env_ty.startswith('&mut'), 'place': _pl(clo_local, f['locals'][clo_local]['ty'])}, span))
                env_op = _use(e_local, env_ty)
            else:
                env_op = _use(clo_local, f['locals'][clo_local]['ty'])
            call_args = [env_op] if env else []
            if has_acc:
                call_args.append(_use(acc_local, acc_ty))
            item_proj = [{'k': 'downcast', 'variant': 'Some', 'vidx': 1}, {'k': 'field', 'i': 0, 'ty': elem_ty, 'name': '0'}]
            if is_find:
                rf = _new_local(f, par_ty)
                body['stmts'].append(_assign(_pl(rf, par_ty), {'k': 'ref', 'mut': False, 'place': _pl(nxt, elem_ty, item_proj)}, span))
                call_args.append(_use(rf, par_ty))
            else:
                call_args.append(_use(nxt, elem_ty, 'move', item_proj))
            res_local = _new_local(f, ret_ty)
            body['term'] = {'k': 'call', 'callee': g['path'], 'resolved': g['path'], 'args': call_args, 'dest': _pl(res_local, ret_ty), 'target': after_bb, 'unwind': None, 'span': span}
            d_ty = dest.get('ty', '')
            if is_find:
                # true: the item is the result; false: next item; exhausted: None
                brk_bb = len(f['blocks'])
                f['blocks'].append({'cleanup': False, 'stmts': [_assign(dest, _agg(OPT[0], 'Some', 1, [_use(nxt, elem_ty, 'move', item_proj)], d_ty), span)],
                                    'term': {'k': 'goto', 'target': target, 'span': span}, 'desugared': t.get('callee')})
                after['term'] = {'k': 'switch', 'discr': _use(res_local, 'bool'), 'discr_ty': 'bool', 'targets': [['0', head_bb]], 'otherwise': brk_bb, 'span': span}
                exit_['stmts'].append(_assign(dest, _agg(OPT[0], 'None', 0, [], d_ty), span))
            elif not is_try:
                if has_acc:
                    after['stmts'].append(_assign(_pl(acc_local, acc_ty), {'k': 'use', 'op': _use(res_local, ret_ty)}, span))
                    exit_['stmts'].append(_assign(dest, {'k': 'use', 'op': _use(acc_local, acc_ty)}, span))
                after['term'] = {'k': 'goto', 'target': head_bb, 'span': span}
            else:
                (adt, variants), cont_v, brk_v = tri
                names = dict((int(a), b) for a, b in variants)
                d2 = _new_local(f, 'isize')
                after['stmts'].append(_assign(_pl(d2, 'isize'), {'k': 'discr', 'place': _pl(res_local, ret_ty), 'adt': adt, 'variants': variants}, span))
                cont_bb = len(f['blocks'])
                f['blocks'].append({'cleanup': False, 'stmts': [], 'term': {'k': 'goto', 'target': head_bb, 'span': span}, 'desugared': t.get('callee')})
                brk_bb = len(f['blocks'])
                f['blocks'].append({'cleanup': False, 'stmts': [], 'term': {'k': 'goto', 'target': target, 'span': span}, 'desugared': t.get('callee')})
                after['term'] = {'k': 'switch', 'discr': _use(d2, 'isize'), 'discr_ty': 'isize', 'targets': [[str(cont_v), cont_bb]], 'otherwise': brk_bb, 'span': span}
                cont, brk = f['blocks'][cont_bb], f['blocks'][brk_bb]
                payload = lambda v: _use(res_local, '', 'move', [{'k': 'downcast', 'variant': names[v], 'vidx': v}, {'k': 'field', 'i': 0, 'ty': '', 'name': '0'}])
                if has_acc:
                    cont['stmts'].append(_assign(_pl(acc_local, acc_ty), {'k': 'use', 'op': payload(cont_v)}, span))
                    exit_['stmts'].append(_assign(dest, _agg(adt, names[cont_v], cont_v, [_use(acc_local, acc_ty)], d_ty), span))
                else:
                    exit_['stmts'].append(_assign(dest, _agg(adt, names[cont_v], cont_v, [{'k': 'const', 'ty': '()', 'text': 'const ()', 'val': None}], d_ty), span))
                if adt == OPT[0]:
                    brk['stmts'].append(_assign(dest, _agg(adt, 'None', 0, [], d_ty), span))
                else:
                    brk['stmts'].append(_assign(dest, _agg(adt, names[brk_v], brk_v, [payload(brk_v)], d_ty), span))
            off = len(f['locals'])
            _inline_call(f, body_bb, g)
            if has_acc:
                # the accumulator *is* the closure's parameter (one local that is initialised before the loop and
                # reassigned per element, like the `let mut acc` of the `for` spelling)
                par = off + 1 + env
                body['stmts'] = [s_ for s_ in body['stmts'] if not (s_.get('inlined_arg') and s_['lhs']['l'] == par and not s_['lhs']['p'])]
                holders = [blk, after, exit_] + ([f['blocks'][cont_bb]] if is_try else [])
                for hb in holders:
                    for s_ in hb['stmts']:
                        if s_['k'] != 'assign':
                            continue
                        if s_['lhs']['l'] == acc_local and not s_['lhs']['p']:
                            s_['lhs']['l'] = par
                        rv_ = s_['rv']
                        for o_ in ([rv_.get('op')] if rv_.get('op') else []) + list(rv_.get('ops') or []):
                            if isinstance(o_, dict) and o_.get('l') == acc_local and not o_.get('p'):
                                o_['l'] = par
            count[t.get('callee')] = count.get(t.get('callee'), 0) + 1
    for c, n in sorted(count.items()):
        notes.append('iterator consumer %s with a closure rewritten as the loop it stands for at %d site(s)' % (c.rsplit('::', 1)[-1], n))
    return notes




# ---------------------------------------------------------------------------
# operator traits on primitive integers through references: `flags | flag` with `flag: &u32` is the call
# `<u32 as BitOr<&u32>>::bitor(flags, flag)`; it is the same bit operation as on the values and is written as one.
# ---------------------------------------------------------------------------
_PRIM = r'(?:u8|u16|u32|u64|u128|usize|i8|i16|i32|i64|i128|isize|bool)'
_PRIM_OPS = {'std::ops::BitOr::bitor': ('BitOr', 'BitOr'), 'std::ops::BitAnd::bitand': ('BitAnd', 'BitAnd'), 'std::ops::BitXor::bitxor': ('BitXor', 'BitXor')}


def desugar_prim_ops(j):
    n = 0
    for f in j['functions']:
        for blk in f['blocks']:
            t = blk['term']
            if t['k'] != 'call' or t.get('target') is None or len(t.get('args') or []) != 2:
                continue
            spec = _PRIM_OPS.get(t.get('callee') or '')
            if spec is None:
                continue
            m = re.match(r"^<(&(?:'\S+ )?)?(%s) as std::ops::%s<(&(?:'\S+ )?)?(%s)>>::\w+$" % (_PRIM, spec[0], _PRIM), t.get('callee_full') or '')
            if not m or m.group(2) != m.group(4):
                continue
            ops = []
            for isref, a in ((m.group(1), t['args'][0]), (m.group(3), t['args'][1])):
                if not isref:
                    ops.append(a)
                elif 'l' in a:
                    ops.append({'l': a['l'], 'p': list(a['p']) + [{'k': 'deref'}], 'ty': m.group(2), 'k': 'copy'})
                else:
                    ops = None
                    break
            if ops is None:
                continue
            blk['stmts'].append({'k': 'assign', 'lhs': t['dest'], 'rv': {'k': 'bin', 'op': spec[1], 'a': ops[0], 'b': ops[1]}, 'span': t.get('span'), 'text': 'operator on primitives'})
            blk['term'] = {'k': 'goto', 'target': t['target'], 'span': t.get('span')}
            n += 1
    return ['%d operator-trait call(s) on primitive integers (through references) written as the operation' % n] if n else []


def _single_def_stmt(f, l):
    defs = []
    for b in f['blocks']:
        for s in b['stmts']:
            if s['k'] == 'assign' and s['lhs']['l'] == l and not s['lhs']['p']:
                defs.append(s)
        t = b['term']
        if t['k'] == 'call' and t['dest']['l'] == l and not t['dest']['p']:
            defs.append(t)
    return defs[0] if len(defs) == 1 else None


def unroll_array_folds(j):
    """`[(c1, f1), (c2, f2), ..].into_iter().filter(|r| pred(r)).fold(init, |acc, r| step(acc, r))` over an array literal of
    this function: a loop with a fixed, known number of iterations.  It is written out — per element: if pred(elem)
    { acc = step(acc, elem) } — with both closures inlined, so a table of (condition, flag) rows reads like the chain of
    `if`s it replaces."""
    notes = []
    fns_by_path = {}
    for f in j['functions']:
        fns_by_path.setdefault(f['path'], f)
    n_done = 0
    for f in j['functions']:
        for fb in list(f['blocks']):
            t = fb['term']
            if t['k'] != 'call' or (t.get('callee') or '') != 'std::iter::Iterator::fold' or len(t['args']) != 3 or fb.get('cleanup') or t.get('target') is None or t['dest']['p']:
                continue
            it, init, clo2 = t['args']
            g2 = _closure_of(f, clo2, fns_by_path)
            if g2 is None or g2[1]['arg_count'] != 3 or 'l' not in it or it['p']:
                continue

            def producer(local):
                # the block whose call terminator defines `local`, and that it is its only definition
                bs = [b for b in f['blocks'] if b['term']['k'] == 'call' and not b['term']['dest']['p'] and b['term']['dest']['l'] == local and not b.get('cleanup')]
                ds = [s_ for b in f['blocks'] for s_ in b['stmts'] if s_['k'] == 'assign' and s_['lhs']['l'] == local and not s_['lhs']['p']]
                return bs[0] if len(bs) == 1 and not ds else None
            chain = [fb]
            src = producer(it['l'])
            g1 = None
            if src is not None and (src['term'].get('callee') or '') == 'std::iter::Iterator::filter' and len(src['term']['args']) == 2:
                g1 = _closure_of(f, src['term']['args'][1], fns_by_path)
                if g1 is None or g1[1]['arg_count'] != 2:
                    continue
                chain.append(src)
                a0 = src['term']['args'][0]
                src = producer(a0['l']) if 'l' in a0 and not a0['p'] else None
            by_ref = src is not None and (src['term'].get('callee') or '') == 'core::slice::<impl [T]>::iter'
            if src is None or ((src['term'].get('callee') or '') != 'std::iter::IntoIterator::into_iter' and not by_ref) or len(src['term']['args']) != 1:
                continue
            chain.append(src)
            arr = src['term']['args'][0]
            if 'l' not in arr or arr['p']:
                continue
            # the array literal (through one copy)
            def single_assign(local):
                ds = [s_ for b in f['blocks'] for s_ in b['stmts'] if s_['k'] == 'assign' and s_['lhs']['l'] == local and not s_['lhs']['p']]
                cs = [b for b in f['blocks'] if b['term']['k'] == 'call' and b['term']['dest']['l'] == local]
                return ds[0] if len(ds) == 1 and not cs else None
            a_local = arr['l']
            if by_ref:
                # `table.iter()`: a slice reference to a local array (`&table as &[T]`); the items are references to its elements
                d = single_assign(a_local)
                if d is not None and d['rv']['k'] == 'cast' and 'l' in d['rv']['op'] and not d['rv']['op']['p']:
                    d = single_assign(d['rv']['op']['l'])
                if d is None or d['rv']['k'] != 'ref' or d['rv'].get('mut') or d['rv']['place']['p']:
                    continue
                a_local = d['rv']['place']['l']
                # the array must not be written through between its literal and the fold
                if any(s_['k'] == 'assign' and s_['lhs']['l'] == a_local and s_['lhs']['p'] for b in f['blocks'] for s_ in b['stmts']):
                    continue
            d = single_assign(a_local)
            if d is not None and d['rv']['k'] == 'use' and 'l' in d['rv']['op'] and not d['rv']['op']['p']:
                a_local = d['rv']['op']['l']
                d = single_assign(a_local)
            if d is None or d['rv']['k'] != 'agg' or d['rv'].get('ak') != 'array' or not (1 <= len(d['rv']['ops']) <= 16):
                continue
            n = len(d['rv']['ops'])
            elem_ty = ('&' if by_ref else '') + (d['rv'].get('elem') or '')
            span, dest, target = t.get('span'), t['dest'], t['target']
            acc_ty = dest.get('ty', '') or f['locals'][dest['l']]['ty']
            acc = _new_local(f, acc_ty)
            # neutralise the iterator calls (their statements still run), then the unrolled loop
            for b in chain:
                if b is not fb:
                    b['term'] = {'k': 'goto', 'target': b['term']['target'], 'span': b['term'].get('span')}
            start = len(f['blocks'])
            fb['stmts'].append(_assign(_pl(acc, acc_ty), {'k': 'use', 'op': init}, span))
            fb['term'] = {'k': 'goto', 'target': start, 'span': span}
            inl = []
            for i in range(n):
                base = len(f['blocks'])
                elem = _new_local(f, elem_ty)
                if by_ref:
                    head_stmts = [_assign(_pl(elem, elem_ty), {'k': 'ref', 'mut': False, 'place': _pl(a_local, elem_ty[1:], [{'k': 'cindex', 'offset': i, 'from_end': False, 'min_length': i + 1}])}, span)]
                else:
                    head_stmts = [_assign(_pl(elem, elem_ty), {'k': 'use', 'op': _use(a_local, elem_ty, 'copy', [{'k': 'cindex', 'offset': i, 'from_end': False, 'min_length': i + 1}])}, span)]
                nxt = None  # filled below
                if g1 is not None:
                    clo1_local, gg1 = g1
                    ref_ty = gg1['locals'][2]['ty']
                    r_local = _new_local(f, ref_ty)
                    c_local = _new_local(f, 'bool')
                    env_ty = gg1['locals'][1]['ty']
                    e_local = _new_local(f, env_ty)
                    head_stmts.append(_assign(_pl(r_local, ref_ty), {'k': 'ref', 'mut': False, 'place': _pl(elem, elem_ty)}, span))
                    head_stmts.append(_assign(_pl(e_local, env_ty), {'k': 'ref', 'mut': env_ty.startswith('&mut'), 'place': _pl(clo1_local, f['locals'][clo1_local]['ty'])}, span))
                    b_head, b_test, b_app, b_next = base, base + 1, base + 2, base + 3
                    f['blocks'].append({'cleanup': False, 'stmts': head_stmts, 'desugared': 'array-fold',
                                        'term': {'k': 'call', 'callee': gg1['path'], 'resolved': gg1['path'], 'args': [_use(e_local, env_ty), _use(r_local, ref_ty)],
                                                 'dest': _pl(c_local, 'bool'), 'target': b_test, 'unwind': None, 'span': span}})
                    f['blocks'].append({'cleanup': False, 'stmts': [], 'desugared': 'array-fold',
                                        'term': {'k': 'switch', 'discr': _use(c_local, 'bool', 'copy'), 'discr_ty': 'bool', 'targets': [['0', b_next]], 'otherwise': b_app, 'span': span}})
                    inl.append((b_head, gg1))
                else:
                    b_app, b_next = base, base + 1
                clo2_local, gg2 = g2
                env2_ty = gg2['locals'][1]['ty']
                e2_local = _new_local(f, env2_ty)
                app_stmts = ([] if g1 is not None else head_stmts) + [_assign(_pl(e2_local, env2_ty), {'k': 'ref', 'mut': env2_ty.startswith('&mut'), 'place': _pl(clo2_local, f['locals'][clo2_local]['ty'])}, span)]
                f['blocks'].append({'cleanup': False, 'stmts': app_stmts, 'desugared': 'array-fold',
                                    'term': {'k': 'call', 'callee': gg2['path'], 'resolved': gg2['path'], 'args': [_use(e2_local, env2_ty), _use(acc, acc_ty, 'copy'), _use(elem, elem_ty)],
                                             'dest': _pl(acc, acc_ty), 'target': b_next, 'unwind': None, 'span': span}})
                inl.append((b_app, gg2))
                f['blocks'].append({'cleanup': False, 'stmts': [], 'desugared': 'array-fold', 'term': {'k': 'goto', 'target': len(f['blocks']) + 1, 'span': span}})
            # end: dest = acc
            f['blocks'].append({'cleanup': False, 'stmts': [_assign(dest, {'k': 'use', 'op': _use(acc, acc_ty)}, span)], 'desugared': 'array-fold',
                                'term': {'k': 'goto', 'target': target, 'span': span}})
            for bi_, g_ in inl:
                _inline_call(f, bi_, g_)
            n_done += 1
    if n_done:
        notes.append('%d fold(s) over an array literal written out as the fixed sequence of steps they stand for' % n_done)
    return notes


def inline_local_closure_calls(j):
    """`let is_full = |x| x >= len; .. is_full(a) ..`: a call of a closure that is a local of the same function
    (Fn::call / FnMut::call_mut / FnOnce::call_once on it, arguments packed in a tuple) is replaced by the closure body"""
    notes = []
    fns_by_path = {}
    for f in j['functions']:
        fns_by_path.setdefault(f['path'], f)
    n = 0
    for f in j['functions']:
        bi = 0
        while bi < len(f['blocks']):
            blk = f['blocks'][bi]
            t = blk['term']
            bi += 1
            if t['k'] != 'call' or blk.get('cleanup') or t.get('callee') not in ('std::ops::Fn::call', 'std::ops::FnMut::call_mut', 'std::ops::FnOnce::call_once'):
                continue
            if len(t['args']) != 2 or 'l' not in t['args'][0] or t['args'][0]['p'] or 'l' not in t['args'][1] or t['args'][1]['p']:
                continue
            # receiver: the closure local itself (call_once) or a reference to it
            recv = t['args'][0]
            clo = _closure_of(f, recv, fns_by_path)
            env_is_ref = False
            if clo is None:
                d = _single_def_stmt(f, recv['l'])
                if d is not None and d.get('k') == 'assign' and d['rv']['k'] == 'ref' and 'l' in d['rv']['place'] and not d['rv']['place']['p']:
                    clo = _closure_of(f, {'l': d['rv']['place']['l'], 'p': []}, fns_by_path)
                    env_is_ref = True
            if clo is None:
                continue
            clo_local, g = clo
            env_ty = g['locals'][1]['ty'] if len(g['locals']) > 1 else ''
            if env_ty.startswith('&') != env_is_ref or len(g['blocks']) > MAX_BLOCKS:
                continue
            # arguments: fields of the tuple local
            tup = _single_def_stmt(f, t['args'][1]['l'])
            if tup is None or tup.get('k') != 'assign' or tup['rv']['k'] != 'agg' or tup['rv'].get('ak') != 'tuple' or len(tup['rv']['ops']) != g['arg_count'] - 1:
                continue
            new_args = [recv] + [dict(o) for o in tup['rv']['ops']]
            t2 = dict(t)
            t2['args'] = new_args
            t2['callee'] = g['path']
            t2['resolved'] = g['path']
            blk['term'] = t2
            _inline_call(f, bi - 1, g)
            n += 1
    if n:
        notes.append('%d call(s) of a closure that is a local of the calling function replaced by the closure body' % n)
    return notes
