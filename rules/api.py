"""End-to-end argument flow: public API parameter -> (constructor / builder) ->
operation resources/args component -> (fill_submission) -> SQE byte position."""
import re

from .kernel import (AnchorMissing, ExprBuilder, Loc, access_path, subexprs, proj_str)
from . import sqe
from . import addr

STATE_RX = re.compile(r'^<(.+) as (?:crate::)?op::(Op|FdOp|Iter|FdIter|OpExtract|FdOpExtract)>::State$')


def futures_of_ops(facts):
    """future ADT path -> op type string"""
    fut = {}
    for a in facts.adts.values():
        for v in a['variants']:
            for fl in v['fields']:
                m = STATE_RX.match(fl['ty'])
                if m:
                    fut[a['path']] = m.group(1)
    return fut


def constructors(facts, fut):
    """op type -> list of (caller Func, loc, resources expr, args expr)"""
    out = {}
    for f in facts.func_list:
        eb = None
        for loc, t in f.calls():
            c = t.get('callee') or ''
            m = re.match(r'^(.+?)(::<.*>)?::new$', c)
            if m and m.group(1) in fut and len(t['args']) == 3:
                eb = eb or ExprBuilder(f, multi='phi')
                out.setdefault(fut[m.group(1)], []).append((f, loc, eb.operand(t['args'][1]), eb.operand(t['args'][2])))
    return out


def builders(facts, fut):
    """op type -> list of (method Func, role, component path, value expr)"""
    out = {}
    for f in facts.func_list:
        st = f.j.get('impl_self') or ''
        m = re.match(r'^([\w:]+)', st)
        if not m or m.group(1) not in fut or f.kind == 'closure':
            continue
        am = [(loc, t) for loc, t in f.calls() if (t.get('callee') or '') in ('op::OpState::args_mut', 'op::OpState::resources_mut')]
        if not am:
            continue
        eb = ExprBuilder(f, multi='phi')
        for loc, s in f.assigns():
            lhs = s['lhs']
            if not lhs['p']:
                continue
            pe = eb.place(lhs)
            calls = [x for x in subexprs(pe) if x[0] == 'call' and x[1] in ('op::OpState::args_mut', 'op::OpState::resources_mut')]
            if not calls:
                continue
            role = 'args' if calls[0][1].endswith('args_mut') else 'resources'
            # component path: field projections after the @Some payload deref
            comps = []
            x = pe
            if x[0] == 'proj':
                seen_some = False
                for p in x[2]:
                    if p == '@Some':
                        seen_some = True
                        comps = []
                    elif p.startswith('.'):
                        comps.append(p[1:])
                # the payload of Some is field .0 of the variant
                if comps and comps[0] == '0':
                    comps = comps[1:]
            out.setdefault(fut[m.group(1)], []).append((f, role, '.'.join(comps), eb.rvalue(s['rv']), loc))
    return out


def select(e, path):
    """walk `path` (list of component names) into expression e; returns (expr, remaining path)"""
    path = list(path)
    while path:
        k = e[0]
        if k == 'agg':
            fields, ops = e[2], e[3]
            name = path[0]
            idx = None
            if name.isdigit() and int(name) < len(ops) and (not fields or all(f.isdigit() for f in fields)):
                idx = int(name)
            elif name in fields:
                idx = list(fields).index(name)
            elif name.isdigit() and int(name) < len(ops):
                idx = int(name)
            if idx is None:
                break
            e = ops[idx]
            path = path[1:]
        elif k == 'phi':
            break
        else:
            break
    return e, path


def labels_of_value(f, e):
    """public-level labels of an expression inside constructor/builder f"""
    out = set()
    for rt in sqe.roots_of(f, e):
        if rt[0] == 'param':
            nm = rt[1]
            if nm in ('self',):
                out.add('self' + ('.' + rt[2] if rt[2] else ''))
            else:
                out.add('p:' + nm)
        elif rt[0] == 'const':
            nm = rt[2]
            if nm is not None and '::' in str(nm) and not str(nm).endswith('{}'):
                out.add('c:' + str(nm).rsplit('::', 1)[1])
            elif nm is not None and str(nm).endswith('{}'):
                out.add('c:' + str(nm)[:-2].split('::')[-1])
            else:
                out.add('c:%s' % rt[1])
        elif rt[0] == 'call':
            out.add('k:' + rt[1].split('::')[-1])
        elif rt[0] == 'local':
            out.add('l:%s' % rt[1])
    # enum unit variants show up as aggregates without operands
    for x in subexprs(e):
        if x[0] == 'agg' and not x[3] and '::' in x[1] and x[1] != 'tuple':
            out.add('c:' + x[1].rsplit('::', 1)[1])
    return out


def short_method(path):
    m = re.search(r'::(\w+)$', path)
    return m.group(1) if m else path


class OpApi:
    def __init__(self, op):
        self.op = op
        self.ctors = []
        self.builders = []


def resolve_component(api, role, path):
    """labels reaching component (role, 'a.b') of operation `api` from its public API"""
    out = set()
    comps = [c for c in path.split('.') if c] if path else []
    for f, loc, res, args in api.ctors:
        base = res if role == 'resources' else args
        e, rest = select(base, comps)
        for l in labels_of_value(f, e):
            out.add(l)
    for f, brole, bpath, val, loc in api.builders:
        if brole != role:
            continue
        bcomps = [c for c in bpath.split('.') if c] if bpath else []
        # builder writes component bpath; relevant if it is a prefix of (or prefixed by) the requested path
        n = min(len(bcomps), len(comps))
        if bcomps[:n] == comps[:n]:
            for l in labels_of_value(f, val):
                if l.startswith('p:'):
                    out.add('b:%s.%s' % (short_method(f.path), l[2:]))
                else:
                    out.add(l)
    return out


def op_apis(facts):
    fut = futures_of_ops(facts)
    ctors = constructors(facts, fut)
    blds = builders(facts, fut)
    apis = {}
    for op in set(fut.values()):
        a = OpApi(op)
        a.ctors = ctors.get(op, [])
        a.builders = blds.get(op, [])
        apis[op] = a
    return apis


def fill_labels(facts, f, roles, api):
    """SQE position -> labels, for one fill_submission impl"""
    ws = sqe.collect_writes(f, facts, sub_param=roles['submission'])
    inv = {v: k for k, v in roles.items()}
    pos = {}
    for w in ws:
        if w.off < 0:
            continue
        d = pos.setdefault(w.off, {'labels': set(), 'writes': []})
        d['writes'].append(w)
        for rt in w.roots:
            if rt[0] == 'param':
                role = addr.role_of(f, roles, rt)
                if role in ('resources', 'args'):
                    ls = resolve_component(api, role, rt[2])
                    if not ls:
                        ls = {'%s.%s' % (role, rt[2])}
                    d['labels'] |= ls
                elif role == 'fd':
                    d['labels'].add('fd')
                else:
                    d['labels'].add('param:%s' % rt[1])
            elif rt[0] == 'const':
                nm = rt[2]
                if nm is not None and '::' in str(nm):
                    d['labels'].add('c:' + str(nm).rsplit('::', 1)[1].replace('{}', '').rstrip('}'))
                elif rt[1] is None and nm is not None and re.fullmatch(r'[A-Z]\w*', str(nm)) and _array_len_component(f, roles, str(nm)) is not None:
                    # a const generic that is the length of an array among the resources (`[IoSlice; N]`): the same value
                    # as `.len()` of that array
                    ls = resolve_component(api, 'resources', _array_len_component(f, roles, str(nm)))
                    d['labels'] |= ls or {'resources.%s' % _array_len_component(f, roles, str(nm))}
                else:
                    d['labels'].add('c:%s' % rt[1])
            elif rt[0] == 'call':
                d['labels'].add('k:' + rt[1].split('::')[-1])
            elif rt[0] == 'local':
                d['labels'].add('l:%s' % rt[1])
            elif rt[0] == 'expose':
                d['labels'].add('k:addr')
        for x in subexprs(w.expr):
            if x[0] == 'agg' and not x[3] and '::' in x[1] and x[1] not in ('tuple',):
                d['labels'].add('c:' + x[1].rsplit('::', 1)[1])
        # constants selected by a match on an argument: keep the variant <-> constant association
        if w.via is None and not f.is_term(w.loc):
            d['labels'] |= match_labels(f, w.loc)
    return pos


def _array_len_component(f, roles, name):
    """index (as string) of the resources component whose type is an array of length `name` (a const generic)"""
    for role, l in roles.items():
        if role != 'resources' or not isinstance(l, int) or l >= len(f.locals):
            continue
        ty = f.locals[l]['ty']
        m = re.match(r'^&(?:mut )?\((.*)\)$', ty)
        inner = m.group(1) if m else None
        if inner is None:
            if re.search(r';\s*%s\]' % re.escape(name), ty):
                return ''
            continue
        # split the tuple at top-level commas
        parts, depth, cur = [], 0, ''
        for ch in inner:
            if ch in '([<':
                depth += 1
            elif ch in ')]>':
                depth -= 1
            if ch == ',' and depth == 0:
                parts.append(cur)
                cur = ''
            else:
                cur += ch
        if cur.strip():
            parts.append(cur)
        for i, p_ in enumerate(parts):
            if re.search(r';\s*%s\]' % re.escape(name), p_):
                return str(i)
    return None


def match_labels(f, loc):
    """labels 'm:<Variant>=<const>' for a value that depends on a crate enum argument: for every variant of every enum
    whose discriminant the function reads, the constant that reaches the statement at loc on the feasible paths
    (so `match flag {A => X, B => Y}`, `if matches!(flag, A) {X} else {Y}` and a flag kept in a local agree).
    No label when the value does not depend on the variant."""
    from .kernel import place_key, Loc, def_expr
    out = set()
    s = f.at(loc)
    if s['k'] != 'assign':
        return out
    rv = s['rv']
    opnd = rv['ops'][0] if (rv['k'] == 'agg' and len(rv.get('ops', [])) == 1) else (rv.get('op') if rv['k'] in ('use', 'cast') else None)
    if opnd is None or 'l' not in opnd or opnd['p']:
        return out
    eb = ExprBuilder(f, multi='phi')
    discrs = []
    for dl, s_ in f.assigns():
        r2 = s_['rv']
        if r2['k'] == 'discr' and r2.get('variants') and len(r2['variants']) > 1 and (r2.get('adt') or '') not in ('std::option::Option', 'std::result::Result', 'std::ops::ControlFlow', 'std::task::Poll', 'std::cmp::Ordering'):
            key = r2['place']['l'] if not r2['place']['p'] else place_key(r2['place'])
            if key not in [d[0] for d in discrs] and f.forward_paths_hit([dl], [loc]) is not None:
                discrs.append((key, r2['variants'], dl))

    def const_name(e):
        cs = [x for x in subexprs(e) if x[0] == 'const' and (x[1] is not None or x[2])]
        if len(cs) != 1 or any(x[0] in ('arg', 'call') for x in subexprs(e)):
            return None
        nm = cs[0][2]
        return str(nm).rsplit('::', 1)[1] if nm is not None and '::' in str(nm) else str(cs[0][1])
    for key, variants, dl in discrs:
        per = {}
        for vidx, vname in variants:
            defs = f.reaching_defs([dl], loc, opnd['l'], env0={('D', key): int(vidx)})
            names = set()
            for d in defs:
                names.add(None if d == 'entry' else const_name(def_expr(f, d, eb)))
            per[vname] = names
        if all(len(v) == 1 and None not in v for v in per.values()) and len({next(iter(v)) for v in per.values()}) > 1:
            for vname, v in per.items():
                out.add('m:%s=%s' % (vname, next(iter(v))))
    return out
