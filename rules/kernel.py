"""Rule kernel: primitives over the a10-facts JSON (MIR CFGs, def-use, origins).

Nothing here runs a10; it only reads the fact file produced by tools/a10-facts.
"""
import json
import re
from collections import defaultdict, deque


class AnchorMissing(Exception):
    """A function/type a rule is anchored in was not found: fail closed."""


# ---------------------------------------------------------------------------
# places / operands
# ---------------------------------------------------------------------------

def proj_str(p):
    k = p['k']
    if k == 'deref':
        return '*'
    if k == 'field':
        n = p.get('name')
        return '.' + (n if n is not None else str(p['i']))
    if k == 'downcast':
        return '@' + str(p.get('variant'))
    if k == 'index':
        return '[_%d]' % p['local']
    if k == 'cindex':
        return '[%s%d]' % ('-' if p['from_end'] else '', p['offset'])
    if k == 'subslice':
        return '[%d..%d]' % (p['from'], p['to'])
    return '?' + k


def place_str(pl):
    return '_%d' % pl['l'] + ''.join(proj_str(p) for p in pl['p'])


def is_local(op, n=None):
    """operand/place is a bare local (optionally local n)."""
    return 'l' in op and not op['p'] and (n is None or op['l'] == n)


_LIT_RX = re.compile(r'^(-?\d+)_(?:[ui](?:8|16|32|64|128|size))$')


def const_val(op):
    if op.get('k') == 'const' and 'val' in op:
        return int(op['val'])
    # literals the extractor could not evaluate (type-level constants of range patterns print as `3_u64`)
    if op.get('k') == 'const' and not op.get('def'):
        m = _LIT_RX.match(op.get('text') or '')
        if m:
            return int(m.group(1))
    return None


def field_names(pl):
    return [p.get('name', str(p.get('i'))) for p in pl['p'] if p['k'] == 'field']


def place_key(pl):
    """hashable identity of a place: (base local, projection path)"""
    out = []
    for p in pl['p']:
        if p['k'] == 'deref':
            out.append('*')
        elif p['k'] == 'field':
            out.append('.%s' % p.get('i'))
        elif p['k'] == 'downcast':
            out.append('@%s' % p.get('vidx'))
        elif p['k'] == 'index':
            out.append('[_%s]' % p.get('local'))
        else:
            out.append('?')
    return (pl['l'], ''.join(out))


class Loc(tuple):
    """(bb, idx); idx == len(stmts) means the terminator."""
    __slots__ = ()

    def __new__(cls, bb, i):
        return tuple.__new__(cls, (bb, i))

    bb = property(lambda s: s[0])
    i = property(lambda s: s[1])


# ---------------------------------------------------------------------------
# function wrapper
# ---------------------------------------------------------------------------

class Func:
    def __init__(self, j, facts):
        self.j = j
        self.facts = facts
        self.path = j['path']
        self.kind = j['kind']
        self.blocks = j['blocks']
        self.locals = j['locals']
        self.nargs = j['arg_count']
        self.file = j['span']['file']
        self.line = j['span']['line']
        self._succ = None
        self._pred = None
        self._dom = None
        self._defs = None
        self.names = {}
        self.debug = j.get('debug', [])
        for d in self.debug:
            v = d['val']
            if 'l' in v and not v['p']:
                self.names.setdefault(v['l'], d['name'])

    def __repr__(self):
        return 'Func(%s)' % self.path

    # -- basic structure ----------------------------------------------------
    def term(self, bb):
        return self.blocks[bb]['term']

    def stmts(self, bb):
        return self.blocks[bb]['stmts']

    def at(self, loc):
        b = self.blocks[loc[0]]
        if loc[1] < len(b['stmts']):
            return b['stmts'][loc[1]]
        return b['term']

    def is_term(self, loc):
        return loc[1] >= len(self.blocks[loc[0]]['stmts'])

    def term_loc(self, bb):
        return Loc(bb, len(self.blocks[bb]['stmts']))

    def line_of(self, loc):
        return self.at(loc)['span']['line']

    def where(self, loc=None):
        if loc is None:
            return '%s:%d' % (self.file, self.line)
        sp = self.at(loc)['span']
        return '%s:%d' % (sp['file'], sp['line'])

    def local_name(self, n):
        return self.names.get(n, '_%d' % n)

    def local_ty(self, n):
        return self.locals[n]['ty']

    def arg_local(self, name):
        for d in self.debug:
            if d['name'] == name and d.get('arg') is not None and 'l' in d['val'] and not d['val']['p']:
                return d['val']['l']
        return None

    def normal_succ(self, bb):
        """successors over normal (non-unwind) edges, labelled"""
        t = self.term(bb)
        k = t['k']
        if k == 'goto':
            return [t['target']]
        if k == 'switch':
            return [x[1] for x in t['targets']] + [t['otherwise']]
        if k in ('drop', 'assert'):
            return [t['target']]
        if k == 'call':
            return [t['target']] if t['target'] is not None else []
        if k == 'asm':
            return list(t['targets'])
        return []

    def unwind_succ(self, bb):
        t = self.term(bb)
        u = t.get('unwind')
        return [u] if u is not None else []

    @property
    def succ(self):
        if self._succ is None:
            self._succ = [self.normal_succ(b) for b in range(len(self.blocks))]
        return self._succ

    @property
    def pred(self):
        if self._pred is None:
            p = [[] for _ in self.blocks]
            for b, ss in enumerate(self.succ):
                for s in ss:
                    p[s].append(b)
            self._pred = p
        return self._pred

    def reachable_blocks(self, start=0, removed_edges=(), removed_blocks=()):
        seen = set()
        if start in removed_blocks:
            return seen
        dq = deque([start])
        seen.add(start)
        rem = set(removed_edges)
        while dq:
            b = dq.popleft()
            for s in self.succ[b]:
                if (b, s) in rem or s in removed_blocks or s in seen:
                    continue
                seen.add(s)
                dq.append(s)
        return seen

    @property
    def dom(self):
        """dom[b] = set of blocks dominating b (normal edges, from entry)."""
        if self._dom is None:
            reach = self.reachable_blocks(0)
            order = sorted(reach)
            full = set(order)
            dom = {b: set(full) for b in order}
            dom[0] = {0}
            changed = True
            while changed:
                changed = False
                for b in order:
                    if b == 0:
                        continue
                    ps = [p for p in self.pred[b] if p in reach]
                    new = set(full)
                    for p in ps:
                        new &= dom[p]
                    new.add(b)
                    if new != dom[b]:
                        dom[b] = new
                        changed = True
            self._dom = dom
        return self._dom

    def dominates(self, a, b):
        """location a dominates location b (normal edges)."""
        if a[0] == b[0]:
            return a[1] <= b[1]
        d = self.dom.get(b[0])
        return d is not None and a[0] in d

    def edge_dominates(self, edge, loc):
        """every path from entry to loc uses CFG edge (from,to)."""
        if loc[0] not in self.reachable_blocks(0):
            return True
        return loc[0] not in self.reachable_blocks(0, removed_edges=[edge])

    # -- iteration ----------------------------------------------------------
    def locs(self, cleanup=False):
        for b, blk in enumerate(self.blocks):
            if blk['cleanup'] and not cleanup:
                continue
            for i in range(len(blk['stmts']) + 1):
                yield Loc(b, i)

    def calls(self, cleanup=False):
        """yield (loc, term) for call terminators"""
        for b, blk in enumerate(self.blocks):
            if blk['cleanup'] and not cleanup:
                continue
            t = blk['term']
            if t['k'] == 'call':
                yield self.term_loc(b), t

    def calls_to(self, pred, cleanup=False):
        out = []
        for loc, t in self.calls(cleanup):
            if callee_matches(t, pred):
                out.append((loc, t))
        return out

    def assigns(self, cleanup=False):
        for b, blk in enumerate(self.blocks):
            if blk['cleanup'] and not cleanup:
                continue
            for i, s in enumerate(blk['stmts']):
                if s['k'] == 'assign':
                    yield Loc(b, i), s

    def returns(self):
        return [self.term_loc(b) for b, blk in enumerate(self.blocks)
                if not blk['cleanup'] and blk['term']['k'] == 'return']

    # -- def-use ------------------------------------------------------------
    @property
    def defs(self):
        """local -> list of (loc, kind, payload) for whole-local definitions.
        kind 'assign' payload rvalue; kind 'call' payload terminator."""
        if self._defs is None:
            d = defaultdict(list)
            for b, blk in enumerate(self.blocks):
                for i, s in enumerate(blk['stmts']):
                    if s['k'] == 'assign' and not s['lhs']['p']:
                        d[s['lhs']['l']].append((Loc(b, i), 'assign', s['rv']))
                t = blk['term']
                if t['k'] == 'call' and not t['dest']['p']:
                    d[t['dest']['l']].append((self.term_loc(b), 'call', t))
            self._defs = d
        return self._defs

    def partial_writes(self, local):
        out = []
        for b, blk in enumerate(self.blocks):
            for i, s in enumerate(blk['stmts']):
                if s['k'] == 'assign' and s['lhs']['p'] and s['lhs']['l'] == local and s['lhs']['p'][0]['k'] != 'deref':
                    out.append((Loc(b, i), s))
            t = blk['term']
            if t['k'] == 'call' and t['dest']['p'] and t['dest']['l'] == local and t['dest']['p'][0]['k'] != 'deref':
                out.append((self.term_loc(b), t))
        return out

    def single_def(self, local):
        ds = [x for x in self.defs.get(local, []) if not self.blocks[x[0][0]]['cleanup']]
        if len(ds) == 1:
            return ds[0]
        return None

    # -- path search --------------------------------------------------------
    def _bool_locals(self):
        """bool locals that are only ever assigned `const true/false` or a copy
        of another such local (flags like `done`); tracked path-sensitively."""
        if getattr(self, '_bl', None) is not None:
            return self._bl
        cand = {i for i, l in enumerate(self.locals) if l['ty'] == 'bool'}
        ok = {}
        changed = True
        bad = set()
        for b, blk in enumerate(self.blocks):
            t = blk['term']
            if t['k'] == 'call' and not t['dest']['p'] and t['dest']['l'] in cand:
                bad.add(t['dest']['l'])
            for s in blk['stmts']:
                if s['k'] != 'assign':
                    continue
                if s['lhs']['p']:
                    continue
                l = s['lhs']['l']
                if l not in cand:
                    continue
                rv = s['rv']
                if rv['k'] == 'use' and rv['op'].get('k') == 'const' and rv['op'].get('ty') == 'bool':
                    continue
                if rv['k'] == 'use' and 'l' in rv['op'] and not rv['op']['p'] and rv['op']['l'] in cand:
                    continue
                bad.add(l)
        # args are unknown; so is anything whose address is taken
        for i in range(1, self.nargs + 1):
            bad.add(i)
        for b, blk in enumerate(self.blocks):
            for s in blk['stmts']:
                if s['k'] == 'assign' and s['rv']['k'] in ('ref', 'rawptr') and s['rv']['place']['l'] in cand:
                    bad.add(s['rv']['place']['l'])
        # propagate badness through copies
        while changed:
            changed = False
            for b, blk in enumerate(self.blocks):
                for s in blk['stmts']:
                    if s['k'] == 'assign' and not s['lhs']['p'] and s['lhs']['l'] in cand and s['lhs']['l'] not in bad:
                        rv = s['rv']
                        if rv['k'] == 'use' and 'l' in rv['op'] and rv['op']['l'] in bad:
                            bad.add(s['lhs']['l'])
                            changed = True
        self._bl = cand - bad
        return self._bl

    # -- path-sensitive environment ------------------------------------------
    SCALARS = ('bool', 'u8', 'u16', 'u32', 'u64', 'usize', 'i8', 'i16', 'i32', 'i64', 'isize', 'u128', 'i128')

    def _stable_locals(self):
        """scalar locals that are only written as a whole and whose address is never taken: their value can only
        change at an assignment, so what a switch learned about them stays true until then"""
        if getattr(self, '_sl', None) is not None:
            return self._sl
        cand = {i for i, l in enumerate(self.locals) if l['ty'] in self.SCALARS}
        bad = set()
        for blk in self.blocks:
            for s in blk['stmts']:
                if s['k'] != 'assign':
                    continue
                if s['lhs']['p'] and s['lhs']['l'] in cand:
                    bad.add(s['lhs']['l'])
                rv = s['rv']
                # a shared borrow cannot change a plain scalar; only `&mut` / raw pointers disqualify
                if rv['k'] in ('ref', 'rawptr') and rv.get('place', {}).get('l') in cand and (rv.get('mut') or rv['k'] == 'rawptr'):
                    bad.add(rv['place']['l'])
            t = blk['term']
            if t['k'] == 'call' and t['dest']['p'] and t['dest']['l'] in cand:
                bad.add(t['dest']['l'])
        self._sl = cand - bad
        return self._sl

    VARIANT_PRESERVING = ('std::ops::Try::branch', 'std::result::Result::<T, E>::map', 'std::result::Result::<T, E>::map_err',
                          'std::option::Option::<T>::map', 'std::result::Result::<T, E>::inspect_err', 'std::result::Result::<T, E>::inspect')

    DISCR_TESTS = {
        'std::option::Option::<T>::is_none': ('std::option::Option', {1: 0, 0: 1}),
        'std::option::Option::<T>::is_some': ('std::option::Option', {1: 1, 0: 0}),
        'std::result::Result::<T, E>::is_ok': ('std::result::Result', {1: 0, 0: 1}),
        'std::result::Result::<T, E>::is_err': ('std::result::Result', {1: 1, 0: 0}),
    }

    def _frozen_enums(self):
        """locals whose discriminant can only change by a whole assignment (never mutably borrowed, no partial write)"""
        if getattr(self, '_fe', None) is not None:
            return self._fe
        bad = set()
        for blk in self.blocks:
            for s in blk['stmts']:
                if s['k'] != 'assign':
                    continue
                if s['lhs']['p']:
                    bad.add(s['lhs']['l'])
                rv = s['rv']
                if rv['k'] in ('ref', 'rawptr') and rv.get('mut') and 'l' in rv.get('place', {}):
                    bad.add(rv['place']['l'])
            t = blk['term']
            if t['k'] == 'call' and t['dest']['p']:
                bad.add(t['dest']['l'])
        self._fe = set(range(len(self.locals))) - bad
        return self._fe

    def _forget_enum(self, envd, x):
        envd.pop(('D', x), None)
        envd.pop(('P', x), None)
        for k in [k for k in envd if isinstance(k, tuple) and k[0] == 'D' and isinstance(k[1], tuple) and k[1][0] == x]:
            envd.pop(k, None)
        for k in [k for k, v in envd.items() if isinstance(k, tuple) and k[0] in ('R', 'DA') and (v == x or (isinstance(v, tuple) and v[0] == x))]:
            envd.pop(k, None)

    def cval(self, op):
        """value of a constant operand, including named constants fixed by specialise()"""
        v = const_val(op)
        if v is None and op.get('k') == 'const' and op.get('def'):
            for suf, val in getattr(self, 'const_overrides', {}).items():
                if op['def'].endswith(suf):
                    return int(val)
        return v

    def _env_resolve(self, envd, pl):
        """the stable scalar local a place denotes when it is reached through known shared references
        (`*r`, `(*env).0` of an inlined closure, ...); the local itself for a bare local; None otherwise"""
        cur = pl['l']
        isref = False       # cur is the referent (False) or we still hold a reference value to deref
        ps = list(pl['p'])
        i = 0
        while i < len(ps):
            p_ = ps[i]
            if p_['k'] == 'deref':
                if ('RF', cur) in envd:
                    cur = envd[('RF', cur)]
                else:
                    return None
            elif p_['k'] == 'field':
                # field holding a reference: must be followed by a deref
                if ('FR', cur, p_.get('i')) in envd and i + 1 < len(ps) and ps[i + 1]['k'] == 'deref':
                    cur = envd[('FR', cur, p_.get('i'))]
                    i += 1
                else:
                    return None
            else:
                return None
            i += 1
        return cur

    def promoted_option(self, op):
        """(vidx, payload) of a promoted `&None` / `&Some(<integer>)` constant, read from the promoted body"""
        if op.get('k') != 'const' or not op.get('promoted'):
            return None
        m = re.search(r'promoted\[(\d+)\]$', op.get('text') or '')
        proms = self.j.get('promoted') or []
        if not m or int(m.group(1)) >= len(proms):
            return None
        vals = {}
        for s_ in proms[int(m.group(1))]:
            if s_.get('k') != 'assign' or s_['lhs']['p']:
                continue
            rv = s_['rv']
            if rv['k'] == 'agg' and rv.get('adt') == 'std::option::Option':
                if rv.get('vidx') == 0:
                    vals[s_['lhs']['l']] = (0, None)
                elif len(rv['ops']) == 1 and const_val(rv['ops'][0]) is not None:
                    vals[s_['lhs']['l']] = (1, const_val(rv['ops'][0]))
            elif rv['k'] == 'ref' and not rv['place']['p'] and rv['place']['l'] in vals and s_['lhs']['l'] == 0:
                return vals[rv['place']['l']]
        return None

    def _opt_value(self, envd, op):
        """(vidx, payload) of the Option<integer> a reference operand points to: a local whose variant and payload
        the environment knows, or a promoted constant"""
        if 'l' not in op or op['p']:
            return self.promoted_option(op)
        x = op['l']
        if ('RF', x) in envd:
            tgt = envd[('RF', x)]
            d = envd.get(('D', tgt))
            if d == 0:
                return (0, None)
            if d == 1 and envd.get(('P', tgt), (None,))[0] == 1:
                return (1, envd[('P', tgt)][1])
            return None
        d = self.single_def(x)
        if d and d[1] == 'assign':
            rv = d[2]
            if rv['k'] == 'use':
                return self.promoted_option(rv['op']) if rv['op'].get('k') == 'const' else (self._opt_value(envd, rv['op']) if not rv['op'].get('p') else None)
            if rv['k'] == 'ref' and not rv.get('mut') and len(rv['place']['p']) == 1 and rv['place']['p'][0]['k'] == 'deref':
                return self._opt_value(envd, {'l': rv['place']['l'], 'p': []})
        return None

    def _env_operand(self, envd, op):
        """value of an operand under the environment (constants, known scalar locals, the payload of an enum local
        whose payload value is known); None when unknown"""
        if op.get('k') == 'const':
            return self.cval(op)
        if 'l' not in op:
            return None
        if not op['p']:
            l = op['l']
            return envd.get(l, envd.get(envd.get(('A', l), l)))
        ps = op['p']
        if any(p_['k'] == 'deref' for p_ in ps):
            tgt = self._env_resolve(envd, op)
            if tgt is not None:
                return envd.get(tgt, envd.get(envd.get(('A', tgt), tgt)))
        if len(ps) == 1 and ps[0]['k'] == 'field' and ('F', op['l'], ps[0].get('i')) in envd:
            return envd[('F', op['l'], ps[0].get('i'))]
        if len(ps) == 2 and ps[0]['k'] == 'downcast' and ps[1]['k'] == 'field' and ps[1].get('i') == 0:
            pv = envd.get(('P', op['l']))
            if pv is not None and pv[0] == ps[0].get('vidx'):
                return pv[1]
        return None

    _CMP = {'Eq': lambda a, b: a == b, 'Ne': lambda a, b: a != b, 'Lt': lambda a, b: a < b, 'Le': lambda a, b: a <= b,
            'Gt': lambda a, b: a > b, 'Ge': lambda a, b: a >= b}

    def _env_rvalue(self, envd, rv):
        if rv is None:
            return None
        k = rv['k']
        if k == 'use':
            return self._env_operand(envd, rv['op'])
        if k == 'bin' and rv.get('op') in self._CMP:
            a, b = self._env_operand(envd, rv['a']), self._env_operand(envd, rv['b'])
            if a is not None and b is not None:
                return int(self._CMP[rv['op']](a, b))
        if k == 'bin' and rv.get('op') in ('BitOr', 'BitAnd', 'BitXor'):
            # `errno == libc::EINTR | libc::ECANCELED` is a comparison with one known value
            a, b = self._env_operand(envd, rv['a']), self._env_operand(envd, rv['b'])
            if isinstance(a, int) and isinstance(b, int) and not isinstance(a, bool) and not isinstance(b, bool) and a >= 0 and b >= 0:
                return {'BitOr': a | b, 'BitAnd': a & b, 'BitXor': a ^ b}[rv['op']]
        if k == 'un' and rv.get('op') == 'Not' and (rv.get('ty') == 'bool' or rv['a'].get('ty') == 'bool'):
            a = self._env_operand(envd, rv['a'])
            if a is not None:
                return 1 - a
        return None

    def _env_assign(self, envd, x, rv, stable):
        """effect of `x = rv` (x a whole local) on the environment"""
        def forget(l):
            envd.pop(l, None)
            envd.pop(('A', l), None)
            for k in [k for k, v in envd.items() if isinstance(k, tuple) and v == l]:
                envd.pop(k, None)
        self._forget_enum(envd, x)
        for k in [k for k in envd if isinstance(k, tuple) and k[0] in ('F', 'FR', 'RF', 'FD') and k[1] == x]:
            envd.pop(k, None)
        # shared references to tracked scalars (a closure capturing a flag by reference, then inlined)
        if rv is not None:
            if rv['k'] == 'ref' and not rv.get('mut') and 'l' in rv['place']:
                tgt = self._env_resolve(envd, rv['place'])
                if tgt is not None:
                    envd[('RF', x)] = tgt
            elif rv['k'] == 'use' and 'l' in rv['op'] and not rv['op']['p'] and ('RF', rv['op']['l']) in envd:
                envd[('RF', x)] = envd[('RF', rv['op']['l'])]
            elif rv['k'] == 'use' and 'l' in rv['op'] and not rv['op']['p']:
                # a moved/copied aggregate keeps the references its fields hold (closure passed by value)
                for k in [k for k in envd if isinstance(k, tuple) and k[0] == 'FR' and k[1] == rv['op']['l']]:
                    envd[('FR', x, k[2])] = envd[k]
            elif rv['k'] == 'use' and 'l' in rv['op'] and len(rv['op']['p']) == 1 and rv['op']['p'][0]['k'] == 'field' \
                    and ('FR', rv['op']['l'], rv['op']['p'][0].get('i')) in envd:
                envd[('RF', x)] = envd[('FR', rv['op']['l'], rv['op']['p'][0].get('i'))]
            elif rv['k'] == 'agg':
                for i_, o_ in enumerate(rv.get('ops', [])):
                    if 'l' in o_ and not o_['p'] and ('RF', o_['l']) in envd:
                        envd[('FR', x, i_)] = envd[('RF', o_['l'])]
        # enum values travelling inside a tuple/struct (`let (kind, ptr) = untag(x); match kind {..}`): the variant of a field
        if rv is not None:
            if rv['k'] == 'agg' and rv.get('ak') in ('tuple', 'adt') and rv.get('vidx') in (None, 0):
                for i_, o_ in enumerate(rv.get('ops', [])):
                    if 'l' in o_ and not o_['p'] and ('D', o_['l']) in envd:
                        envd[('FD', x, i_)] = envd[('D', o_['l'])]
            elif rv['k'] == 'use' and 'l' in rv['op'] and not rv['op']['p']:
                for k in [k for k in envd if isinstance(k, tuple) and k[0] == 'FD' and k[1] == rv['op']['l']]:
                    envd[('FD', x, k[2])] = envd[k]
            elif rv['k'] == 'use' and 'l' in rv['op'] and len(rv['op']['p']) == 1 and rv['op']['p'][0]['k'] == 'field' \
                    and ('FD', rv['op']['l'], rv['op']['p'][0].get('i')) in envd and x in self._frozen_enums():
                envd[('D', x)] = envd[('FD', rv['op']['l'], rv['op']['p'][0].get('i'))]
        # fields of a freshly built tuple/struct whose values are known (`match (flag, x) { (true, _) => ..`)
        if rv is not None and rv['k'] == 'agg' and rv.get('ak') in ('tuple', 'adt') and x in self._frozen_enums() and rv.get('vidx') in (None, 0):
            for i_, o_ in enumerate(rv.get('ops', [])):
                v_ = self._env_operand(envd, o_)
                if v_ is not None:
                    envd[('F', x, i_)] = v_
        # enum facts: the variant of a freshly built aggregate, and moves/copies of a whole enum local
        if rv is not None and x in self._frozen_enums():
            if rv['k'] == 'agg' and rv.get('ak') == 'adt' and isinstance(rv.get('vidx'), int) and rv.get('variant') is not None:
                envd[('D', x)] = rv['vidx']
            elif rv['k'] == 'use' and 'l' in rv['op'] and not rv['op']['p'] and ('D', rv['op']['l']) in envd:
                envd[('D', x)] = envd[('D', rv['op']['l'])]
                if ('P', rv['op']['l']) in envd:
                    envd[('P', x)] = envd[('P', rv['op']['l'])]
        if x not in stable:
            return
        if rv is not None and rv['k'] == 'discr' and 'l' in rv.get('place', {}) and rv['place']['l'] in self._frozen_enums():
            # whole locals are keyed by their number, projected places (`*direction`, `(*args).1`) by base + path
            e = rv['place']['l'] if not rv['place']['p'] else place_key(rv['place'])
            forget(x)
            envd[('DA', x)] = e
            if ('D', e) in envd:
                envd[x] = envd[('D', e)]
            return
        if rv is not None and rv['k'] == 'use' and rv['op'].get('k') == 'const' and self.cval(rv['op']) is not None:
            forget(x)
            envd[x] = self.cval(rv['op'])
        elif rv is not None and rv['k'] == 'use' and 'l' in rv['op'] and not rv['op']['p'] and rv['op']['l'] in stable and rv['op']['l'] != x:
            y = rv['op']['l']
            root = envd.get(('A', y), y)
            val = envd.get(y, envd.get(root))
            forget(x)
            envd[('A', x)] = root
            if val is not None:
                envd[x] = val
        else:
            val = self._env_rvalue(envd, rv)
            forget(x)
            if val is not None:
                envd[x] = val

    def _env_block(self, envd, bb, i, upto=None):
        stable = self._stable_locals()
        stmts = self.blocks[bb]['stmts']
        n = len(stmts) if upto is None else upto
        for k in range(i, n):
            s = stmts[k]
            if s['k'] == 'assign' and not s['lhs']['p']:
                self._env_assign(envd, s['lhs']['l'], s['rv'], stable)

    def _env_succs(self, bb, envd):
        """successors of bb with the environment that holds on each edge"""
        stable = self._stable_locals()
        t = self.blocks[bb]['term']
        succs = self.succ[bb]
        if t['k'] == 'call' and not t['dest']['p']:
            e2 = dict(envd)
            self._env_assign(e2, t['dest']['l'], None, stable)
            # variant-preserving calls: `?` (Try::branch: Ok/Some -> Continue, Err/None -> Break) and map/map_err
            cal = t.get('callee') or ''
            if cal in self.VARIANT_PRESERVING and t['args'] and 'l' in t['args'][0] and not t['args'][0]['p'] \
                    and ('D', t['args'][0]['l']) in envd and t['dest']['l'] in self._frozen_enums():
                dv = envd[('D', t['args'][0]['l'])]
                if cal == 'std::ops::Try::branch' and 'std::option::Option' in (t['args'][0].get('ty') or ''):
                    dv = 1 - dv  # None(0) -> Break(1), Some(1) -> Continue(0)
                e2[('D', t['dest']['l'])] = dv
            # the early-return value of `?`: always the failure variant (Err for a Result, None for an Option)
            if cal == 'std::ops::FromResidual::from_residual' and t['dest']['l'] in self._frozen_enums():
                dty = t['dest'].get('ty') or ''
                if dty.startswith('std::result::Result<'):
                    e2[('D', t['dest']['l'])] = 1
                elif dty.startswith('std::option::Option<'):
                    e2[('D', t['dest']['l'])] = 0
            # `errno == Some(libc::EINTR)` on an Option<integer>: decided when both sides are known
            if cal in ('std::cmp::PartialEq::eq', 'std::cmp::PartialEq::ne') and len(t['args']) == 2 and t['dest']['l'] in stable \
                    and re.match(r'^<std::option::Option<[iu](8|16|32|64|size)> as ', t.get('callee_full') or ''):
                a, b = self._opt_value(envd, t['args'][0]), self._opt_value(envd, t['args'][1])
                if a is not None and b is not None:
                    e2[t['dest']['l']] = int((a == b) == (cal.endswith('::eq')))
            dt = self.DISCR_TESTS.get(t.get('callee') or '')
            if dt and t['args'] and 'l' in t['args'][0] and not t['args'][0]['p']:
                d = self.single_def(t['args'][0]['l'])
                if d and d[1] == 'assign' and d[2]['k'] == 'ref' and not d[2].get('mut') and not d[2]['place']['p'] and d[2]['place']['l'] in self._frozen_enums():
                    e2[('R', t['dest']['l'])] = (d[2]['place']['l'], t.get('callee'))
                    if ('D', d[2]['place']['l']) in e2 and t['dest']['l'] in stable:
                        inv = {v: k for k, v in dt[1].items()}
                        if e2[('D', d[2]['place']['l'])] in inv:
                            e2[t['dest']['l']] = inv[e2[('D', d[2]['place']['l'])]]
            return [(x, e2) for x in succs]
        if t['k'] == 'switch' and 'l' in t['discr'] and t['discr']['p']:
            known = self._env_operand(envd, t['discr'])
            if known is not None:
                vals = {int(x): tgt for x, tgt in t['targets']}
                only = vals.get(known, t['otherwise'])
                return [(x, envd) for x in succs if x == only]
        if t['k'] == 'switch' and 'l' in t['discr'] and not t['discr']['p'] and t['discr']['l'] in stable:
            d = t['discr']['l']
            root = envd.get(('A', d), d)
            known = envd.get(d, envd.get(root))
            vals = [(int(x), tgt) for x, tgt in t['targets']]
            if known is not None:
                only = dict(vals).get(known, t['otherwise'])
                return [(x, envd) for x in succs if x == only]
            out = []
            for x in succs:
                hits = [v for v, tgt in vals if tgt == x]
                learn = None
                if len(hits) == 1 and x != t['otherwise']:
                    learn = hits[0]
                elif not hits and x == t['otherwise'] and t.get('discr_ty') == 'bool' and len(vals) == 1:
                    learn = 1 - vals[0][0]
                if learn is None:
                    out.append((x, envd))
                else:
                    e2 = dict(envd)
                    e2[d] = learn
                    e2[root] = learn
                    for q in (d, root):
                        if ('R', q) in e2:
                            en, callee = e2[('R', q)]
                            m = self.DISCR_TESTS[callee][1]
                            if learn in m:
                                e2[('D', en)] = m[learn]
                        if ('DA', q) in e2:
                            e2[('D', e2[('DA', q)])] = learn
                    out.append((x, e2))
            return out
        return [(x, envd) for x in succs]

    def _seed_env(self, bb, depth=8, upto=0):
        """what is known on entry to bb because every path into it comes along one chain of single-predecessor
        edges (e.g. the `true` target of `if done`): the facts the switches on that chain establish"""
        chain = [bb]
        cur = bb
        for _ in range(depth):
            ps = [p for p in self.pred[cur] if not self.blocks[p]['cleanup']]
            if len(ps) != 1 or ps[0] in chain:
                break
            cur = ps[0]
            chain.append(cur)
        chain.reverse()
        envd = {}
        for a, b in zip(chain, chain[1:]):
            self._env_block(envd, a, 0)
            nxt = [e for x, e in self._env_succs(a, envd) if x == b]
            envd = dict(nxt[0]) if nxt else {}
        # a start in the middle of a block: what the statements before it established holds as well
        if upto:
            self._env_block(envd, bb, 0, upto=upto)
        return envd

    def forward_paths_hit(self, starts, targets, blockers=(), stop_at_targets=True, track_bools=True, arm_at=None, env0=None, stop_env=None):
        """Location-level forward search over normal edges.
        Returns the first target location reachable from any start without
        crossing a blocker location (a blocker stops the path *at* it), plus the
        path (list of bbs).  None if no target reachable.
        The search is path-sensitive for scalar locals whose address is never taken: constants assigned to
        them, copies, and what a switch on them (or on a copy) established hold until the next assignment, so
        `let done = c.complete(); if done {..} if !done {..}` does not create infeasible paths."""
        targets = set(targets)
        blockers = set(blockers)
        tb = defaultdict(list)
        for t in targets:
            tb[t[0]].append(t[1])
        bl = defaultdict(list)
        for t in blockers:
            bl[t[0]].append(t[1])
        seen = set()
        dq = deque()
        if arm_at is not None:
            # search from the function entry (so that drop flags have known values); targets and
            # blockers only count after the path has passed `arm_at`
            return self._armed_search(arm_at, targets, blockers, track_bools)
        for s in starts:
            e0 = self._seed_env(s[0], upto=s[1]) if track_bools else {}
            if env0:
                e0 = dict(e0, **{k: v for k, v in env0.items()}) if False else {**e0, **env0}
            dq.append((s[0], s[1], (s[0],), frozenset(e0.items())))
        while dq:
            bb, i, path, env = dq.popleft()
            if (bb, i, env) in seen:
                continue
            seen.add((bb, i, env))
            # paths on which a caller-given fact holds are not followed further (e.g. "the slot is known to be empty")
            if stop_env is not None and stop_env(dict(env)):
                continue
            cands = [x for x in tb.get(bb, []) if x >= i]
            blks = [x for x in bl.get(bb, []) if x >= i]
            first_t = min(cands) if cands else None
            first_b = min(blks) if blks else None
            if first_t is not None and (first_b is None or first_t < first_b):
                return Loc(bb, first_t), list(path)
            if first_b is not None:
                continue
            if track_bools:
                envd = dict(env)
                self._env_block(envd, bb, i)
                nxt = self._env_succs(bb, envd)
            else:
                nxt = [(x, {}) for x in self.succ[bb]]
            for s, e2 in nxt:
                env2 = frozenset(e2.items())
                if (s, 0, env2) not in seen:
                    dq.append((s, 0, path + (s,), env2))
        return None

    def feasible_blocks(self):
        """blocks on some value-feasible path from the entry, falling back to plain CFG reachability when the
        path-sensitive search would be too large"""
        fb = getattr(self, '_feasible', None)
        if fb is None:
            plain = self.reachable_blocks(0)
            try:
                fb = self.reach_blocks([Loc(0, 0)], limit=20000) & plain
            except OverflowError:
                fb = plain
            self._feasible = fb
        return fb

    def reach_blocks(self, starts, env0=None, blockers=(), limit=None, edges_out=None):
        """blocks entered on some path from starts (path-sensitive, like forward_paths_hit), not continuing
        through blocker locations"""
        blockers = set(blockers)
        bl = defaultdict(list)
        for t in blockers:
            bl[t[0]].append(t[1])
        seen = set()
        out = set()
        dq = deque()
        for s in starts:
            e0 = {**self._seed_env(s[0], upto=s[1]), **(env0 or {})}
            dq.append((s[0], s[1], frozenset(e0.items())))
        while dq:
            bb, i, env = dq.popleft()
            if (bb, i, env) in seen:
                continue
            seen.add((bb, i, env))
            if limit is not None and len(seen) > limit:
                raise OverflowError('state limit')
            out.add(bb)
            if [x for x in bl.get(bb, []) if x >= i]:
                continue
            envd = dict(env)
            self._env_block(envd, bb, i)
            for s2, e2 in self._env_succs(bb, envd):
                if edges_out is not None:
                    edges_out.add((bb, s2))
                dq.append((s2, 0, frozenset(e2.items())))
        return out

    def reaching_defs(self, starts, at, local, env0=None):
        """definition locations of `local` (and of the locals it was copied from) that can reach location `at` on a
        feasible path from starts (path-sensitive like forward_paths_hit); 'entry' stands for no definition on the path"""
        roots = {local}
        work = [local]
        while work:
            l = work.pop()
            for loc, kind, payload in self.defs.get(l, []):
                if kind == 'assign' and payload['k'] == 'use' and 'l' in payload['op'] and payload['op']['l'] not in roots \
                        and all(p_['k'] == 'field' for p_ in payload['op']['p']):
                    roots.add(payload['op']['l'])
                    work.append(payload['op']['l'])
                # an integer cast carries its operand
                if kind == 'assign' and payload['k'] == 'cast' and 'l' in payload['op'] and not payload['op']['p'] and payload['op']['l'] not in roots:
                    roots.add(payload['op']['l'])
                    work.append(payload['op']['l'])
                # a one-field wrapper (union arm, newtype) carries its operand
                if kind == 'assign' and payload['k'] == 'agg' and len(payload.get('ops', [])) == 1 and 'l' in payload['ops'][0] \
                        and not payload['ops'][0]['p'] and payload['ops'][0]['l'] not in roots:
                    roots.add(payload['ops'][0]['l'])
                    work.append(payload['ops'][0]['l'])
        out = set()
        seen = set()
        dq = deque()
        for s_ in starts:
            e0 = {**self._seed_env(s_[0], upto=s_[1]), **(env0 or {})}
            dq.append((s_[0], s_[1], frozenset(e0.items()), (('V', local, 'entry'),)))
        while dq:
            bb, i, env, last = dq.popleft()
            if (bb, i, env, last) in seen:
                continue
            seen.add((bb, i, env, last))
            lastd = {k[1]: k[2] for k in last}
            stmts = self.blocks[bb]['stmts']
            envd = dict(env)
            stop = False
            for k in range(i, len(stmts) + 1):
                if Loc(bb, k) == at:
                    out.add(lastd.get(local, 'entry'))
                    stop = True
                    break
                if k < len(stmts):
                    st = stmts[k]
                    if st['k'] == 'assign' and not st['lhs']['p'] and st['lhs']['l'] in roots:
                        x = st['lhs']['l']
                        rv = st['rv']
                        if rv['k'] == 'use' and 'l' in rv['op'] and not rv['op']['p'] and rv['op']['l'] in roots:
                            # (a source defined before the start of the search: its static definition, if unique)
                            lastd[x] = lastd.get(rv['op']['l'], ('S', rv['op']['l']) if self.single_def(rv['op']['l']) else 'entry')
                        elif rv['k'] == 'cast' and 'l' in rv['op'] and not rv['op']['p'] and rv['op']['l'] in roots:
                            lastd[x] = lastd.get(rv['op']['l'], ('S', rv['op']['l']) if self.single_def(rv['op']['l']) else 'entry')
                        elif rv['k'] == 'agg' and len(rv.get('ops', [])) == 1 and 'l' in rv['ops'][0] and not rv['ops'][0]['p'] and rv['ops'][0]['l'] in roots:
                            lastd[x] = lastd.get(rv['ops'][0]['l'], 'entry')
                        elif rv['k'] == 'use' and 'l' in rv['op'] and rv['op']['l'] in roots and all(p_['k'] == 'field' for p_ in rv['op']['p']):
                            # a field of a tuple/struct local: the definition of that local, narrowed to the field
                            lastd[x] = ('F', lastd.get(rv['op']['l'], 'entry'), tuple(p_.get('i') for p_ in rv['op']['p']))
                        else:
                            lastd[x] = Loc(bb, k)
                    self._env_block(envd, bb, k, k + 1)
            if stop:
                continue
            t = self.blocks[bb]['term']
            if t['k'] == 'call' and not t['dest']['p'] and t['dest']['l'] in roots:
                lastd[t['dest']['l']] = self.term_loc(bb)
            last2 = tuple(sorted((('V', k, v) for k, v in lastd.items()), key=repr))
            for s2, e2 in self._env_succs(bb, envd):
                dq.append((s2, 0, frozenset(e2.items()), last2))
        return out

    def _armed_search(self, arm_at, targets, blockers, track=True):
        targets, blockers = set(targets), set(blockers)
        seen = set()
        dq = deque([(0, frozenset(), False, (0,))])
        while dq:
            bb, env, armed, path = dq.popleft()
            if (bb, env, armed) in seen:
                continue
            seen.add((bb, env, armed))
            stmts = self.blocks[bb]['stmts']
            envd = dict(env)
            stop = False
            for k in range(len(stmts) + 1):
                loc = Loc(bb, k)
                if armed and loc in blockers:
                    stop = True
                    break
                if armed and loc in targets:
                    return loc, list(path)
                if loc == arm_at:
                    armed = True
                    continue
                if k < len(stmts) and track:
                    self._env_block(envd, bb, k, k + 1)
            if stop:
                continue
            nxt = self._env_succs(bb, envd) if track else [(x, {}) for x in self.succ[bb]]
            for s2, e2 in nxt:
                dq.append((s2, frozenset(e2.items()), armed, path + (s2,)))
        return None

    def reachable_locs(self, starts, blockers=()):
        """all locations reachable from starts without passing *through*
        blockers (blockers themselves are included as reached)."""
        blockers = set(blockers)
        bl = defaultdict(list)
        for t in blockers:
            bl[t[0]].append(t[1])
        seen_b = {}
        out = set()
        dq = deque((s[0], s[1]) for s in starts)
        while dq:
            bb, i = dq.popleft()
            if bb in seen_b and seen_b[bb] <= i:
                continue
            seen_b[bb] = i
            n = len(self.blocks[bb]['stmts'])
            blks = [x for x in bl.get(bb, []) if x >= i]
            end = min(blks) if blks else n
            for k in range(i, end + 1):
                out.add(Loc(bb, k))
            if blks:
                continue
            for s in self.succ[bb]:
                dq.append((s, 0))
        return out

    # -- switch helpers -----------------------------------------------------
    def switch_info(self, bb):
        """For a switch terminator, describe what is switched on.
        Returns dict(kind='enum'|'bool'|'int', place=?, variants={name: target},
        values={int: target}, otherwise=bb)"""
        t = self.term(bb)
        if t['k'] != 'switch':
            return None
        info = {'values': {int(v): tgt for v, tgt in t['targets']}, 'otherwise': t['otherwise'], 'bb': bb,
                'discr': t['discr'], 'discr_ty': t['discr_ty']}
        d = t['discr']
        info['kind'] = 'bool' if t['discr_ty'] == 'bool' else 'int'
        if 'l' in d and not d['p']:
            sd = None
            # the discriminant read is in the same block or a dominating one
            for loc, kind, payload in self.defs.get(d['l'], []):
                if kind == 'assign' and payload['k'] == 'discr':
                    sd = payload
            if sd is not None and 'variants' in sd:
                info['kind'] = 'enum'
                info['place'] = sd['place']
                info['adt'] = sd.get('adt')
                names = {int(v): n for v, n in sd['variants']}
                info['variant_names'] = names
                variants = {}
                for v, tgt in info['values'].items():
                    variants[names.get(v, str(v))] = tgt
                rest = [n for v, n in names.items() if v not in info['values']]
                info['otherwise_variants'] = rest
                info['variants'] = variants
        return info

    def enum_switches(self, adt=None):
        out = []
        for b, blk in enumerate(self.blocks):
            if blk['term']['k'] == 'switch':
                si = self.switch_info(b)
                if si and si['kind'] == 'enum' and (adt is None or si.get('adt') == adt):
                    out.append(si)
        return out

    def variant_edge(self, si, variant):
        """CFG edge taken when the enum has `variant` (None if impossible)."""
        if variant in si['variants']:
            return (si['bb'], si['variants'][variant])
        if variant in si.get('otherwise_variants', []):
            return (si['bb'], si['otherwise'])
        return None


def callee_matches(t, pred):
    names = [t.get('callee'), t.get('resolved'), t.get('callee_full'), t.get('resolved_full')]
    if callable(pred):
        return pred(t)
    if isinstance(pred, (list, tuple, set)):
        return any(n in pred for n in names[:2] if n)
    if isinstance(pred, re.Pattern):
        return any(n and pred.search(n) for n in names)
    return any(n == pred for n in names[:2] if n)


def callee_name(t):
    return t.get('resolved') or t.get('callee') or ('<indirect %s>' % t.get('func_ty'))


# ---------------------------------------------------------------------------
# expressions (symbolic, along single-definition chains)
# ---------------------------------------------------------------------------

TRANSPARENT_CALLS = {
    # callee path -> index of the argument whose value "is" the result, for
    # the purpose of access paths (wrappers that only re-borrow / unwrap).
    '<std::sync::Arc<T, A> as std::ops::Deref>::deref': 0,
    '<std::boxed::Box<T, A> as std::ops::Deref>::deref': 0,
    '<std::boxed::Box<T, A> as std::ops::DerefMut>::deref_mut': 0,
    '<std::sync::MutexGuard<\'_, T> as std::ops::Deref>::deref': 0,
    '<std::sync::MutexGuard<\'_, T> as std::ops::DerefMut>::deref_mut': 0,
    '<std::mem::ManuallyDrop<T> as std::ops::Deref>::deref': 0,
    '<std::mem::ManuallyDrop<T> as std::ops::DerefMut>::deref_mut': 0,
    '<std::pin::Pin<Ptr> as std::ops::Deref>::deref': 0,
    '<std::pin::Pin<Ptr> as std::ops::DerefMut>::deref_mut': 0,
    'std::pin::Pin::<&\'a mut T>::get_unchecked_mut': 0,
    'std::pin::Pin::<&\'a mut T>::get_mut': 0,
    'std::pin::Pin::<Ptr>::as_mut': 0,
    'std::pin::Pin::<Ptr>::new_unchecked': 0,
    'std::pin::Pin::<Ptr>::new': 0,
    'std::pin::Pin::<Ptr>::into_inner_unchecked': 0,
    'std::pin::Pin::<Ptr>::get_unchecked_mut': 0,
    'std::pin::Pin::<Ptr>::get_mut': 0,
    'std::pin::Pin::<Ptr>::as_ref': 0,
    'std::pin::Pin::<Ptr>::get_ref': 0,
    'std::ptr::NonNull::<T>::as_ptr': 0,
    'std::ptr::NonNull::<T>::as_ref': 0,
    'std::ptr::NonNull::<T>::as_mut': 0,
    'std::ptr::NonNull::<T>::cast': 0,
    'std::ptr::NonNull::<T>::new_unchecked': 0,
    'std::ptr::mut_ptr::<impl *mut T>::cast': 0,
    'std::ptr::const_ptr::<impl *const T>::cast': 0,
    'std::ptr::mut_ptr::<impl *mut T>::cast_const': 0,
    'std::ptr::const_ptr::<impl *const T>::cast_mut': 0,
    'std::ptr::from_ref': 0,
    'std::ptr::from_mut': 0,
    'std::convert::identity': 0,
    'std::cell::UnsafeCell::<T>::get': 0,
    'std::cell::UnsafeCell::<T>::get_mut': 0,
    'std::mem::MaybeUninit::<T>::as_ptr': 0,
    'std::mem::MaybeUninit::<T>::as_mut_ptr': 0,
    'std::mem::MaybeUninit::<T>::assume_init_ref': 0,
    'std::mem::MaybeUninit::<T>::assume_init_mut': 0,
    '<T as std::convert::Into<U>>::into': 0,
    '<T as std::convert::From<T>>::from': 0,
    '<&mut T as std::ops::DerefMut>::deref_mut': 0,
    '<&T as std::ops::Deref>::deref': 0,
    '<&mut T as std::ops::Deref>::deref': 0,
}


class Expr(tuple):
    """Immutable expression node: (kind, ...)"""
    __slots__ = ()

    @property
    def kind(self):
        return self[0]

    def __str__(self):
        return expr_str(self)


def E(*a):
    return Expr(a)


def expr_str(e):
    k = e[0]
    if k == 'const':
        return e[2] if e[2] is not None else str(e[1])
    if k == 'arg':
        return e[2] or ('arg%d' % e[1])
    if k == 'local':
        return e[2] or ('_%d' % e[1])
    if k == 'proj':
        s = expr_str(e[1])
        for p in e[2]:
            if p == '*':
                s = '(*%s)' % s
            else:
                s = s + p
        return s
    if k == 'ref':
        return '&' + expr_str(e[1])
    if k == 'bin':
        return '%s(%s, %s)' % (e[1], expr_str(e[2]), expr_str(e[3]))
    if k == 'un':
        return '%s(%s)' % (e[1], expr_str(e[2]))
    if k == 'cast':
        return '(%s as %s)' % (expr_str(e[4]), e[3])
    if k == 'call':
        return '%s(%s)' % (e[1], ', '.join(expr_str(a) for a in e[2]))
    if k == 'agg':
        return '%s{%s}' % (e[1], ', '.join(expr_str(a) for a in e[3]))
    if k == 'discr':
        return 'discriminant(%s)' % expr_str(e[1])
    if k == 'phi':
        return 'phi(%s)' % ', '.join(expr_str(a) for a in e[1])
    if k == 'repeat':
        return '[%s; %s]' % (expr_str(e[1]), e[2])
    return str(tuple(e))


class ExprBuilder:
    """Builds expressions for operands of one function, following definitions.
    multi: how to treat locals with several definitions: 'leaf' or 'phi'."""

    def __init__(self, f, multi='leaf', transparent=True, max_depth=40, inline=False, _inline_depth=0, choose=None):
        # choose: {local: location of the one definition to follow} — evaluates expressions under the assumption that
        # a multi-definition local (e.g. a tuple returned from several places) got its value there
        self.choose = choose or {}
        self.f = f
        self.multi = multi
        self.transparent = transparent
        self.max_depth = max_depth
        # inline: see through small, straight-line, crate-local helper functions (e.g. an extracted
        # `fn direct_index(fd) -> u32 { (fd + 1).cast_unsigned() }`) by substituting their return expression
        self.inline = inline
        self._inline_depth = _inline_depth

    def const_table(self, op):
        """the aggregate a named table constant of this crate is initialised with (`const T: [(u32, &str); N] = [..]`),
        as an expression; None for any other constant"""
        facts = getattr(self.f, 'facts', None)
        c = facts.consts.get(op.get('def_path') or '') if facts is not None and op.get('def_path') else None
        if not c or 'init' not in c or not (c.get('ty') or '').startswith(('[', '(')):
            return None
        vals = {}

        def ev(o):
            if o.get('k') == 'const':
                return E('const', const_val(o), o.get('def') or o.get('text'), o.get('ty'), None)
            if 'l' in o and not o['p'] and o['l'] in vals:
                return vals[o['l']]
            return E('unknown', 'const-init')
        for st in c['init']:
            if st.get('k') != 'assign' or st['lhs']['p']:
                continue
            rv = st['rv']
            if rv['k'] == 'agg':
                vals[st['lhs']['l']] = E('agg', rv.get('adt') or rv.get('ak'), tuple(rv.get('fields') or ()), tuple(ev(o) for o in rv['ops']))
            elif rv['k'] == 'use':
                vals[st['lhs']['l']] = ev(rv['op'])
        return vals.get(0)

    def const_alias(self, op):
        """a crate-local constant that only gives another name to a libc constant or to an enum variant
        (`const STATX_FLAGS: c_int = libc::AT_EMPTY_PATH;`, `const DEFAULT_KIND: Kind = Kind::File;`): the thing named"""
        facts = getattr(self.f, 'facts', None)
        c = facts.consts.get(op.get('def_path') or '') if facts is not None and op.get('def_path') else None
        if not c or not (1 <= len(c.get('init') or []) <= 3):
            return None
        vals = {}
        for st in c['init']:
            if st.get('k') != 'assign' or st['lhs']['p']:
                return None
            rv = st['rv']
            x = None
            if rv['k'] in ('use', 'cast'):
                o = rv['op']
                if o.get('k') == 'const' and re.match(r'^(io_uring::)?libc::\w+$', o.get('def') or ''):
                    x = E('const', const_val(o), o.get('def'), o.get('ty'), None)
                elif 'l' in o and not o['p'] and o['l'] in vals:
                    x = vals[o['l']]
            elif rv['k'] == 'agg' and rv.get('ak') == 'adt' and not rv.get('ops') and rv.get('variant'):
                x = E('agg', rv['adt'] + '::' + rv['variant'], tuple(rv.get('fields') or ()), ())
            if x is None:
                return None
            vals[st['lhs']['l']] = x
        return vals.get(0)

    def operand(self, op, depth=0, stack=()):
        if op.get('k') == 'const':
            v = const_val(op)
            if op.get('def_path') and not op.get('promoted'):
                al = self.const_alias(op)
                if al is not None:
                    return al
            if v is None and op.get('def_path') and not op.get('promoted'):
                tb = self.const_table(op)
                if tb is not None:
                    return tb
            if op.get('promoted'):
                # a promoted `&TABLE` (`TABLE.iter()` on a named table constant): a reference to the table's aggregate
                m = re.search(r'promoted\[(\d+)\]$', op.get('text') or '')
                proms = self.f.j.get('promoted') or []
                if m and int(m.group(1)) < len(proms):
                    body = [st for st in proms[int(m.group(1))] if st.get('k') == 'assign']
                    if len(body) == 2 and body[0]['rv']['k'] == 'use' and body[0]['rv']['op'].get('k') == 'const' and body[0]['rv']['op'].get('def_path') \
                            and body[1]['rv']['k'] == 'ref' and body[1]['lhs']['l'] == 0 and body[1]['rv']['place']['l'] == body[0]['lhs']['l'] and not body[1]['rv']['place']['p']:
                        tb = self.const_table(body[0]['rv']['op'])
                        if tb is not None:
                            return E('ref', tb)
            rb = op.get('ref_bytes')
            ri = op.get('ref_inner')
            if ri is not None:
                return E('const', v, op.get('def') or op.get('fn_full') or op.get('text'), op.get('ty'), tuple(rb) if rb is not None else None, tuple((o, tuple(bs)) for o, bs in ri))
            return E('const', v, op.get('def') or op.get('fn_full') or op.get('text'), op.get('ty'), tuple(rb) if rb is not None else None)
        if 'l' in op:
            return self.place(op, depth, stack)
        return E('unknown', op.get('text'))

    def place(self, pl, depth=0, stack=()):
        base = self.local(pl['l'], depth, stack)
        if not pl['p']:
            return base
        return simplify_proj(base, tuple(proj_str(p) for p in pl['p']), pl.get('ty'))

    def local(self, n, depth=0, stack=()):
        f = self.f
        if depth > self.max_depth or n in stack:
            return E('local', n, f.local_name(n))
        if getattr(self, '_reach', None) is None:
            # blocks that lie on a feasible path from the entry (value-driven: `match (kind, false) { (_, true) => .. }`
            # arms that can never run do not contribute definitions)
            self._reach = f.feasible_blocks()
        ds = [x for x in f.defs.get(n, []) if not f.blocks[x[0][0]]['cleanup'] and x[0][0] in self._reach]
        if n in self.choose:
            ds = [x for x in ds if x[0] == self.choose[n]]
        pw = f.partial_writes(n)
        if 1 <= n <= f.nargs and not ds:
            return E('arg', n, f.local_name(n))
        if n == 0 and not ds:
            return E('local', 0, '_0')
        if len(ds) == 1 and not pw:
            return self.definition(ds[0], depth + 1, stack + (n,))
        if len(ds) > 1 and self.multi == 'phi' and not pw:
            alts = []
            for d in ds:
                alts.append(self.definition(d, depth + 1, stack + (n,)))
            uniq = []
            for a in alts:
                if a not in uniq:
                    uniq.append(a)
            if len(uniq) == 1:
                return uniq[0]
            return E('phi', tuple(uniq))
        return E('local', n, f.local_name(n))

    def definition(self, d, depth, stack):
        loc, kind, payload = d
        if kind == 'call':
            return self.call(payload, depth, stack)
        return self.rvalue(payload, depth, stack)

    def call(self, t, depth=0, stack=()):
        name = t.get('callee') or '<indirect>'
        if not t['args'] and t.get('callee_full') and name in ('std::mem::size_of', 'std::mem::align_of'):
            name = t['callee_full']  # size_of::<T>() etc.: the type argument is the whole meaning
        args = tuple(self.operand(a, depth, stack) for a in t['args'])
        if self.transparent:
            idx = TRANSPARENT_CALLS.get(name)
            if idx is None and t.get('resolved'):
                idx = TRANSPARENT_CALLS.get(t['resolved'])
            if idx is not None and idx < len(args):
                # result "is" (a pointer to) the argument's referent
                return args[idx]
        if t.get('indirect'):
            return E('call', '<indirect>', (self.operand(t['func'], depth, stack),) + args, None)
        if self.inline and self._inline_depth < 2:
            inl = self._inline_call(t, args)
            if inl is not None:
                return inl
        return E('call', name, args, t.get('resolved'))

    def _inline_call(self, t, args):
        facts = getattr(self.f, 'facts', None)
        if facts is None:
            return None
        g = facts.fn_opt(t.get('resolved') or '') or facts.fn_opt(t.get('callee') or '')
        if g is None or g is self.f or g.kind == 'closure' or len(g.blocks) > 6 or g.nargs != len(args):
            return None
        # straight line only: every non-cleanup block has at most one normal successor
        for b, blk in enumerate(g.blocks):
            if not blk['cleanup'] and len(set(g.succ[b])) > 1:
                return None
        gb = ExprBuilder(g, multi='leaf', transparent=self.transparent, inline=True, _inline_depth=self._inline_depth + 1)
        ret = None
        n = 0
        for loc, s in g.assigns():
            if s['lhs']['l'] == 0 and not s['lhs']['p']:
                ret = gb.rvalue(s['rv'])
                n += 1
        for loc, tt in g.calls():
            if not tt['dest']['p'] and tt['dest']['l'] == 0:
                ret = gb.call(tt)
                n += 1
        if n != 1 or ret is None:
            return None
        if any(x[0] == 'local' for x in subexprs(ret)):
            return None
        return subst_args(ret, args)

    def rvalue(self, rv, depth=0, stack=()):
        k = rv['k']
        if k == 'use':
            return self.operand(rv['op'], depth, stack)
        if k in ('ref', 'rawptr'):
            inner = self.place(rv['place'], depth, stack)
            return simplify_ref(inner)
        if k == 'cast':
            a = self.operand(rv['op'], depth, stack)
            if rv['ck'] in ('PtrToPtr', 'PointerCoercion(MutToConstPointer, Implicit)',
                            'PointerCoercion(MutToConstPointer, AsCast)') and self.transparent:
                return a
            if rv['ck'].startswith('PointerCoercion(MutToConst') and self.transparent:
                return a
            return E('cast', rv['ck'], rv['from'], rv['to'], a)
        if k == 'bin':
            return E('bin', rv['op'], self.operand(rv['a'], depth, stack), self.operand(rv['b'], depth, stack))
        if k == 'un':
            return E('un', rv['op'], self.operand(rv['a'], depth, stack))
        if k == 'discr':
            return E('discr', self.place(rv['place'], depth, stack))
        if k == 'agg':
            name = rv.get('adt') or rv.get('ak')
            if rv.get('ak') == 'adt':
                name = rv['adt'] + '::' + rv['variant']
            return E('agg', name, tuple(rv.get('fields') or ()), tuple(self.operand(o, depth, stack) for o in rv['ops']))
        if k == 'repeat':
            return E('repeat', self.operand(rv['op'], depth, stack), rv['n'])
        return E('unknown', rv.get('text'))


def subst_args(e, args):
    """replace ('arg', i, name) leaves by args[i-1] throughout an expression"""
    if not isinstance(e, Expr):
        if isinstance(e, tuple):
            return tuple(subst_args(x, args) for x in e)
        return e
    if e[0] == 'arg' and 1 <= e[1] <= len(args):
        return args[e[1] - 1]
    if e[0] == 'proj':
        base = subst_args(e[1], args)
        return simplify_proj(base, e[2], e[3] if len(e) > 3 else None)
    if e[0] == 'ref':
        return simplify_ref(subst_args(e[1], args))
    return Expr(tuple(subst_args(x, args) if isinstance(x, (Expr, tuple)) else x for x in e))


def simplify_ref(inner):
    # &(*x) == x
    if inner[0] == 'proj' and inner[2] and inner[2][-1] == '*':
        rest = inner[2][:-1]
        if rest:
            # what was dereferenced is, by construction, pointer-typed
            return E('proj', inner[1], rest, '&<reborrowed>')
        return inner[1]
    return E('ref', inner)


def simplify_proj(base, projs, ty=None):
    """E('proj', base, projs, ty): ty is the type of the projected place when known"""
    projs = tuple(projs)
    # *(&x) == x
    while projs and projs[0] == '*' and base[0] == 'ref':
        base = base[1]
        projs = projs[1:]
    if not projs:
        return base
    if base[0] == 'proj':
        return E('proj', base[1], base[2] + projs, ty)
    # field of a known aggregate
    if base[0] == 'agg' and projs[0].startswith('.'):
        name = projs[0][1:]
        fields = base[2]
        idx = None
        if name in fields:
            idx = fields.index(name)
        elif name.isdigit() and int(name) < len(base[3]) and not fields:
            idx = int(name)
        if idx is not None and idx < len(base[3]):
            return simplify_proj(base[3][idx], projs[1:], ty)
    # `opt?`: the value continuing after Try::branch on an Option is the Some payload of the operand
    if base[0] == 'call' and base[1] == 'std::ops::Try::branch' and len(projs) >= 2 and projs[:2] == ('@Continue', '.0') \
            and (base[3] or '').startswith('<std::option::Option') and len(base[2]) == 1:
        return simplify_proj(base[2][0], ('@Some', '.0') + projs[2:], ty)
    # element of a known array literal at a constant index
    if base[0] == 'agg' and base[1] == 'array' and re.match(r'^\[\d+\]$', projs[0]) and int(projs[0][1:-1]) < len(base[3]):
        return simplify_proj(base[3][int(projs[0][1:-1])], projs[1:], ty)
    # downcast of a known aggregate: `Some{x}@Some` is the aggregate itself
    if base[0] == 'agg' and projs[0].startswith('@') and base[1].endswith('::' + projs[0][1:]):
        return simplify_proj(base, projs[1:], ty) if projs[1:] else base
    # `x@Some.0` where x is None on one path and Some{v} on another: reading the Some payload only concerns the
    # alternatives that built a Some (a value carried through a locally built Option / Result / enum)
    if base[0] == 'phi' and projs[0].startswith('@'):
        v = '::' + projs[0][1:]
        same = [a for a in base[1] if a[0] == 'agg' and a[1].endswith(v)]
        other = [a for a in base[1] if a[0] == 'agg' and '::' in a[1] and not a[1].endswith(v) and a[1].rsplit('::', 1)[0] == (same[0][1].rsplit('::', 1)[0] if same else None)]
        # the early-return value of `?` (FromResidual::from_residual) is never the success variant
        if projs[0] in ('@Some', '@Ok'):
            other += [a for a in base[1] if a[0] == 'call' and a[1] == 'std::ops::FromResidual::from_residual']
        unknown = [a for a in base[1] if a not in same and a not in other]
        if same and not unknown:
            outs = []
            for a in same:
                x = simplify_proj(a, projs, ty)
                if x not in outs:
                    outs.append(x)
            return outs[0] if len(outs) == 1 else E('phi', tuple(outs))
    return E('proj', base, projs, ty)


def proj_ty(e):
    return e[3] if e[0] == 'proj' and len(e) > 3 else None


def access_path(e):
    """Flatten an expression that is a pure access path into (root, 'a.b.c').
    Derefs are dropped. Returns None if not a pure path."""
    names = []
    while True:
        k = e[0]
        if k == 'proj':
            for p in reversed(e[2]):
                if p.startswith('.'):
                    names.append(p[1:])
                elif p == '*' or p.startswith('@'):
                    continue
                else:
                    names.append(p)
            e = e[1]
        elif k == 'ref':
            e = e[1]
        elif k in ('arg', 'local'):
            return (e, '.'.join(reversed(names)))
        else:
            return (e, '.'.join(reversed(names)))


def walk(e, fn):
    """pre-order walk over sub-expressions"""
    fn(e)
    for x in e[1:]:
        if isinstance(x, Expr):
            walk(x, fn)
        elif isinstance(x, tuple):
            for y in x:
                if isinstance(y, Expr):
                    walk(y, fn)


def subexprs(e):
    out = []
    walk(e, out.append)
    return out


def mentions(e, pred):
    return any(pred(x) for x in subexprs(e))


# ---------------------------------------------------------------------------
# facts
# ---------------------------------------------------------------------------

class Facts:
    def __init__(self, path):
        with open(path) as fh:
            self.j = json.load(fh)
        if self.j.get('crate') != 'a10':
            raise AnchorMissing('fact file is not for crate a10')
        # helper extraction / renaming since the reference tree is normalised away (see rules/inline.py)
        from . import inline
        self.notes = inline.normalise(self.j)
        self.funcs = {}
        self.func_list = []
        for fj in self.j['functions']:
            f = Func(fj, self)
            self.func_list.append(f)
            self.funcs.setdefault(f.path, []).append(f)
        self.adts = {a['path']: a for a in self.j['adts']}
        self.foreign_adts = {a['path']: a for a in self.j['foreign_adts']}
        self.traits = {t['path']: t for t in self.j['traits']}
        self.impls = self.j['impls']
        self.consts = {c['path']: c for c in self.j['consts']}
        self.layouts = {k: (sz, al) for k, sz, al in self.j.get('layouts', [])}
        self._callers = None

    def fn(self, path):
        fs = self.funcs.get(path)
        if not fs:
            raise AnchorMissing('function not found: %s' % path)
        if len(fs) > 1:
            raise AnchorMissing('function path ambiguous: %s (%d bodies)' % (path, len(fs)))
        return fs[0]

    def fn_opt(self, path):
        fs = self.funcs.get(path)
        return fs[0] if fs and len(fs) == 1 else None

    def fns(self, pattern):
        rx = re.compile(pattern) if isinstance(pattern, str) else pattern
        return [f for f in self.func_list if rx.search(f.path)]

    def adt(self, path):
        a = self.adts.get(path) or self.foreign_adts.get(path)
        if a is None:
            raise AnchorMissing('type not found: %s' % path)
        return a

    def const(self, path):
        c = self.consts.get(path)
        if c is None or 'val' not in c:
            raise AnchorMissing('constant not found/evaluated: %s' % path)
        return int(c['val'])

    def impls_of(self, trait):
        return [i for i in self.impls if i.get('trait') == trait and not i.get('negative')]

    def impl_fns(self, trait, method):
        """All bodies implementing `trait::method` (impl items), as Funcs."""
        out = []
        for i in self.impls_of(trait):
            for it in i['items']:
                if it['name'] == method:
                    f = self.fn_opt(it['path'])
                    if f is not None:
                        out.append((i, f))
        return out

    def has_impl(self, trait, adt_path):
        return any(i.get('self_adt') == adt_path for i in self.impls_of(trait))

    @property
    def callers(self):
        """callee path -> list of (Func, loc, term); includes fn-pointer
        mentions (kind 'ref') found as constants in statements."""
        if self._callers is None:
            c = defaultdict(list)
            for f in self.func_list:
                for loc, t in f.calls(cleanup=True):
                    for n in {t.get('callee'), t.get('resolved')}:
                        if n:
                            c[n].append((f, loc, t))
                for loc in f.locs(cleanup=True):
                    if f.is_term(loc):
                        continue
                    s = f.at(loc)
                    if s['k'] != 'assign':
                        continue
                    for op in rvalue_operands(s['rv']):
                        if op.get('k') == 'const' and 'fn' in op:
                            c[op['fn']].append((f, loc, {'k': 'fnref', 'fn': op['fn'], 'fn_full': op.get('fn_full')}))
            self._callers = c
        return self._callers


def rvalue_operands(rv):
    k = rv['k']
    if k in ('use', 'cast', 'repeat'):
        return [rv['op']]
    if k == 'bin':
        return [rv['a'], rv['b']]
    if k == 'un':
        return [rv['a']]
    if k == 'agg':
        return list(rv['ops'])
    return []


def rvalue_places(rv):
    """places read by an rvalue"""
    out = [o for o in rvalue_operands(rv) if 'l' in o]
    if rv['k'] in ('ref', 'rawptr', 'discr'):
        out.append(rv['place'])
    return out


# ---------------------------------------------------------------------------
# more CFG helpers
# ---------------------------------------------------------------------------

def _const_bool_block(f, bb):
    """block `bb` is exactly `_x = const true|false; goto J` (ignoring drop-flag
    bookkeeping) -> (x, value, J) else None"""
    blk = f.blocks[bb]
    if blk['term']['k'] != 'goto':
        return None
    found = None
    for s in blk['stmts']:
        if s['k'] != 'assign' or s['lhs']['p']:
            return None
        rv = s['rv']
        if rv['k'] == 'use' and rv['op'].get('k') == 'const' and rv['op'].get('ty') == 'bool':
            found = (s['lhs']['l'], const_val(rv['op']), blk['term']['target'])
        elif rv['k'] == 'use' and rv['op'].get('k') == 'const' and rv['op'].get('ty') == '()':
            continue
        else:
            return None
    return found


def effective_edge(f, edge):
    """If the target of `edge` only materialises a bool that the join block
    immediately switches on (the `matches!` lowering), return the edge out of
    the join for that value; otherwise the edge itself."""
    cb = _const_bool_block(f, edge[1])
    if cb is None:
        return edge
    x, val, j = cb
    t = f.term(j)
    if t['k'] != 'switch' or not is_local(t['discr'], x):
        return edge
    # every other definition of x must also be a const-bool block jumping to j
    for loc, kind, payload in f.defs.get(x, []):
        if f.blocks[loc[0]]['cleanup']:
            continue
        cb2 = _const_bool_block(f, loc[0])
        if cb2 is None or cb2[2] != j:
            return edge
    vals = {int(v): tgt for v, tgt in t['targets']}
    tgt = vals.get(val, t['otherwise']) if val in vals else (t['otherwise'] if val != 0 or 0 not in vals else vals[0])
    if val == 0:
        tgt = vals.get(0, t['otherwise'])
    else:
        tgt = vals.get(1, t['otherwise'])
    return (j, tgt)


def variant_edges(f, adt, variant, place_pred=None, cleanup=False):
    """all effective edges taken when a value of enum `adt` is `variant`;
    returns list of dict(edge, complement:[edges], si)"""
    out = []
    for si in f.enum_switches(adt):
        if f.blocks[si['bb']]['cleanup'] and not cleanup:
            continue
        if place_pred is not None and not place_pred(f, si['place']):
            continue
        e = f.variant_edge(si, variant)
        if e is None:
            continue
        comp = []
        for name in list(si['variants'].keys()) + list(si.get('otherwise_variants', [])):
            if name == variant:
                continue
            ce = f.variant_edge(si, name)
            if ce and ce[1] != e[1]:
                ee = effective_edge(f, ce)
                if ee not in comp:
                    comp.append(ee)
        shared_with = []
        for name in list(si['variants'].keys()) + list(si.get('otherwise_variants', [])):
            if name != variant:
                ce = f.variant_edge(si, name)
                if ce and ce[1] == e[1]:
                    shared_with.append(name)
        out.append({'edge': effective_edge(f, e), 'raw': e, 'complement': comp, 'si': si, 'shared_with': shared_with})
    return out


def guarded_by_variant(f, ve, loc):
    """loc can only be reached (without coming back to the dispatch) when the enum tested by `ve` has the variant
    of ve: decided on paths, so it also holds when the test result is kept in a flag (`let running = matches!(..);
    if running {..}`) instead of branching at once.  ve: an entry of variant_edges()."""
    si = ve['si']
    here = f.term_loc(si['bb'])
    names = list(si['variants'].keys()) + list(si.get('otherwise_variants', []))
    mine = ve['raw']
    for name in names:
        ce = f.variant_edge(si, name)
        if ce is None or ce[1] == mine[1]:
            continue
        if f.forward_paths_hit([Loc(ce[1], 0)], [loc], blockers=[here]) is not None:
            return False
    return f.forward_paths_hit([Loc(mine[1], 0)], [loc], blockers=[here]) is not None or f.edge_dominates(ve['edge'], loc)


def eval_int(f, eb, e, depth=0):
    """integer value of an expression built from constants (named constants fixed by specialise() and generic
    constants whose initialiser is in the facts included), casts, lossless conversions, bit operations and indexing of
    constant tables; None when it depends on anything else.  `addr | T::TAG`, `addr | TAGS[usize::from(T::IS_MULTISHOT)]`
    and `if T::IS_MULTISHOT { addr | 1 } else { addr | 0 }` give the same tag under the same specialisation."""
    if depth > 12 or not isinstance(e, tuple) or not e:
        return None
    k = e[0]
    if k == 'const':
        if isinstance(e[1], bool):
            return int(e[1])
        if isinstance(e[1], int):
            return e[1]
        name = str(e[2] or '')
        for suf, val in getattr(f, 'const_overrides', {}).items():
            if name.endswith(suf):
                return int(val)
        m = re.match(r'^<\w+ as (.*)>::(\w+)$', name)
        facts = getattr(f, 'facts', None)
        if m and facts is not None:
            cf = facts.fn_opt('%s::%s' % (m.group(1), m.group(2)))
            if cf is not None and cf.kind == 'const':
                g = cf
                for suf, val in getattr(f, 'const_overrides', {}).items():
                    g = specialise(g, suf, bool(val))
                eg = ExprBuilder(g, multi='phi')
                reach = g.feasible_blocks()
                vals = set()
                for loc, s_ in g.assigns():
                    if s_['lhs']['l'] == 0 and not s_['lhs']['p'] and loc[0] in reach:
                        vals.add(eval_int(g, eg, eg.rvalue(s_['rv']), depth + 1))
                if len(vals) == 1:
                    return next(iter(vals))
            # a required associated constant (no default): the value of the implementation selected by the constants
            # fixed so far — `T::USER_DATA_TAG` under IS_MULTISHOT = v is the TAG of the impl whose IS_MULTISHOT is v
            if m and facts is not None:
                tr, cn = m.group(1), m.group(2)
                impls = {}
                for path, c in facts.consts.items():
                    m2 = re.match(r'^<(.+) as %s>::(\w+)$' % re.escape(tr), path)
                    if m2 and c.get('val') is not None:
                        impls.setdefault(m2.group(1), {})[m2.group(2)] = int(c['val'])
                sel = []
                for ty_, cs_ in impls.items():
                    ok_ = cn in cs_
                    for suf, val in getattr(f, 'const_overrides', {}).items():
                        msuf = re.match(r'^(.*)>::(\w+)$', suf)
                        if msuf and tr.endswith(msuf.group(1)) and cs_.get(msuf.group(2)) is not None and cs_[msuf.group(2)] != int(val):
                            ok_ = False
                    if ok_:
                        sel.append(cs_[cn])
                if len(set(sel)) == 1 and getattr(f, 'const_overrides', {}):
                    return sel[0]
        return None
    if k == 'cast':
        return eval_int(f, eb, e[4], depth + 1)
    if k == 'call' and e[1] in ('std::convert::From::from', 'std::convert::Into::into') and len(e[2]) == 1:
        return eval_int(f, eb, e[2][0], depth + 1)
    if k == 'proj' and e[2] == ('.0',) and e[1][0] == 'bin':
        return eval_int(f, eb, e[1], depth + 1)
    if k == 'call' and e[1] in ('core::slice::<impl [T]>::len', 'core::array::<impl [T; N]>::len') and len(e[2]) == 1:
        # the length of an array literal viewed as a slice (`let fds = [-1]; .. fds.len()`)
        a = e[2][0]
        while a[0] in ('cast', 'ref'):
            a = a[4] if a[0] == 'cast' else a[1]
        if a[0] == 'agg' and a[1] == 'array':
            return len(a[3])
        return None
    if k == 'bin':
        op = e[1].replace('WithOverflow', '').replace('Unchecked', '')
        if op in _BINOPS:
            a, b = eval_int(f, eb, e[2], depth + 1), eval_int(f, eb, e[3], depth + 1)
            if a is not None and b is not None:
                return int(_BINOPS[op](a, b))
        return None
    if k == 'proj' and len(e[2]) == 1 and e[1][0] == 'agg' and e[1][1] == 'array':
        m = re.match(r'^\[_(\d+)\]$', e[2][0])
        idx = None
        if m and eb is not None:
            idx = eval_int(f, eb, eb.local(int(m.group(1))), depth + 1)
        m2 = re.match(r'^\[(\d+)\]$', e[2][0])
        if m2:
            idx = int(m2.group(1))
        if idx is not None and 0 <= idx < len(e[1][3]):
            return eval_int(f, eb, e[1][3][idx], depth + 1)
    if k == 'phi':
        vals = {eval_int(f, eb, a, depth + 1) for a in e[1]}
        if len(vals) == 1:
            return next(iter(vals))
    return None


def must_have_bits(f, bits, at, field='flags', struct_suffix=None, start=None):
    """forward must-analysis at bit level: does the `field` of the (one) struct it belongs to have all of `bits` set
    at location `at` on every path from the entry?  Values are followed through integer locals, copies, casts,
    `|`, `&`, struct literals and field stores — so `p.flags = A | B; if c { p.flags |= C }` and
    `let mut fl = A | B; if c { fl |= C }; p.flags = fl` are the same to it."""
    FIELD = 'FIELD'

    def key(pl):
        if not pl['p']:
            return pl['l']
        names = [p_.get('name') for p_ in pl['p'] if p_['k'] == 'field']
        if names and names[-1] == field and pl['p'][-1]['k'] == 'field':
            return FIELD
        return None

    def has(st, op):
        if op.get('k') == 'const':
            v = f.cval(op)
            return v is not None and (v & bits) == bits
        if 'l' not in op:
            return False
        k = key(op)
        return k is not None and k in st

    def xfer_stmt(st, s_):
        if s_['k'] != 'assign':
            return st
        k = key(s_['lhs'])
        rv = s_['rv']
        if rv['k'] == 'agg' and struct_suffix and (rv.get('adt') or '').endswith(struct_suffix) and not s_['lhs']['p']:
            i = rv['fields'].index(field) if field in (rv.get('fields') or []) else None
            st = set(st)
            st.discard(FIELD)
            if i is not None and has(st, rv['ops'][i]):
                st.add(FIELD)
            return st
        if k is None:
            return st
        kind = rv['k']
        if kind == 'use':
            v = has(st, rv['op'])
        elif kind == 'cast':
            v = has(st, rv['op'])
        elif kind == 'bin' and rv['op'] == 'BitOr':
            v = has(st, rv['a']) or has(st, rv['b'])
        elif kind == 'bin' and rv['op'] == 'BitAnd':
            v = has(st, rv['a']) and has(st, rv['b'])
        else:
            v = False
        st = set(st)
        (st.add if v else st.discard)(k)
        return st

    def xfer_term(st, t):
        if t['k'] == 'call' and not t['dest']['p']:
            st = set(st)
            st.discard(t['dest']['l'])
        return st
    n = len(f.blocks)
    out = [None] * n
    inn = [None] * n
    # start: (location, keys known to have the bits right after the statement there) — "does what was set here survive?"
    sb, si = (start[0][0], start[0][1] + 1) if start is not None else (0, 0)
    inn[sb] = set(start[1]) if start is not None else set()
    work = deque([sb])
    first = True
    while work:
        b = work.popleft()
        st = set(inn[b])
        stmts = f.blocks[b]['stmts']
        if first and start is not None:
            if at[0] == b and at[1] >= si:
                for s_ in stmts[si:at[1]]:
                    st = xfer_stmt(st, s_)
                return FIELD in st
            stmts = stmts[si:]
        first = False
        for s_ in stmts:
            st = xfer_stmt(st, s_)
        st = xfer_term(st, f.blocks[b]['term'])
        if out[b] is not None and out[b] == st:
            continue
        out[b] = st
        for s2 in f.succ[b]:
            if f.blocks[s2]['cleanup']:
                continue
            new = set(st) if inn[s2] is None else (inn[s2] & st)
            if inn[s2] is None or new != inn[s2]:
                inn[s2] = new
                work.append(s2)
            elif out[s2] is None:
                work.append(s2)
    if inn[at[0]] is None:
        return False if start is None else True     # (from `start` the location is not reachable: nothing to lose)
    st = set(inn[at[0]])
    for s_ in f.blocks[at[0]]['stmts'][:at[1]]:
        st = xfer_stmt(st, s_)
    return FIELD in st


def not_passed_through(f, t):
    """arguments of call terminator t that are not the caller's own parameter at the same position (moved, copied,
    reborrowed): list of (index, expression); empty when the call forwards its parameters unchanged"""
    lb = ExprBuilder(f, multi='leaf')
    bad = []
    for i_, a_ in enumerate(t['args']):
        e_ = lb.operand(a_)
        while e_[0] in ('cast', 'ref') or (e_[0] == 'proj' and tuple(e_[2]) == ('*',)):
            e_ = e_[4] if e_[0] == 'cast' else e_[1]
        if not (e_[0] == 'arg' and e_[1] == i_ + 1):
            bad.append((i_, e_))
    return bad


def correlated_alternatives(f, operands, multi='phi'):
    """expressions of several operands evaluated together, once per definition of a multi-definition aggregate local
    they all read from (`let (off, bytes) = if a { (0, x) } else { (1, y) }; copy(dst[off..], bytes)`): a list of
    tuples of expressions, one per alternative; a single tuple when the operands share no such local"""
    leaf = ExprBuilder(f, multi='leaf')
    shared = None
    for op in operands:
        ls = {x[1] for x in subexprs(leaf.operand(op)) if x[0] == 'local'}
        shared = ls if shared is None else (shared & ls)
    def alternatives(l, depth=0):
        """choose-dicts, one per way the value of multi-definition local l was built (following copies of whole locals)"""
        ds = [d for d in f.defs.get(l, []) if not f.blocks[d[0][0]]['cleanup']]
        if len(ds) < 2 or f.partial_writes(l) or depth > 3:
            return None
        out_ = []
        for d in ds:
            if d[1] == 'assign' and d[2]['k'] == 'agg':
                out_.append({l: d[0]})
            elif d[1] == 'assign' and d[2]['k'] == 'use' and 'l' in d[2]['op'] and not d[2]['op']['p']:
                sub = alternatives(d[2]['op']['l'], depth + 1)
                if sub is None:
                    out_.append({l: d[0]})
                else:
                    out_ += [dict(c_, **{l: d[0]}) for c_ in sub]
            elif d[1] == 'assign' and d[2]['k'] == 'use' and d[2]['op'].get('k') == 'const':
                out_.append({l: d[0]})
            else:
                return None
        return out_
    for l in sorted(shared or ()):
        alts = alternatives(l)
        if alts:
            out = []
            for ch in alts:
                eb = ExprBuilder(f, multi=multi, choose=ch)
                out.append(tuple(eb.operand(op) for op in operands))
            return out
    eb = ExprBuilder(f, multi=multi)
    return [tuple(eb.operand(op) for op in operands)]


def table_rows(e):
    """`for (a, b, ..) in [(..), (..)] { g(a, b) }`: the values an expression read from the loop variable takes, one
    per row of the array literal; None if e is not of that form"""
    if not (e[0] == 'proj' and e[1][0] == 'call' and e[1][1] == 'std::iter::Iterator::next' and tuple(e[2][:2]) == ('@Some', '.0')):
        return None
    it = e[1][2][0]
    while it[0] == 'ref':
        it = it[1]
    rows = None
    if it[0] == 'call' and it[1] == 'std::iter::IntoIterator::into_iter' and it[2] and it[2][0][0] == 'agg' and it[2][0][1] == 'array':
        rows = it[2][0][3]
    elif it[0] == 'call' and it[1] == 'core::slice::<impl [T]>::iter' and it[2]:
        # `TABLE.iter()`: the items are references to the rows
        a = it[2][0]
        while a[0] in ('cast', 'ref'):
            a = a[4] if a[0] == 'cast' else a[1]
        if a[0] == 'agg' and a[1] == 'array':
            rows = a[3]
    if rows is None:
        return None
    out = []
    for row in rows:
        x = row
        for p_ in e[2][2:]:
            if p_ == '*':
                continue
            if x[0] == 'agg' and x[1] == 'tuple' and re.match(r'^\.\d+$', p_) and int(p_[1:]) < len(x[3]):
                x = x[3][int(p_[1:])]
            else:
                return None
        out.append(x)
    return out


def table_loop_complete(f, loc):
    """the loop around call `loc` cannot be left early: after the call every path to a return passes the iterator's
    next() again (so every row is visited)"""
    t = f.at(loc)
    if t.get('target') is None:
        return False
    nexts = [l for l, t2 in f.calls() if (t2.get('callee') or '') == 'std::iter::Iterator::next']
    return bool(nexts) and f.forward_paths_hit([Loc(t['target'], 0)], f.returns(), blockers=nexts) is None


def result_edges(f, call_term):
    """(ok_edge, err_edge) for the Result produced by a call, matched either directly
    (`match r {Ok..,Err..}` / `if let`) or through `?` (Try::branch -> ControlFlow). None if not found."""
    dest = call_term['dest']['l']
    aliases = {dest}
    changed = True
    while changed:
        changed = False
        for loc, s in f.assigns():
            rv = s['rv']
            if rv['k'] == 'use' and 'l' in rv['op'] and not rv['op']['p'] and rv['op']['l'] in aliases and not s['lhs']['p'] and s['lhs']['l'] not in aliases:
                aliases.add(s['lhs']['l'])
                changed = True
    for si in f.enum_switches('std::result::Result'):
        if si['place']['l'] in aliases and not si['place']['p'] and not f.blocks[si['bb']]['cleanup']:
            return f.variant_edge(si, 'Ok'), f.variant_edge(si, 'Err')
    for loc, t in f.calls():
        if (t.get('callee') or '') == 'std::ops::Try::branch' and t['args'] and 'l' in t['args'][0] and t['args'][0]['l'] in aliases:
            for si in f.enum_switches('std::ops::ControlFlow'):
                if si['place']['l'] == t['dest']['l'] and not si['place']['p']:
                    return f.variant_edge(si, 'Continue'), f.variant_edge(si, 'Break')
    # `let ok = r.is_ok(); if ok {..}` / `if r.is_err() {..}`: the bool switch stands for the match
    for c in bool_call_switches(f, ('std::result::Result::<T, E>::is_ok', 'std::result::Result::<T, E>::is_err')):
        t = f.at(c['call_loc'])
        a = t['args'][0] if t['args'] else {}
        if 'l' not in a or a['p']:
            continue
        d = f.single_def(a['l'])
        src = None
        if a['l'] in aliases:
            src = a['l']
        elif d and d[1] == 'assign' and d[2]['k'] == 'ref' and not d[2]['place']['p'] and d[2]['place']['l'] in aliases:
            src = d[2]['place']['l']
        if src is None or c['true'] == c['false']:
            continue
        yes, no = (c['bb'], c['true']), (c['bb'], c['false'])
        return (yes, no) if t['callee'].endswith('is_ok') else (no, yes)
    return None


def bool_call_switches(f, callee_pred):
    """switches whose discriminant is (a copy of) the result of a call matching
    callee_pred: list of dict(bb, call_loc, true, false)"""
    out = []
    for b, blk in enumerate(f.blocks):
        t = blk['term']
        if blk['cleanup'] or t['k'] != 'switch' or 'l' not in t['discr'] or t['discr']['p']:
            continue
        l = t['discr']['l']
        seen = set()
        while True:
            d = f.single_def(l)
            if d is None or l in seen:
                d = None
                break
            seen.add(l)
            loc, kind, payload = d
            if kind == 'assign' and payload['k'] == 'use' and 'l' in payload['op'] and not payload['op']['p']:
                l = payload['op']['l']
                continue
            break
        if d is None:
            continue
        loc, kind, payload = d
        if kind == 'call' and callee_matches(payload, callee_pred):
            vals = {int(v): tgt for v, tgt in t['targets']}
            out.append({'bb': b, 'call_loc': loc, 'false': vals.get(0, t['otherwise']),
                        'true': vals.get(1, t['otherwise']) if 1 in vals else t['otherwise']})
    return out


def const_switches(f, def_suffix):
    """switches on a named (associated) constant, e.g. IS_MULTISHOT:
    list of dict(bb, true, false)"""
    out = []
    for b, blk in enumerate(f.blocks):
        t = blk['term']
        if t['k'] != 'switch' or 'l' not in t['discr'] or t['discr']['p']:
            continue
        d = f.single_def(t['discr']['l'])
        if d is None:
            continue
        loc, kind, payload = d
        if kind == 'assign' and payload['k'] == 'use' and payload['op'].get('k') == 'const' \
                and (payload['op'].get('def') or '').endswith(def_suffix):
            vals = {int(v): tgt for v, tgt in t['targets']}
            out.append({'bb': b, 'false': vals.get(0, t['otherwise']), 'true': vals.get(1, t['otherwise']) if 1 in vals else t['otherwise']})
    return out


def pruned(f, removed_edges):
    """a view of f with some CFG edges removed (specialisation)"""
    g = Func.__new__(Func)
    g.__dict__.update(f.__dict__)
    rem = set(removed_edges)
    g._succ = [[s for s in f.succ[b] if (b, s) not in rem] for b in range(len(f.blocks))]
    g._pred = None
    g._dom = None
    g._feasible = None
    return g


def specialise(f, def_suffix, value):
    """prune the CFG under `<..>::CONST == value`"""
    rem = []
    for cs in const_switches(f, def_suffix):
        dead = cs['false'] if value else cs['true']
        live = cs['true'] if value else cs['false']
        if dead != live:
            rem.append((cs['bb'], dead))
    g = pruned(f, rem)
    g.const_overrides = dict(getattr(f, 'const_overrides', {}))
    g.const_overrides[def_suffix] = 1 if value else 0
    # edges no value-feasible path takes under this constant go too
    # (`let next = if IS_MULTISHOT { results.next() } else { None }; let Some(r) = next else { .. }`: with the constant
    # false the Some edge is dead although no switch on the constant guards it)
    try:
        taken = set()
        g.reach_blocks([Loc(0, 0)], limit=20000, edges_out=taken)
        dead = [(b, s2) for b in range(len(g.blocks)) if not g.blocks[b]['cleanup'] for s2 in g.succ[b]
                if (b, s2) not in taken and not g.blocks[s2]['cleanup'] and any(b == tb for tb, _ in taken)]
        if dead:
            ov = g.const_overrides
            g = pruned(g, dead)
            g.const_overrides = ov
    except OverflowError:
        pass
    return g


_BINOPS = {
    'Eq': lambda a, b: a == b, 'Ne': lambda a, b: a != b, 'Lt': lambda a, b: a < b, 'Le': lambda a, b: a <= b,
    'Gt': lambda a, b: a > b, 'Ge': lambda a, b: a >= b, 'BitAnd': lambda a, b: a & b, 'BitOr': lambda a, b: a | b,
    'BitXor': lambda a, b: a ^ b, 'Add': lambda a, b: a + b, 'Sub': lambda a, b: a - b,
}


def eval_with(e, subj, v, bits=None):
    """Evaluate expression e to an int with every sub-expression satisfying subj(e) replaced by the
    integer v; None when the value depends on anything else.  With bits, values are kept modulo 2^bits
    (two's complement) and is_negative() tests the sign bit."""
    def norm(x):
        return x if bits is None or x is None else x & ((1 << bits) - 1)
    if subj(e):
        return norm(v)
    k = e[0]
    if k == 'const':
        x = e[1]
        if isinstance(x, bool):
            return int(x)
        return norm(x) if isinstance(x, int) else None
    if k == 'cast' and bits is not None:
        return eval_with(e[4], subj, v, bits)
    if k == 'call' and e[1] in ('std::convert::From::from', 'std::convert::Into::into') and len(e[2]) == 1 and bits is not None:
        return eval_with(e[2][0], subj, v, bits)        # lossless integer conversion
    if k == 'proj' and e[2] == ('.0',) and e[1][0] == 'bin':
        return eval_with(e[1], subj, v, bits)
    if k == 'bin':
        op = e[1].replace('WithOverflow', '').replace('Unchecked', '')
        if op in _BINOPS:
            a = eval_with(e[2], subj, v, bits)
            b = eval_with(e[3], subj, v, bits)
            if a is None or b is None:
                return None
            if bits is not None and op in ('Lt', 'Le', 'Gt', 'Ge'):
                return None
            return norm(int(_BINOPS[op](a, b)))
        if op in ('Shl', 'Shr') and bits is not None:
            a = eval_with(e[2], subj, v, bits)
            b = eval_with(e[3], subj, v, bits)
            if a is None or b is None:
                return None
            return norm(a << b if op == 'Shl' else a >> b)
    if k == 'un' and e[1] == 'Not':
        a = eval_with(e[2], subj, v, bits)
        if a is None:
            return None
        if bits is not None and not (e[2][0] == 'bin' and e[2][1] in ('Eq', 'Ne', 'Lt', 'Le', 'Gt', 'Ge')) and not _is_boolish(e[2]):
            return norm(~a)
        return int(not a)
    if k == 'call' and bits is not None and e[1].endswith('::is_negative') and e[2]:
        a = eval_with(e[2][0], subj, v, bits)
        return None if a is None else (a >> (bits - 1)) & 1
    return None


def _is_boolish(e):
    return e[0] == 'call' and (e[1].endswith('::is_negative') or e[1].endswith('::is_positive'))


def specialise_value(f, subj, v, eb=None, bits=None):
    """prune the CFG under `subject == v`: every switch whose discriminant is a function of the subject
    (and constants) alone keeps only the edge taken for v.  Used to ask "can a completion whose
    user_data is <v> reach ...", independent of whether the source writes a match arm, a range
    pattern or an if-chain."""
    eb = eb or ExprBuilder(f)
    rem = []
    decided = []
    for b, blk in enumerate(f.blocks):
        t = blk['term']
        if blk['cleanup'] or t['k'] != 'switch':
            continue
        val = eval_with(eb.operand(t['discr']), subj, v, bits)
        if val is None:
            continue
        vals = {int(x): tgt for x, tgt in t['targets']}
        live = vals.get(val, t['otherwise'])
        decided.append(b)
        for s in set(list(vals.values()) + [t['otherwise']]):
            if s != live:
                rem.append((b, s))
    g = pruned(f, rem)
    # ... and the edges no value-feasible path takes once those are gone (the value may have been turned into an enum
    # first: `let kind = match tag { 0 => Single, _ => Multi }; .. match kind {..}`)
    if decided:
        try:
            taken = set()
            g.reach_blocks([Loc(0, 0)], limit=20000, edges_out=taken)
            dead = [(b, s2) for b in range(len(g.blocks)) if not g.blocks[b]['cleanup'] for s2 in g.succ[b]
                    if (b, s2) not in taken and not g.blocks[s2]['cleanup'] and any(b == tb for tb, _ in taken)]
            if dead:
                g = pruned(g, dead)
        except OverflowError:
            pass
    return g, decided


def closure_captures(facts, closure):
    """(creating function, [expression of each captured value, in the creating function]) of a closure"""
    for f in facts.func_list:
        for loc, s in f.assigns():
            rv = s['rv']
            if rv['k'] == 'agg' and rv.get('ak') == 'closure' and rv.get('closure') == closure.path:
                eb = ExprBuilder(f, multi='phi')
                return f, [eb.operand(o) for o in rv['ops']]
    return None, []


def resolve_upvars(facts, closure, e):
    """rewrite projections of the closure environment (`(*_1).i`) inside e into the expression the
    creating function captured there, so `let fd = self.fd(); add(|s| close(fd, ..))` and
    `add(|s| close(self.fd(), ..))` look alike"""
    parent, caps = closure_captures(facts, closure)
    if parent is None:
        return e

    def rec(x):
        if not isinstance(x, tuple) or not x:
            return x
        if x[0] == 'proj' and x[1][0] == 'arg' and x[1][1] == 1:
            projs = [p for p in x[2] if p != '*']
            if projs and projs[0][1:].isdigit() and int(projs[0][1:]) < len(caps):
                cap = caps[int(projs[0][1:])]
                while cap[0] == 'ref':
                    cap = cap[1]
                rest = projs[1:]
                return cap if not rest else E('proj', cap, tuple(rest), x[3])
        if x[0] == 'call':
            return Expr(('call', x[1], tuple(rec(a) for a in x[2])) + tuple(x[3:]))
        if x[0] in ('ref', 'cast', 'un'):
            return Expr(tuple(rec(a) if isinstance(a, tuple) and a and isinstance(a[0], str) else a for a in x))
        return x
    return rec(e)


def def_expr(f, d, eb=None):
    """expression of a reaching definition as returned by Func.reaching_defs: a location (statement or call),
    ('S', local) = the unique static definition of a local, ('F', inner, path) = a field of a tuple/struct definition"""
    eb = eb or ExprBuilder(f, multi='phi')
    if d == 'entry':
        return E('unknown', 'value on entry')
    if isinstance(d, tuple) and d and d[0] == 'S':
        return eb.local(d[1])
    if isinstance(d, tuple) and d and d[0] == 'F':
        inner, path = d[1], d[2]
        if inner == 'entry' or (isinstance(inner, tuple) and inner and inner[0] in ('F', 'S')):
            base = def_expr(f, inner, eb)
            return simplify_proj(base, tuple('.%s' % i for i in path), None)
        st = f.at(inner)
        if not f.is_term(inner) and st['rv']['k'] == 'agg' and len(path) == 1 and path[0] is not None and path[0] < len(st['rv']['ops']):
            return eb.operand(st['rv']['ops'][path[0]])
        e = eb.call(st) if f.is_term(inner) else eb.rvalue(st['rv'])
        return simplify_proj(e, tuple('.%s' % i for i in path), None)
    st = f.at(d)
    return eb.call(st) if f.is_term(d) else eb.rvalue(st['rv'])
