"""Vitality replay: apply each small mutant (mutants/mutants.json, seeded/*/patch.diff) to a
scratch copy of the repository and require the property's check to report it with the
expected key. Mutants that no longer apply are skipped (never affect the exit status)."""
import json
import os
import re
import shutil
import subprocess
import sys
import tempfile
from concurrent.futures import ThreadPoolExecutor

HERE = os.path.dirname(os.path.dirname(os.path.abspath(__file__)))


def load(prop=None):
    ms = json.load(open(os.path.join(HERE, 'mutants', 'mutants.json')))
    out = []
    for m in ms:
        if prop is None or m['property'] == prop or prop in m.get('also', []):
            out.append(m)
    # seeded changes from independent sub-agents
    sd = os.path.join(HERE, 'seeded')
    if os.path.isdir(sd):
        for d in sorted(os.listdir(sd)):
            mp = os.path.join(sd, d, 'meta.json')
            if not os.path.exists(mp):
                continue
            meta = json.load(open(mp))
            if prop is None or meta.get('property') == prop or prop in meta.get('also', []):
                out.append({'id': 'seeded/' + d, 'property': meta.get('property'), 'patch': os.path.join(sd, d, 'patch.diff'),
                            'expect': meta.get('expect_keys', {}).get(prop or meta.get('property')) or meta.get('expect'),
                            'what': meta.get('what', ''), 'caught': meta.get('caught_by', [])})
    return out


def scratch_copy(repo):
    tmp = tempfile.mkdtemp(prefix='a10mut.')
    for name in ('src', 'tests', 'examples', 'Cargo.toml', 'Cargo.lock'):
        p = os.path.join(repo, name)
        if os.path.isdir(p):
            shutil.copytree(p, os.path.join(tmp, name))
        elif os.path.exists(p):
            shutil.copy(p, os.path.join(tmp, name))
    return tmp


def apply(m, tmp):
    if 'base' in m:
        # a behaviour-preserving refactoring (kept under benign/refactors) applied first, then broken by the edit below:
        # the normalisations that make the refactoring quiet must not hide the defect
        if not apply({'patch': os.path.join(HERE, m['base'])}, tmp):
            return False
    if 'patch' in m:
        if not os.path.isabs(m['patch']):
            m = dict(m, patch=os.path.join(HERE, m['patch']))
        r = subprocess.run(['git', 'apply', '--unsafe-paths', '--directory', tmp, m['patch']], cwd='/', stdout=subprocess.PIPE, stderr=subprocess.STDOUT, text=True)
        if r.returncode != 0:
            r = subprocess.run(['patch', '-p1', '-s', '-d', tmp, '-i', m['patch']], stdout=subprocess.PIPE, stderr=subprocess.STDOUT, text=True)
        return r.returncode == 0
    p = os.path.join(tmp, m['file'])
    s = open(p).read()
    if s.count(m['old']) != 1 and not (m.get('all') and s.count(m['old']) >= 1):
        return False
    open(p, 'w').write(s.replace(m['old'], m['new']))
    return True


def run_one(m, prop, repo):
    tmp = scratch_copy(repo)
    out = tempfile.mkdtemp(prefix='a10mutout.')
    try:
        if not apply(m, tmp):
            return m, 'skipped', 'does not apply to the current tree'
        r = subprocess.run([sys.executable, os.path.join(HERE, 'run.py'), '-p', prop, '--repo', tmp, '--out-dir', out, '--tier', 'quick'],
                           stdout=subprocess.PIPE, stderr=subprocess.STDOUT, text=True)
        txt = r.stdout
        if 'fact extraction failed' in txt:
            return m, 'invalid', 'mutant does not compile'
        keys = re.findall(r'^\s+violated (.+?) at ', txt, flags=re.M)
        exp = m.get('expect')
        hit = [k for k in keys if exp and exp in k] if exp else keys
        if hit:
            return m, 'caught', hit[0]
        if keys:
            return m, 'caught-other', keys[0]
        return m, 'missed', txt[-300:]
    finally:
        shutil.rmtree(tmp, ignore_errors=True)
        shutil.rmtree(out, ignore_errors=True)


def replay(r, prop, repo, workers=8):
    ms = load(prop)
    if not ms:
        r.note('no mutants for %s' % prop)
        return
    with ThreadPoolExecutor(max_workers=workers) as ex:
        results = list(ex.map(lambda m: run_one(m, prop, repo), ms))
    for m, status, detail in results:
        r.inst('%s: %s' % (m['id'], status), '', '%s — %s' % (m.get('what', ''), detail if status != 'missed' else 'NOT REPORTED'))
        if status == 'missed':
            r.bad('mutant:%s' % m['id'], 'the check no longer reports mutant %s (%s): expected a violation containing %r' % (m['id'], m.get('what'), m.get('expect')))
        elif status == 'caught-other':
            r.note('mutant %s reported under %s instead of %r' % (m['id'], detail, m.get('expect')))


if __name__ == '__main__':
    # stand-alone: python3 -m rules.vitality [Cxx]
    props = sys.argv[1:] or sorted({m['property'] for m in load()})
    bad = 0
    for prop in props:
        ms = load(prop)
        with ThreadPoolExecutor(max_workers=12) as ex:
            res = list(ex.map(lambda m: run_one(m, prop, '/repo'), ms))
        for m, status, detail in res:
            print('%-4s %-34s %-13s %s' % (prop, m['id'], status, str(detail)[:150].replace('\n', ' ')))
            bad += status in ('missed', 'invalid', 'skipped')
    sys.exit(1 if bad else 0)
