"""Compile-fail / compile-pass witness pairs (DESIGN §1.3).

witness/<group>/<name>.fail.rs must fail to compile against the a10 rlib built
from the current tree with the error code named in its first line
(`//@ error: E0xxx`); witness/<group>/<name>.pass.rs (its twin, differing only
in the offending lines) must compile. `//@ expect-compiles` in a .fail.rs marks
a *known* hole: the offending program compiles today (reported as a violation
with the key of the witness)."""
import json
import os
import shutil
import subprocess
import tempfile

HERE = os.path.dirname(os.path.dirname(os.path.abspath(__file__)))
_cache = {}


def build_rlib(repo):
    if repo in _cache:
        return _cache[repo]
    tmp = tempfile.mkdtemp(prefix='a10witness.')
    env = dict(os.environ)
    env['CARGO_TARGET_DIR'] = os.path.join(tmp, 'target')
    env['CARGO_NET_OFFLINE'] = 'true'
    env.pop('RUSTC_WORKSPACE_WRAPPER', None)
    env['RUSTFLAGS'] = '-Awarnings'
    r = subprocess.run(['cargo', 'build', '--offline', '--lib'], cwd=repo, env=env, stdout=subprocess.PIPE, stderr=subprocess.STDOUT, text=True)
    rlib = os.path.join(tmp, 'target', 'debug', 'liba10.rlib')
    if r.returncode != 0 or not os.path.exists(rlib):
        shutil.rmtree(tmp, ignore_errors=True)
        raise RuntimeError('cannot build a10 rlib for witnesses:\n' + r.stdout[-2000:])
    _cache[repo] = (tmp, rlib)
    return _cache[repo]


def cleanup():
    for tmp, _ in _cache.values():
        shutil.rmtree(tmp, ignore_errors=True)
    _cache.clear()


def compile_one(src, tmp, rlib):
    deps = os.path.join(tmp, 'target', 'debug', 'deps')
    out = os.path.join(tmp, 'w_' + os.path.basename(src) + '.rmeta')
    cmd = ['rustc', '--edition', '2024', '--crate-type', 'lib', '--crate-name', 'witness', '--emit', 'metadata', '-o', out,
           '--extern', 'a10=' + rlib, '-L', 'dependency=' + deps, '--error-format=json', '-Awarnings', src]
    r = subprocess.run(cmd, stdout=subprocess.PIPE, stderr=subprocess.PIPE, text=True)
    codes = []
    msgs = []
    for line in r.stderr.splitlines():
        try:
            j = json.loads(line)
        except ValueError:
            continue
        if j.get('level') == 'error':
            c = (j.get('code') or {}).get('code')
            if c:
                codes.append(c)
            msgs.append(j.get('message', ''))
    return r.returncode == 0, codes, msgs


def run_group(r, repo, group):
    d = os.path.join(HERE, 'witness', group)
    names = sorted({f.rsplit('.', 2)[0] for f in os.listdir(d) if f.endswith('.fail.rs')})
    if not names:
        r.bad('no-witnesses', 'no witness files in %s' % d)
        return
    try:
        tmp, rlib = build_rlib(repo)
    except RuntimeError as e:
        r.bad('build', str(e))
        return
    for n in names:
        fail = os.path.join(d, n + '.fail.rs')
        pas = os.path.join(d, n + '.pass.rs')
        head = open(fail).read().splitlines()[:5]
        want = None
        for h in head:
            if h.startswith('//@ error:'):
                want = [c.strip() for c in h.split(':', 1)[1].split(',')]
        ok_p, codes_p, msgs_p = compile_one(pas, tmp, rlib) if os.path.exists(pas) else (False, [], ['twin missing'])
        r.inst('%s/%s' % (group, n), fail, 'expects %s' % want)
        if not r.require(ok_p, '%s/%s/twin' % (group, n), 'the compiling twin of witness %s does not compile (%s): the witness proves nothing' % (n, '; '.join(msgs_p)[:300]), pas):
            continue
        ok_f, codes_f, msgs_f = compile_one(fail, tmp, rlib)
        if ok_f:
            r.bad('%s/%s' % (group, n), 'the offending program compiles: %s' % _purpose(fail), fail)
        elif want and not any(c in want for c in codes_f):
            r.bad('%s/%s/code' % (group, n), 'witness fails with %s instead of %s (fails for the wrong reason)' % (codes_f, want), fail)


def _purpose(path):
    for l in open(path).read().splitlines()[:6]:
        if l.startswith('//@ what:'):
            return l.split(':', 1)[1].strip()
    return ''
