"""C18 Ring construction is all-or-nothing and honours its configuration."""
import re

from .kernel import (ExprBuilder, Loc, access_path, subexprs, variant_edges, is_local, const_val, rvalue_operands, rvalue_places, table_rows)
from . import families as fam
from . import c10

EXPLANATION = (
    "Decides on every CFG path of Config::build_sys, Shared::new, Completions::new, io_uring::mmap and Config::build: "
    "(R1) the raw io_uring_setup result is only ever wrapped by OwnedFd::from_raw_fd (fd owned at birth); (R2) "
    "map/unmap pairing — from the success of every mapping call each path to a function exit passes a munmap of that "
    "pointer (directly, or via Result::inspect_err with a closure that unmaps the captured pointer) or stores it in "
    "the returned struct whose Drop unmaps it (C12.R2); (R3) the required features NODROP, SUBMIT_STABLE, RW_CUR_POS, "
    "SQPOLL_NONFIXED are each tested on parameters.features with an Err return before Shared::new; (R4) every field "
    "of the io_uring Config is read in build_sys and flows to the io_uring_params field / setup flag of the table; "
    "Shared::new derives kernel_thread / single_issuer from the flags echoed by the kernel; (R5) on every exit of "
    "build_sys each owned resource built so far (OwnedFd, Submissions, Completions) is dropped or moved into the "
    "result (path-sensitive over drop flags); (R6) Config::build constructs Ring only on the Ok edge. What the kernel "
    "grants is not decided."
    ' Also decided: (R4 polarity) Shared.kernel_thread / single_issuer are true exactly when the echoed flag is set; (R7) every setting of the configuration table has a public builder method that stores it (parameter-derived / switched on) on every path.'
)
NOT_DECIDED = "what the kernel grants for a given configuration"
ASSUMPTIONS = ["OwnedFd closes its descriptor on drop", "Drop impls of Shared/Completions unmap (C12.R2)"]

BUILD_SYS = "io_uring::config::<impl config::Config<'r>>::build_sys"
SHARED_NEW = 'io_uring::Shared::new'
CQ_NEW = 'io_uring::cq::Completions::new'
MMAP = 'io_uring::mmap'


def r1_fd_owned(r, facts):
    f = facts.fn(BUILD_SYS)
    eb = ExprBuilder(f, multi='phi')
    setup = [(loc, t) for loc, t in f.calls() if (t.get('callee') or '').endswith('io_uring_setup')]
    if not r.require(len(setup) == 1, 'build_sys/setup', 'io_uring_setup call not found', f.where()):
        return
    sl, st = setup[0]
    # where the descriptor gets its owner: OwnedFd::from_raw_fd applied to the setup result, called directly or
    # inside the closure of a Result::map on it
    own = []
    for loc, t in f.calls():
        n = t.get('callee') or ''
        if n.endswith('FromRawFd::from_raw_fd') and 'OwnedFd' in (t.get('callee_full') or ''):
            a = eb.operand(t['args'][0])
            if any(x[0] == 'call' and x[1].endswith('io_uring_setup') for x in subexprs(a)):
                own.append(loc)
                r.inst('setup -> OwnedFd::from_raw_fd(rfd)', f.where(loc))
        if n == 'std::result::Result::<T, E>::map' and any(x[0] == 'call' and x[1].endswith('io_uring_setup') for x in subexprs(eb.operand(t['args'][0]))):
            for l2, s2 in f.assigns():
                rv = s2['rv']
                if rv['k'] == 'agg' and rv.get('ak') == 'closure':
                    c = facts.fn_opt(rv['closure'])
                    if c is None:
                        continue
                    ec = ExprBuilder(c)
                    for l3, t3 in c.calls():
                        if (t3.get('callee') or '').endswith('FromRawFd::from_raw_fd') and 'OwnedFd' in (t3.get('callee_full') or ''):
                            a = ec.operand(t3['args'][0])
                            if a[0] == 'arg' and a[1] == 2:
                                own.append(loc)
                                r.inst('setup -> map(|rfd| OwnedFd::from_raw_fd(rfd))', f.where(loc))
    if not r.require(len(own) >= 1, 'build_sys/map', 'the descriptor returned by io_uring_setup is never wrapped in an OwnedFd', f.where(sl)):
        return
    # once the kernel has created the ring (the syscall returned a descriptor, not -1) no path leaves build_sys
    # before the descriptor has its owner
    if st['target'] is not None and not st['dest']['p']:
        hit = f.forward_paths_hit([Loc(st['target'], 0)], f.returns(), blockers=own, env0={st['dest']['l']: 5})
        r.require(hit is None, 'build_sys/exit-before-own', 'a path returns between a successful io_uring_setup and taking ownership of the descriptor (the ring descriptor stays open)', f.where(hit[0]) if hit else '')
    raw = st['dest']['l']
    uses = 0
    for loc, s in f.assigns():
        for op in rvalue_operands(s['rv']):
            if 'l' in op and op['l'] == raw:
                uses += 1
    for loc, t in f.calls():
        for a in t['args']:
            if 'l' in a and a['l'] == raw:
                r.bad('build_sys/raw-use', 'the raw ring descriptor is passed to %s before being owned' % t.get('callee'), f.where(loc))
    r.floor(1)


def mapping_sites(f, eb):
    """(loc, term, kind) of calls producing a mapping: io_uring::mmap or libc::mmap"""
    out = []
    for loc, t in f.calls():
        n = t.get('callee') or ''
        if n in (MMAP, 'libc::mmap'):
            out.append((loc, t, n))
    return out


def r2_map_unmap(r, facts):
    for name in (MMAP, SHARED_NEW, CQ_NEW):
        f = facts.fn(name)
        eb = ExprBuilder(f, multi='phi')
        sites = mapping_sites(f, eb)
        r.require(len(sites) >= 1, name + '/sites', 'no mapping call found in %s' % name, f.where())
        rets = f.returns()
        for idx, (loc, t, kind) in enumerate(sites):
            # success start: for io_uring::mmap the Continue edge of `?`; for libc::mmap the non-MAP_FAILED edge
            start = None
            ptr_local = None
            if kind == MMAP:
                # follow dest through Try::branch / inspect_err to the Continue payload
                cur = t['dest']['l']
                via_inspect = None
                for l2, t2 in f.calls():
                    if (t2.get('callee') or '') == 'std::result::Result::<T, E>::inspect_err' and is_local(t2['args'][0], cur):
                        via_inspect = (l2, t2)
                        cur = t2['dest']['l']
                from .kernel import result_edges
                re_ = result_edges(f, {'dest': {'l': cur, 'p': []}})
                if not r.require(re_ is not None and re_[0] is not None, '%s/map%d' % (name, idx), 'how the result of the mapping is handled was not recognised (neither `?` nor a match)', f.where(loc)):
                    continue
                start = Loc(re_[0][1], 0)
                # the pointer value
                ptr_expr_pred = lambda e, loc=loc: any(x[0] == 'call' and x[1] == MMAP for x in subexprs(e))
            else:
                # libc::mmap: the arm that is not MAP_FAILED
                for b, blk in enumerate(f.blocks):
                    tt = blk['term']
                    if tt['k'] != 'switch' or blk['cleanup']:
                        continue
                    de = eb.operand(tt['discr'])
                    if de[0] == 'bin' and de[1] in ('Eq', 'Ne') and any(x[0] == 'call' and x[1] == 'libc::mmap' for x in (de[2], de[3])) \
                            and any(x[0] == 'const' and ('0xffffffffffffffff' in str(x[2]) or 'MAP_FAILED' in str(x[2])) for x in (de[2], de[3])):
                        vals = {int(v): tg for v, tg in tt['targets']}
                        ok_t = vals.get(0) if de[1] == 'Eq' else vals.get(1, tt['otherwise'])
                        start = Loc(ok_t, 0)
                ptr_expr_pred = lambda e: any(x[0] == 'call' and x[1] == 'libc::mmap' for x in subexprs(e))
            if start is None and kind == 'libc::mmap':
                # the result is tested, but not against MAP_FAILED ((void *) -1): a null test never fires for mmap
                nulltest = None
                for l2, t2 in f.calls():
                    n2 = t2.get('callee') or ''
                    if (n2.endswith('NonNull::<T>::new') or n2.endswith('::is_null')) and t2['args'] and ptr_expr_pred(eb.operand(t2['args'][0])):
                        nulltest = (l2, n2)
                for b, blk in enumerate(f.blocks):
                    tt = blk['term']
                    if tt['k'] == 'switch' and not blk['cleanup']:
                        de = eb.operand(tt['discr'])
                        def _is_ptr(x):
                            while x[0] == 'cast':
                                x = x[-1] if isinstance(x[-1], tuple) else x[2]
                            return x[0] == 'call' and x[1] == 'libc::mmap'
                        if nulltest is None and de[0] == 'bin' and de[1] in ('Eq', 'Ne') and any(_is_ptr(x) for x in (de[2], de[3])) \
                                and not any(x[0] == 'const' and ('0xffffffffffffffff' in str(x[2]) or 'MAP_FAILED' in str(x[2])) for x in (de[2], de[3])):
                            nulltest = (f.term_loc(b), str(de)[:80])
                if nulltest is not None:
                    r.inst('mapping #%d in %s: failure test' % (idx, name), f.where(loc))
                    r.bad('%s/map%d-failure-test' % (name, idx), 'the result of libc::mmap is tested with %s, not against MAP_FAILED ((void *) -1): a refused mapping is taken for a valid address and a half-mapped ring escapes' % (nulltest[1],), f.where(nulltest[0]))
                    continue
            if not r.require(start is not None, '%s/map%d' % (name, idx), 'success edge of the mapping not found', f.where(loc)):
                continue
            # releasing / transferring sites for this mapping
            done = []
            from .c12 import norm as _norm
            map_len = _norm(eb.operand(t['args'][1] if kind == 'libc::mmap' else t['args'][0]))
            for l2, t2 in f.calls():
                n2 = t2.get('callee') or ''
                if n2 in ('io_uring::munmap', 'libc::munmap'):
                    if ptr_expr_pred(eb.operand(t2['args'][0])) and _same_mapping(f, eb, t2['args'][0], loc):
                        done.append(l2)
                        ul = _norm(eb.operand(t2['args'][1]))
                        r.require(ul == map_len, '%s/unmap-len%d' % (name, idx), 'an error path unmaps mapping #%d with a length (%s) different from the mapped length (%s): part of the mapping is left behind' % (idx, eb.operand(t2['args'][1]), eb.operand(t['args'][1] if kind == 'libc::mmap' else t['args'][0])), f.where(l2))
                if n2 == 'std::result::Result::<T, E>::inspect_err':
                    ce = eb.operand(t2['args'][1])
                    if ce[0] == 'agg' and 'closure' in ce[1] and any(ptr_expr_pred(a) and _same_mapping_expr(f, a, loc) for a in ce[3]):
                        cl = _closure_fn(facts, f, t2)
                        if cl is not None and any((t3.get('callee') or '') == 'io_uring::munmap' for _, t3 in cl.calls()):
                            # counts on the Err edge of the inspected result: the following `?` Break edge
                            done.append(l2)
                            r.idiom('inspect_err(|_| munmap(captured))')
                            # pointer and length inside the closure, expressed through the captured values
                            from .kernel import subst_args, E
                            ecl = ExprBuilder(cl, multi='phi')
                            for l3, t3 in cl.calls():
                                if (t3.get('callee') or '') != 'io_uring::munmap':
                                    continue
                                def lift(x):
                                    # (*_1).k / _1.k  -> k-th captured operand of the closure aggregate
                                    if x[0] == 'proj' and x[1][0] == 'arg' and x[1][1] == 1:
                                        ks = [p for p in x[2] if p.startswith('.')]
                                        if ks and ks[0][1:].isdigit() and int(ks[0][1:]) < len(ce[3]):
                                            return ce[3][int(ks[0][1:])]
                                    if x[0] == 'cast':
                                        return E('cast', x[1], x[2], x[3], lift(x[4]))
                                    if x[0] == 'proj':
                                        from .kernel import simplify_proj
                                        return simplify_proj(lift(x[1]), x[2], x[3] if len(x) > 3 else None)
                                    if x[0] == 'bin':
                                        return E('bin', x[1], lift(x[2]), lift(x[3]))
                                    return x
                                cp, clen = lift(ecl.operand(t3['args'][0])), lift(ecl.operand(t3['args'][1]))
                                r.require(_same_mapping_expr(f, cp, loc), '%s/unmap-ptr%d' % (name, idx), 'the clean-up closure unmaps %s, not mapping #%d' % (cp, idx), cl.where(l3))
                                r.require(_norm(clen) == map_len, '%s/unmap-len%d' % (name, idx), 'the clean-up closure unmaps mapping #%d with a length (%s) different from the mapped length: part of the mapping is left behind when the later step fails' % (idx, clen), cl.where(l3))
            for l2, s in f.assigns():
                rv = s['rv']
                if rv['k'] == 'agg' and rv.get('ak') == 'adt' and (rv.get('adt') or '').startswith('io_uring::') and any(_same_mapping_expr(f, eb.operand(o), loc) and ptr_expr_pred(eb.operand(o)) for o in rv['ops'] if 'l' in o):
                    done.append(l2)
                if rv['k'] == 'agg' and rv.get('variant') == 'Ok' and s['lhs']['l'] == 0 and any(ptr_expr_pred(eb.operand(o)) for o in rv['ops'] if 'l' in o):
                    done.append(l2)
            # a clean-up guard (a local type whose Drop unmaps): it covers the error paths only if it is dropped there, and it
            # must be defused (mem::forget) on every path that hands the mapping to the returned owner — otherwise the ring
            # memory is unmapped while the owner still uses it
            for l2, s in f.assigns():
                rv = s['rv']
                if not (rv['k'] == 'agg' and rv.get('ak') == 'adt' and s['lhs'].get('p') == []):
                    continue
                gty = rv.get('adt') or ''
                gdrop = facts.fn_opt('<%s as std::ops::Drop>::drop' % gty)
                if gdrop is None or gty in ('io_uring::Shared', 'io_uring::cq::Completions') or not any((t3.get('callee') or '') == 'io_uring::munmap' for _, t3 in gdrop.calls()):
                    continue
                if not any(_same_mapping_expr(f, eb.operand(o), loc) and ptr_expr_pred(eb.operand(o)) for o in rv['ops'] if 'l' in o):
                    continue
                gl = s['lhs']['l']
                aliases = {gl}
                for l3, s3 in f.assigns():
                    if s3['rv']['k'] == 'use' and 'l' in s3['rv']['op'] and not s3['rv']['op']['p'] and s3['rv']['op']['l'] in aliases and not s3['lhs']['p']:
                        aliases.add(s3['lhs']['l'])
                forgets = [l3 for l3, t3 in f.calls() if (t3.get('callee') or '') == 'std::mem::forget' and t3['args'] and 'l' in t3['args'][0] and t3['args'][0]['l'] in aliases]
                nxt = Loc(l2[0], l2[1] + 1)
                r.inst('%s: unmap guard %s for mapping #%d, defused at %d site(s)' % (name, gty, idx, len(forgets)), f.where(l2))
                hit = f.forward_paths_hit([nxt], rets, blockers=forgets, stop_env=lambda env: env.get(('D', 0)) == 1)
                r.require(hit is None and forgets, '%s/guard-not-defused%d' % (name, idx), 'the unmap guard for mapping #%d is still armed on a path that returns the owner (not passed to mem::forget): the mapping is unmapped at the end of %s while the returned value still uses it, and again when that is dropped' % (idx, name), f.where(l2))
                for fl_ in forgets:
                    tt_ = f.at(fl_)
                    if tt_.get('target') is not None:
                        hit = f.forward_paths_hit([Loc(tt_['target'], 0)], rets, stop_env=lambda env: env.get(('D', 0)) == 0)
                        r.require(hit is None, '%s/guard-defused-early%d' % (name, idx), 'the unmap guard for mapping #%d is defused before the last step that can fail: that error path leaks the mapping' % idx, f.where(fl_))
            r.inst('%s: mapping #%d released/stored at %d site(s)' % (name, idx, len(done)), f.where(loc))
            hit = f.forward_paths_hit([start], rets, blockers=done)
            r.require(hit is None, '%s/leak-map%d' % (name, idx), 'a path from a successful mapping to a function exit neither unmaps it nor stores it in the returned owner (mapping leaks on that error path)', f.where(hit[0]) if hit else f.where(loc))
    r.floor(4, 'mapping sites')


def _copy_of(f, a, b):
    d = f.single_def(a)
    return bool(d and d[1] == 'assign' and d[2]['k'] == 'use' and is_local(d[2]['op'], b))


def _closure_fn(facts, f, t):
    for g in facts.func_list:
        if g.kind == 'closure' and g.j.get('parent') == f.path:
            if any((t3.get('callee') or '') == 'io_uring::munmap' for _, t3 in g.calls()):
                return g
    return None


def _mapping_locs(f, e):
    """locations (line numbers as proxy) of the mmap call an expression derives from: use arg exprs identity"""
    return [x for x in subexprs(e) if x[0] == 'call' and x[1] in (MMAP, 'libc::mmap')]


def _same_mapping(f, eb, operand, site_loc):
    return _same_mapping_expr(f, eb.operand(operand), site_loc)


def _same_mapping_expr(f, e, site_loc):
    t = f.at(site_loc)
    me = ExprBuilder(f, multi='phi').call(t)
    return any(x == me for x in _mapping_locs(f, e))


def r3_features(r, facts):
    f = facts.fn(BUILD_SYS)
    eb = ExprBuilder(f, multi='phi')
    need = ['IORING_FEAT_NODROP', 'IORING_FEAT_SUBMIT_STABLE', 'IORING_FEAT_RW_CUR_POS', 'IORING_FEAT_SQPOLL_NONFIXED']
    news = f.calls_to(SHARED_NEW)
    if not r.require(len(news) == 1, 'build_sys/Shared::new', 'Shared::new call not found', f.where()):
        return
    nl = news[0][0]
    found = {}
    for b, blk in enumerate(f.blocks):
        tt = blk['term']
        if blk['cleanup'] or tt['k'] != 'switch':
            continue
        e = eb.operand(tt['discr'])
        if e[0] == 'bin' and e[1] in ('Eq', 'Ne') and e[3][0] == 'const' and e[3][1] == 0 and e[2][0] == 'bin' and e[2][1] == 'BitAnd':
            cs = [y for y in (e[2][2], e[2][3]) if y[0] == 'const' and y[2] and 'IORING_FEAT_' in str(y[2])]
            fl = [y for y in (e[2][2], e[2][3]) if fam.last_field(y) == 'features' or (y[0] == 'arg' and y[2] == 'features')]
            vals = {int(v): tg for v, tg in tt['targets']}
            missing = vals.get(1, tt['otherwise']) if e[1] == 'Eq' else vals.get(0)
            present = vals.get(0) if e[1] == 'Eq' else vals.get(1, tt['otherwise'])
            if cs and fl:
                found[str(cs[0][2]).rsplit('::', 1)[1]] = (b, missing, present, False)
            elif fl:
                # `for (required, msg) in REQUIRED_FEATURES { if features & required == 0 { return Err(..) } }`: one test per
                # row of the table
                for y in (e[2][2], e[2][3]):
                    rows = table_rows(y)
                    if rows:
                        for x in rows:
                            if x[0] == 'const' and 'IORING_FEAT_' in str(x[2]):
                                found[str(x[2]).rsplit('::', 1)[1]] = (b, missing, present, True)
    for n in need:
        if not r.require(n in found, 'build_sys/feature:%s' % n, 'required feature %s is not checked' % n, f.where()):
            continue
        b, missing, present, looped = found[n]
        r.inst('%s checked%s' % (n, ' (row of a table the check loops over)' if looped else ''), f.where(f.term_loc(b)))
        if looped:
            # every row is visited before Shared::new: from the function entry the ring is only built after the
            # iterator is exhausted, and a passed test leads back to next()
            nexts = [l for l, t2 in f.calls() if (t2.get('callee') or '') == 'std::iter::Iterator::next']
            none_edges = [Loc(v2['edge'][1], 0) for v2 in variant_edges(f, 'std::option::Option', 'None')
                          if any(f.at(nx)['dest']['l'] == v2['si']['place']['l'] for nx in nexts)]
            ok_order = bool(nexts) and bool(none_edges) and f.forward_paths_hit([Loc(0, 0)], [nl], blockers=none_edges) is None \
                and f.forward_paths_hit([Loc(present, 0)], [nl], blockers=nexts) is None
            r.require(ok_order, 'build_sys/feature-order:%s' % n, 'Shared::new is reachable without %s having been verified' % n, f.where(f.term_loc(b)))
        else:
            # every path to Shared::new passes the test, and (feature-ignored below) none arrives over its `missing` edge
            r.require(f.edge_dominates((b, present), nl) or f.dominates(f.term_loc(b), nl), 'build_sys/feature-order:%s' % n, 'Shared::new is reachable without %s having been verified' % n, f.where(f.term_loc(b)))
        hit = f.forward_paths_hit([Loc(missing, 0)], [nl])
        r.require(hit is None, 'build_sys/feature-ignored:%s' % n, 'a missing %s does not abort ring construction' % n, f.where(f.term_loc(b)))
        # Err is what is returned
        errs = [l for l, s in f.assigns() if s['lhs']['l'] == 0 and s['rv']['k'] == 'agg' and s['rv'].get('variant') == 'Err']
        # (or the Err travels through `?` out of an inlined helper: the return slot is known to hold an Err)
        hit = f.forward_paths_hit([Loc(missing, 0)], f.returns(), blockers=errs, stop_env=lambda env: env.get(('D', 0)) == 1)
        r.require(hit is None, 'build_sys/feature-not-err:%s' % n, 'a missing %s does not produce an Err' % n, f.where(f.term_loc(b)))
    r.floor(4)


CONFIG_TABLE = {
    'submission_entries': {'fields': ['sq_entries'], 'flags': []},
    'completion_entries': {'fields': ['cq_entries'], 'flags': ['IORING_SETUP_CQSIZE']},
    'disabled': {'fields': [], 'flags': ['IORING_SETUP_R_DISABLED']},
    'single_issuer': {'fields': [], 'flags': ['IORING_SETUP_SINGLE_ISSUER']},
    'defer_taskrun': {'fields': [], 'flags': ['IORING_SETUP_DEFER_TASKRUN']},
    'clamp': {'fields': [], 'flags': ['IORING_SETUP_CLAMP']},
    'kernel_thread': {'fields': [], 'flags': ['IORING_SETUP_SQPOLL']},
    'cpu_affinity': {'fields': ['sq_thread_cpu'], 'flags': ['IORING_SETUP_SQ_AFF']},
    'idle_timeout': {'fields': ['sq_thread_idle'], 'flags': []},
    'direct_descriptors': {'fields': [], 'flags': [], 'register': 'IORING_REGISTER_FILES2'},
    'attach': {'fields': ['wq_fd'], 'flags': ['IORING_SETUP_ATTACH_WQ']},
}


def config_guard_of(f, eb, loc):
    """names of Config fields whose test controls loc"""
    out = set()
    for (b, tgt) in c10.controlling_switches(f, loc):
        t = f.term(b)
        e = eb.operand(t['discr'])
        for x in subexprs(e):
            if x[0] in ('proj',):
                ap = access_path(x)
                if ap and ap[0][0] == 'arg' and ap[0][1] == 1:
                    parts = [p for p in ap[1].split('.') if p and p not in ('sys', '0')]
                    if parts:
                        out.add((parts[0], b, tgt))
            if x[0] == 'discr':
                ap = access_path(x[1])
                if ap and ap[0][0] == 'arg' and ap[0][1] == 1:
                    parts = [p for p in ap[1].split('.') if p and p not in ('sys', '0')]
                    if parts:
                        out.add((parts[0], b, tgt))
    return out


def _edge_polarity(f, eb, b, tgt):
    """True when the edge b->tgt is taken for a set flag / `Some`, False when for an unset one / `None`, None when the
    form of the test is not one of `x`, `!x`, `discriminant(x)`"""
    t = f.term(b)
    explicit = [int(v) for v, g in t['targets'] if g == tgt]
    others = [int(v) for v, g in t['targets'] if g != tgt]
    if explicit and tgt != t['otherwise']:
        truth = {v != 0 for v in explicit}
    elif tgt == t['otherwise'] and not explicit and others:
        truth = {not all(v != 0 for v in others)} if set(others) <= {0, 1} and len(set(others)) == 1 else set()
    else:
        truth = set()
    if len(truth) != 1:
        return None
    pol = next(iter(truth))
    e = eb.operand(t['discr'])
    while True:
        if e[0] == 'un' and e[1] == 'Not':
            pol = not pol
            e = e[2]
        elif e[0] == 'cast':
            e = e[4]
        else:
            break
    if e[0] in ('proj', 'discr'):
        return pol
    return None


def config_guards(f, eb, loc):
    """settings whose test controls loc: the name when loc runs for the setting switched on (or the polarity cannot be
    told), '!name' when it runs for the setting switched off"""
    out = set()
    for name, b, tgt in config_guard_of(f, eb, loc):
        out.add('!' + name if _edge_polarity(f, eb, b, tgt) is False else name)
    return out


def ring_lengths(r, facts, modes=True, floor=2, sq=True, cq=True):
    """The lengths (hence the index masks) the library uses are the sizes the kernel granted: Shared.submissions_len is
    params.sq_entries, Completions.entries_len is params.cq_entries (a ring built with a larger completion queue would
    otherwise wrap at the wrong place: completions replayed / skipped)."""
    # Shared::new derives modes from the echoed flags
    n = facts.fn(SHARED_NEW)
    en = ExprBuilder(n, multi='phi')
    for loc, s in n.assigns():
        rv = s['rv']
        if rv['k'] == 'agg' and rv.get('adt') == 'io_uring::Shared':
            fm = dict(zip(rv['fields'], [en.operand(o) for o in rv['ops']]))
            for fld, flag in (() if not modes else (('kernel_thread', 'IORING_SETUP_SQPOLL'), ('single_issuer', 'IORING_SETUP_SINGLE_ISSUER'))):
                e = fm.get(fld)
                ok = e is not None and any(x[0] == 'const' and str(x[2]).endswith(flag) for x in subexprs(e)) and any(fam.last_field(x) == 'flags' for x in subexprs(e))
                r.inst('Shared.%s = %s' % (fld, e), n.where(loc))
                r.require(ok, 'Shared::new/%s' % fld, 'Shared.%s is not derived from parameters.flags & %s' % (fld, flag), n.where(loc))
                # .. the right way round: true exactly when the bit is set (recognised spellings only: `x & F != 0`, `x & F == F`,
                # `!(x & F == 0)`; anything else gives no verdict here)
                if ok:
                    pe, flip = e, False
                    while pe[0] == 'un' and pe[1] == 'Not':
                        pe, flip = pe[2], not flip
                    verdict = None
                    if pe[0] == 'bin' and pe[1] in ('Eq', 'Ne') and any(y[0] == 'bin' and y[1] == 'BitAnd' for y in (pe[2], pe[3])):
                        other = pe[3] if (pe[2][0] == 'bin' and pe[2][1] == 'BitAnd') else pe[2]
                        while other[0] == 'cast':
                            other = other[4]
                        if other[0] == 'const' and other[1] == 0:
                            verdict = (pe[1] == 'Ne') != flip
                        elif other[0] == 'const' and str(other[2]).endswith(flag):
                            verdict = (pe[1] == 'Eq') != flip
                    if verdict is not None:
                        r.inst('Shared.%s is true exactly when %s is set: %s' % (fld, flag, verdict), n.where(loc))
                        r.require(verdict, 'Shared::new/%s-polarity' % fld, 'Shared.%s is true when %s is *not* set in the flags the kernel echoed: %s' % (fld, flag, 'submissions are never handed to io_uring_enter / the poll thread is assumed' if fld == 'kernel_thread' else 'wake-ups from other threads take the single-issuer path (or the reverse)'), n.where(loc))
            if not sq:
                continue
            e = fm.get('submissions_len')
            r.inst('Shared.submissions_len = %s' % (e,), n.where(loc))
            r.require(e is not None and fam.last_field(e) == 'sq_entries', 'Shared::new/submissions_len', 'submissions_len is not the granted sq_entries', n.where(loc))
    c = facts.fn(CQ_NEW)
    ec = ExprBuilder(c, multi='phi')
    for loc, s in (c.assigns() if cq else ()):
        rv = s['rv']
        if rv['k'] == 'agg' and rv.get('adt') == 'io_uring::cq::Completions':
            fm = dict(zip(rv['fields'], [ec.operand(o) for o in rv['ops']]))
            e = fm.get('entries_len')
            r.inst('Completions.entries_len = %s' % (e,), c.where(loc))
            r.require(e is not None and fam.last_field(e) == 'cq_entries', 'Completions::new/entries_len', 'entries_len is not the granted cq_entries', c.where(loc))
    r.floor(floor)


def r4_config_coverage(r, facts):
    f = facts.fn(BUILD_SYS)
    eb = ExprBuilder(f, multi='phi')
    cfg = facts.adt('io_uring::config::Config')
    names = [fl['name'] for fl in cfg['variants'][0]['fields']]
    r.require(sorted(names) == sorted(CONFIG_TABLE), 'Config/fields', 'Config fields %s differ from the coverage table %s (new setting: add its row)' % (sorted(names), sorted(CONFIG_TABLE)))
    # writes to parameters.<field> and flag ORs, with the Config fields that control / feed them
    field_src = {}
    flag_guard = {}
    # stores into parameters.<field>, and the fields of a struct literal `io_uring_params { sq_entries: .., flags: .., ..zeroed() }`
    writes = []
    for loc, s in f.assigns():
        lhs = s['lhs']
        fl = [p for p in lhs['p'] if p['k'] == 'field']
        if fl and (fl[-1].get('adt') or '').endswith('io_uring_params'):
            writes.append((loc, fl[-1]['name'], eb.rvalue(s['rv'])))
        elif not lhs['p'] and s['rv']['k'] == 'agg' and (s['rv'].get('adt') or '').endswith('io_uring_params'):
            for nm_, op_ in zip(s['rv']['fields'], s['rv']['ops']):
                e_ = eb.operand(op_)
                if any(x[0] == 'call' and x[1].endswith('mem::zeroed') for x in subexprs(e_)) and not any(x[0] == 'arg' for x in subexprs(e_)):
                    continue        # taken over from the zeroed base
                writes.append((loc, nm_, e_))
    for loc, pname, e in writes:
        srcs = set()
        for x in subexprs(e):
            if x[0] == 'proj':
                ap = access_path(x)
                if ap and ap[0][0] == 'arg' and ap[0][1] == 1:
                    parts = [p for p in ap[1].split('.') if p and p not in ('sys', '0')]
                    if parts:
                        srcs.add(parts[0])
        guards = {g[0] for g in config_guard_of(f, eb, loc)}
        if pname == 'flags':
            guards = config_guards(f, eb, loc)
            for x in subexprs(e):
                if x[0] == 'const' and x[2] and 'IORING_SETUP_' in str(x[2]):
                    flag_guard.setdefault(str(x[2]).rsplit('::', 1)[1], set()).update(guards | {'<unconditional>'} if not guards else guards)
        else:
            field_src.setdefault(pname, set()).update(srcs | guards)
    # flags accumulated in a local first (`let mut flags = ..; if self.clamp { flags |= CLAMP }; parameters.flags = flags`):
    # every integer local that flows into parameters.flags is a carrier; a flag constant counts where it enters a carrier,
    # with the settings tested there
    from .kernel import rvalue_operands
    carriers = set()
    changed = True
    while changed:
        changed = False
        for loc, s in f.assigns():
            lhs = s['lhs']
            fl = [p for p in lhs['p'] if p['k'] == 'field']
            is_flags = bool(fl) and (fl[-1].get('adt') or '').endswith('io_uring_params') and fl[-1]['name'] == 'flags'
            if not lhs['p'] and s['rv']['k'] == 'agg' and (s['rv'].get('adt') or '').endswith('io_uring_params') and 'flags' in (s['rv'].get('fields') or []):
                op_ = s['rv']['ops'][s['rv']['fields'].index('flags')]
                if 'l' in op_ and not op_['p'] and op_['l'] not in carriers:
                    carriers.add(op_['l'])
                    changed = True
            if is_flags or (not lhs['p'] and lhs['l'] in carriers):
                if s['rv']['k'] in ('use', 'bin', 'cast'):
                    for op in rvalue_operands(s['rv']):
                        if 'l' in op and not op['p'] and op['l'] not in carriers and f.locals[op['l']]['ty'] in ('u32', 'i32'):
                            carriers.add(op['l'])
                            changed = True
    for loc, s in f.assigns():
        lhs = s['lhs']
        if lhs['p'] or lhs['l'] not in carriers or s['rv']['k'] not in ('use', 'bin', 'cast'):
            continue
        guards = config_guards(f, eb, loc)
        ebl = ExprBuilder(f, multi='leaf')
        for op in rvalue_operands(s['rv']):
            if op.get('k') == 'const' and 'IORING_SETUP_' in (op.get('def') or ''):
                flag_guard.setdefault(op['def'].rsplit('::', 1)[1], set()).update(guards if guards else {'<unconditional>'})
            elif 'l' in op and op['l'] not in carriers:
                # a flag read out of a table row (`(cond, flag)` tuples folded into the accumulator)
                e_ = ebl.operand(op)
                while e_[0] == 'cast':
                    e_ = e_[4]
                if e_[0] == 'const' and e_[2] and 'IORING_SETUP_' in str(e_[2]):
                    flag_guard.setdefault(str(e_[2]).rsplit('::', 1)[1], set()).update(guards if guards else {'<unconditional>'})
    # ... and what a setting switched on is still there when the kernel is asked: bit-level must-analysis from each place a
    # setup flag enters parameters.flags (or a local on its way there) to io_uring_setup — a later plain assignment
    # (`parameters.flags = flags` after `parameters.flags |= CQSIZE`) loses it
    from .kernel import must_have_bits
    setup0 = [loc for loc, t in f.calls() if (t.get('callee') or '').endswith('io_uring_setup')]
    if setup0:
        for loc, s in f.assigns():
            lhs = s['lhs']
            fl = [p for p in lhs['p'] if p['k'] == 'field']
            is_flags = bool(fl) and (fl[-1].get('adt') or '').endswith('io_uring_params') and fl[-1]['name'] == 'flags' and lhs['p'][-1]['k'] == 'field'
            if not (is_flags or (not lhs['p'] and lhs['l'] in carriers)) or s['rv']['k'] not in ('use', 'bin', 'cast'):
                continue
            for op in rvalue_operands(s['rv']):
                if op.get('k') == 'const' and 'IORING_SETUP_' in (op.get('def') or '') and f.cval(op):
                    key = 'FIELD' if is_flags else lhs['l']
                    kept = must_have_bits(f, f.cval(op), setup0[0], field='flags', struct_suffix='io_uring_params', start=(loc, {key}))
                    r.require(kept, 'config:flag-lost:%s' % op['def'].rsplit('::', 1)[1], 'setup flag %s is set here but no longer part of io_uring_params.flags when io_uring_setup is called (overwritten by a later write)' % op['def'].rsplit('::', 1)[1], f.where(loc))
    if carriers:
        # what the final store of the accumulated value contributed as "unconditional" above is not a statement about the flags
        for fg, gs in flag_guard.items():
            if len(gs) > 1:
                gs.discard('<unconditional>')
    for name, row in CONFIG_TABLE.items():
        for pf in row['fields']:
            got = field_src.get(pf, set())
            r.inst('Config.%s -> params.%s (%s)' % (name, pf, sorted(got)), f.where())
            r.require(name in got, 'config:%s->%s' % (name, pf), 'setting `%s` does not reach io_uring_params.%s (found sources %s): the setting is silently ignored' % (name, pf, sorted(got)), f.where())
        for fg in row['flags']:
            got = flag_guard.get(fg, set())
            r.inst('Config.%s -> %s (%s)' % (name, fg, sorted(got)), f.where())
            r.require(name in got, 'config:%s->%s' % (name, fg), 'setup flag %s is not controlled by setting `%s` (controlled by %s)' % (fg, name, sorted(got)), f.where())
        if row.get('register'):
            regs = [(loc, t) for loc, t in f.calls() if (t.get('callee') or '') == 'io_uring::Shared::register']
            ok = False
            for loc, t in regs:
                op = eb.operand(t['args'][1])
                if op[0] == 'const' and str(op[2]).endswith(row['register']):
                    ok = name in {g[0] for g in config_guard_of(f, eb, loc)}
            # ... and the table size registered is the configured one
            nr_exprs = []
            for loc2, s2 in f.assigns():
                fl2 = [p_ for p_ in s2['lhs']['p'] if p_['k'] == 'field']
                if fl2 and (fl2[-1].get('adt') or '').endswith('io_uring_rsrc_register') and fl2[-1]['name'] == 'nr':
                    nr_exprs.append((loc2, eb.rvalue(s2['rv'])))
                if not s2['lhs']['p'] and s2['rv']['k'] == 'agg' and (s2['rv'].get('adt') or '').endswith('io_uring_rsrc_register') and 'nr' in (s2['rv'].get('fields') or []):
                    nr_exprs.append((loc2, eb.operand(s2['rv']['ops'][s2['rv']['fields'].index('nr')])))
            if r.require(bool(nr_exprs), 'config:%s->nr' % name, 'io_uring_rsrc_register.nr is never set', f.where()):
                for loc2, e2 in nr_exprs:
                    from_cfg = any(x[0] == 'proj' and (access_path(x) or (None, ''))[0] is not None and access_path(x)[0][0] == 'arg' and name in access_path(x)[1].split('.') for x in subexprs(e2))
                    r.inst('rsrc_register.nr = %s' % (str(e2)[:80],), f.where(loc2))
                    r.require(from_cfg, 'config:%s->nr' % name, 'the number of direct descriptor slots registered (%s) is not the configured `%s`: the setting is ignored' % (str(e2)[:120], name), f.where(loc2))
            r.inst('Config.%s -> register(%s)' % (name, row['register']), f.where())
            r.require(ok, 'config:%s->register' % name, 'setting `%s` does not trigger register(%s)' % (name, row['register']), f.where())
    # the requested size is what is passed to io_uring_setup
    setup = [(loc, t) for loc, t in f.calls() if (t.get('callee') or '').endswith('io_uring_setup')]
    if setup:
        a0 = eb.operand(setup[0][1]['args'][0])
        r.require(fam.last_field(a0) == 'sq_entries', 'config:setup-entries', 'io_uring_setup is not given parameters.sq_entries: %s' % (a0,), f.where(setup[0][0]))
    ring_lengths(r, facts, floor=0)
    r.floor(12)


def r5_error_exits(r, facts):
    f = facts.fn(BUILD_SYS)
    rets = f.returns()
    res = []
    for i, l in enumerate(f.locals):
        ty = l['ty']
        if ty in ('std::os::fd::OwnedFd', 'io_uring::sq::Submissions', 'io_uring::cq::Completions', 'io_uring::Shared'):
            if f.local_name(i).startswith('_') and not f.defs.get(i):
                continue
            res.append((i, ty))
    r.require(len({t for _, t in res}) >= 3, 'build_sys/resources', 'expected OwnedFd, Submissions and Completions locals, found %s' % sorted({t for _, t in res}), f.where())
    for i, ty in res:
        defs = [d for d in f.defs.get(i, []) if not f.blocks[d[0][0]]['cleanup']]
        if not defs:
            continue
        consumers = []
        for b, blk in enumerate(f.blocks):
            if blk['cleanup']:
                continue
            tt = blk['term']
            if tt['k'] == 'drop' and tt['place']['l'] == i and not tt['place']['p']:
                consumers.append(f.term_loc(b))
            if tt['k'] == 'call':
                for a in tt['args']:
                    if a.get('k') == 'move' and 'l' in a and a['l'] == i and not a['p']:
                        consumers.append(f.term_loc(b))
            for k, s in enumerate(blk['stmts']):
                if s['k'] == 'assign':
                    for op in rvalue_operands(s['rv']):
                        if op.get('k') == 'move' and 'l' in op and op['l'] == i and not op['p']:
                            consumers.append(Loc(b, k))
        for d in defs:
            loc = d[0]
            hit = f.forward_paths_hit([], rets, blockers=consumers, arm_at=loc)
            r.inst('%s (_%d: %s) dropped or moved on every exit' % (f.local_name(i), i, ty), f.where(loc))
            r.require(hit is None, 'build_sys/leak:%s' % ty.rsplit('::', 1)[1], 'a path from the creation of the %s to a function exit neither drops it nor moves it into the result (descriptor/mapping left behind on that error exit)' % ty, f.where(hit[0]) if hit else '')
    # nobody forgets / leaks a resource
    for loc, t in f.calls():
        n = t.get('callee') or ''
        if n in ('std::mem::forget', 'std::mem::ManuallyDrop::<T>::new') or n.endswith('into_raw_fd') or n.endswith('Box::<T>::leak'):
            r.bad('build_sys/forget', 'build_sys disarms a destructor with %s' % n, f.where(loc))
    r.floor(3)


def r6_build(r, facts):
    f = facts.fn("config::Config::<'r>::build")
    eb = ExprBuilder(f, multi='phi')
    rings = [loc for loc, s in f.assigns() if s['rv']['k'] == 'agg' and s['rv'].get('adt') == 'Ring']
    calls = f.calls_to(BUILD_SYS)
    if not r.require(len(rings) == 1 and len(calls) == 1, 'Config::build', 'Ring aggregate / build_sys call not found', f.where()):
        return
    # the Ok edge of the build_sys result: `?`, `match`, `if let` or an is_ok() flag
    from .kernel import result_edges
    re_ = result_edges(f, calls[0][1])
    cont = re_[0] if re_ else None
    r.inst('Ring constructed on the Ok edge of build_sys', f.where(rings[0]))
    r.require(cont is not None and f.edge_dominates(cont, rings[0]), 'Config::build/ring', 'a Ring is constructed without build_sys having succeeded', f.where(rings[0]))
    e = eb.rvalue(f.at(rings[0])['rv'])
    from_sys = lambda a: any(x[0] == 'call' and (x[1].endswith('Try::branch') or x[1] == BUILD_SYS or (x[3] if len(x) > 3 else None) == BUILD_SYS) for x in subexprs(a))
    r.require(all(from_sys(a) for a in e[3]), 'Config::build/parts', 'the Ring is not built from the queues returned by build_sys', f.where(rings[0]))
    r.floor(1)


def r7_setters(r, facts):
    """every setting build_sys honours can be *set*: for each row of the configuration table some public builder method
    (a `pub fn(self, ..) -> Self` of the Config) stores into that field — a value derived from its parameter, or the
    constant that switches the option on — on every path to its return.  (R4 decides that build_sys honours the stored
    setting; a builder that forgets the store makes the option silently unavailable.)"""
    writers = {}
    n = 0
    for f in facts.func_list:
        if f.kind == 'closure' or not (f.j.get('vis') or '').lower().startswith('pub') or 'config' not in f.path.lower():
            continue
        eb = None
        for loc, s_ in f.assigns():
            fl = [p_.get('name') for p_ in s_['lhs']['p'] if p_['k'] == 'field']
            if len(fl) >= 1 and fl[-1] in CONFIG_TABLE and s_['lhs']['l'] == 1 and not f.blocks[loc[0]]['cleanup'] and (len(fl) == 1 or fl[-2] == 'sys'):
                eb = eb or ExprBuilder(f, multi='phi')
                e = eb.rvalue(s_['rv'])
                from_param = any(x[0] == 'arg' and x[1] >= 2 for x in subexprs(e))
                is_bool = (s_['lhs'].get('ty') or '') == 'bool'
                switched_on = (e[0] == 'const' and is_bool and e[1] in (True, 1) and e[1] not in (False, 0)) or \
                              (e[0] == 'const' and not is_bool and isinstance(e[1], int) and not isinstance(e[1], bool) and f.nargs == 1)
                writers.setdefault(fl[-1], []).append((f, loc, from_param or switched_on, e))
    for name in CONFIG_TABLE:
        ws = writers.get(name, [])
        good = [(f, loc) for f, loc, ok, e in ws if ok]
        r.inst('Config.%s is set by %s' % (name, sorted({f.path.rsplit('::', 1)[1] for f, loc in good})), good[0][0].where(good[0][1]) if good else '')
        if not r.require(bool(good), 'setter:%s' % name, 'no public builder method stores the setting `%s` (from its parameter / switching it on): the option cannot be selected' % name):
            continue
        n += 1
        # in each such method the store is on every path to the return
        for f in {f for f, loc in good}:
            locs = [loc for f2, loc in good if f2 is f]
            hit = f.forward_paths_hit([Loc(0, 0)], f.returns(), blockers=locs)
            r.require(hit is None, 'setter:%s/%s' % (name, f.path.rsplit('::', 1)[1]), 'a path through %s returns without storing `%s`' % (f.path, name), f.where())
    r.floor(len(CONFIG_TABLE))



def check(ctx):
    ctx.run('C18.R1', 'ring descriptor owned at birth (OwnedFd::from_raw_fd is the only use of the raw setup result)', r1_fd_owned)
    ctx.run('C18.R2', 'map/unmap pairing on every exit of mmap, Shared::new, Completions::new', r2_map_unmap)
    ctx.run('C18.R3', 'required kernel features verified (Err) before Shared::new', r3_features)
    ctx.run('C18.R4', 'configuration coverage: every Config field reaches its io_uring_params field / setup flag', r4_config_coverage)
    ctx.run('C18.R5', 'every exit of build_sys drops or hands over each owned resource', r5_error_exits)
    ctx.run('C18.R6', 'Config::build constructs Ring only on the Ok edge', r6_build)
    ctx.run('C18.R7', 'every setting has a public builder method that stores it (parameter-derived / switched on) on every path', r7_setters)
