"""C12 Teardown in any order is safe and releases everything."""
import re

from .kernel import (ExprBuilder, Loc, access_path, subexprs, variant_edges, is_local, rvalue_places, table_rows, table_loop_complete)
from . import families as fam
from . import life

EXPLANATION = (
    'Decides: (R1) ownership census — pointers into the CQ mapping live only in Completions, which only Ring '
    'owns; every other handle reaches kernel-shared memory through Arc<Shared>; ReadBuf and ReadBufPool hold '
    'Arc<sys ReadBufPool>; (R2) unmap agreement — each munmap(ptr, len) in <Shared as Drop>::drop / '
    '<Completions as Drop>::drop uses the pointer field stored at creation and a length expression that, after '
    "substituting the constructor's field values, equals the length passed to the mmap that produced that "
    'pointer; (R3) the ring descriptor is owned only by Shared.rfd (OwnedFd) and <Shared as Drop>::drop '
    'neither moves nor closes it, so it is closed by field drop glue after the body unmapped; (R4) Ring::drop '
    '-> Completions::drop: submit pending entries (enter), then register(SYNC_CANCEL, ANY|ALL), then an enter '
    'with IORING_ENTER_GETEVENTS (poll alone skips the system call when completions are queued; needed to '
    'fetch deferred task work), then a processing poll, with every step reached on every path (errors are '
    'logged, not returned); (R5) <ReadBufPool as Drop>::drop unregisters the ring before both deallocs, each '
    'dealloc layout comes from the same alloc_layout_* function with the same field arguments as in new, the '
    "buffers' dealloc is on the non-null edge; (R6) a descriptor dropped after its Ring must notice that "
    'nobody will submit the queued CLOSE — known finding K5; (R8/R9) an AsyncFd dropped in any state releases '
    'exactly its own descriptor (C07.R4/R5: queued close XOR one synchronous close of the right kind, '
    'encodings name the descriptor itself). Absence of crashes for all permutations at run time is not '
    'decided.'
)
NOT_DECIDED = "crash-freedom for every permutation of drops at run time"
ASSUMPTIONS = ["struct fields are dropped after the Drop::drop body (language guarantee)"]

SHARED_DROP = '<io_uring::Shared as std::ops::Drop>::drop'
CQ_DROP = '<io_uring::cq::Completions as std::ops::Drop>::drop'
CQ_TEARDOWN = 'io_uring::cq::Completions::drop'
POOL = 'io_uring::io::ReadBufPool'
POOL_DROP = '<io_uring::io::ReadBufPool as std::ops::Drop>::drop'


def fields_of(a):
    return [(fl['name'], fl['ty']) for v in a['variants'] for fl in v['fields']]


def r1_census(r, facts):
    n = 0
    for a in facts.adts.values():
        for name, ty in fields_of(a):
            if re.search(r'\bio_uring::cq::Completions\b', ty):
                n += 1
                r.inst('%s.%s: %s' % (a['path'], name, ty))
                r.require(a['path'] == 'Ring' and ty == 'io_uring::cq::Completions', 'Completions-holder:%s' % a['path'], 'Completions (pointers into the CQ mapping) is held outside Ring: %s.%s' % (a['path'], name))
            if re.search(r'NonNull<io_uring::cq::Completion>', ty):
                r.inst('%s.%s: %s' % (a['path'], name, ty))
                r.require(a['path'] == 'io_uring::cq::Completions', 'cq-pointer:%s' % a['path'], 'a pointer into the CQ entries is stored outside Completions')
            if re.search(r'\bio_uring::io::ReadBufPool\b', ty):
                r.inst('%s.%s: %s' % (a['path'], name, ty))
                r.require(ty == 'std::sync::Arc<io_uring::io::ReadBufPool>', 'pool-holder:%s.%s' % (a['path'], name), 'the pool allocation is held other than through Arc: %s' % ty)
            if re.search(r'(^|[<\s(,])io_uring::Shared($|[>,)\s])', ty):
                r.inst('%s.%s: %s' % (a['path'], name, ty))
                r.require(ty == 'std::sync::Arc<io_uring::Shared>', 'shared-holder:%s.%s' % (a['path'], name), 'io_uring::Shared held other than through Arc: %s' % ty)
    ring = facts.adt('Ring')
    rf = dict(fields_of(ring))
    r.require(rf.get('cq') == 'io_uring::cq::Completions' and rf.get('sq') in ('SubmissionQueue', 'io_uring::sq::Submissions'), 'Ring', 'Ring is not {cq: Completions, sq: Submissions}: %s' % rf)
    for tr in ('std::clone::Clone',):
        r.require(not facts.has_impl(tr, 'io_uring::cq::Completions'), 'Completions:Clone', 'Completions is Clone')
        r.require(not facts.has_impl(tr, 'Ring'), 'Ring:Clone', 'Ring is Clone')
    r.floor(4)


def norm(e):
    """normalise a length expression: drop casts and overflow-tuple projections"""
    k = e[0]
    if k == 'cast':
        return norm(e[4])
    if k == 'proj' and e[2] == ('.0',) and e[1][0] == 'bin':
        return norm(e[1])
    if k == 'proj' and len(e) > 3:
        return ('proj', norm(e[1]), e[2])
    if k == 'bin':
        op = e[1].replace('WithOverflow', '').replace('Unchecked', '')
        a, b = norm(e[2]), norm(e[3])
        if op in ('Mul', 'Add') and repr(a) > repr(b):
            a, b = b, a
        return ('bin', op, a, b)
    if k == 'call':
        return ('call', e[1], tuple(norm(a) for a in e[2]))
    if k == 'const':
        return ('const', e[1], e[2])
    if k in ('arg', 'local'):
        return (k, e[1])
    if k == 'ref':
        return norm(e[1])  # a captured-by-reference value read through the reference
    return e


def subst_self_fields(e, fieldmap):
    """replace (*self).F by fieldmap[F]"""
    k = e[0]
    if k == 'proj' and e[1][0] == 'arg' and e[1][1] == 1:
        names = [p[1:] for p in e[2] if p.startswith('.')]
        if names and '.'.join(names) in fieldmap:
            return fieldmap['.'.join(names)]
    if k in ('cast',):
        return type(e)((e[0], e[1], e[2], e[3], subst_self_fields(e[4], fieldmap)))
    if k == 'bin':
        return type(e)((e[0], e[1], subst_self_fields(e[2], fieldmap), subst_self_fields(e[3], fieldmap)))
    if k == 'proj':
        return type(e)((e[0], subst_self_fields(e[1], fieldmap), e[2]) + tuple(e[3:]))
    if k == 'call':
        return type(e)((e[0], e[1], tuple(subst_self_fields(a, fieldmap) for a in e[2])) + tuple(e[3:]))
    return e


def constructor_fields(f, adt):
    eb = ExprBuilder(f, multi='phi')
    for loc, s in f.assigns():
        rv = s['rv']
        if rv['k'] == 'agg' and rv.get('adt') == adt:
            fm = dict(zip(rv['fields'], [eb.operand(o) for o in rv['ops']]))
            # a field that is itself a small struct (`submission_ring: Mapping { addr, len }`): its fields under dotted names
            for k_, v_ in list(fm.items()):
                if v_[0] == 'agg' and v_[2] and '::' in v_[1] and len(v_[2]) == len(v_[3]):
                    for n2, v2 in zip(v_[2], v_[3]):
                        fm['%s.%s' % (k_, n2)] = v2
            return loc, fm
    return None, None


def mmap_len_of(e):
    """e is the constructor value of a pointer field: find the io_uring::mmap call it derives from"""
    for x in subexprs(e):
        if x[0] == 'call' and x[1] == 'io_uring::mmap':
            return x[2][0]
    return None


def r2_unmap_agreement(r, facts):
    for dpath, npath, adt in ((SHARED_DROP, 'io_uring::Shared::new', 'io_uring::Shared'), (CQ_DROP, 'io_uring::cq::Completions::new', 'io_uring::cq::Completions')):
        d = facts.fn(dpath)
        n = facts.fn(npath)
        loc0, fm = constructor_fields(n, adt)
        if not r.require(fm is not None, dpath, 'constructor aggregate of %s not found in %s' % (adt, npath), n.where()):
            continue
        ed = ExprBuilder(d, multi='phi')
        ums = d.calls_to('io_uring::munmap')
        want = 2 if adt.endswith('Shared') else 1
        # one entry per unmapping: a munmap call, or a row of the table a munmap loop runs over
        sites = []
        for loc, t in ums:
            p, ln = ed.operand(t['args'][0]), ed.operand(t['args'][1])
            rp, rl = table_rows(p), table_rows(ln)
            if rp is not None and rl is not None and len(rp) == len(rl) and table_loop_complete(d, loc):
                sites += [(loc, a, b) for a, b in zip(rp, rl)]
            else:
                sites.append((loc, p, ln))
        r.require(len(sites) == want, dpath + '/count', 'expected %d munmap call(s) in %s, found %d' % (want, dpath, len(sites)), d.where())
        seen = set()
        for loc, p, ln in sites:
            ap = access_path(p)
            fld = (ap[1] if ap[1] in fm else ap[1].split('.')[-1]) if ap and ap[0][0] == 'arg' else None
            if not r.require(fld in fm, dpath + '/ptr', 'munmap pointer is not a field stored at creation: %s' % (p,), d.where(loc)):
                continue
            seen.add(fld)
            m = mmap_len_of(fm[fld])
            if not r.require(m is not None, dpath + '/' + fld, 'field %s is not the result of an mmap in %s' % (fld, npath), n.where(loc0)):
                continue
            got = norm(subst_self_fields(ln, fm))
            wantn = norm(m)
            r.inst('%s: munmap(self.%s, %s) vs mmap(%s)' % (adt, fld, ln, m), d.where(loc))
            r.require(got == wantn, dpath + '/' + fld, 'munmap length for %s differs from the mapped length: drop uses %s, new mapped %s' % (fld, ln, m), d.where(loc))
        # every mmap'ed field is unmapped
        for fld, e in fm.items():
            if any(x[0] == 'call' and x[1] == 'io_uring::mmap' for x in subexprs(e)) and mmap_len_of(e) is not None and e[0] != 'call' or (e[0] == 'proj' and mmap_len_of(e) is not None):
                pass
        mapped = {fld for fld, e in fm.items() if _is_mmap_result(e)}
        for fld in mapped:
            r.require(fld in seen, dpath + '/leak:' + fld, 'mapping stored in %s.%s is never unmapped in Drop' % (adt, fld), d.where())
    r.floor(3, 'munmap sites')


def _is_mmap_result(e):
    # the field holds the mapping pointer itself (possibly cast), not an offset into it
    x = e
    while x[0] == 'cast' or (x[0] == 'call' and x[1].endswith('::cast')):
        x = x[4] if x[0] == 'cast' else x[2][0]
    if x[0] == 'proj' and any('@Continue' in p or '@Ok' in p for p in x[2]):
        x = x[1]
    while x[0] == 'call' and (x[1].endswith('Try::branch') or x[1].endswith('inspect_err')):
        x = x[2][0]
    return x[0] == 'call' and x[1] == 'io_uring::mmap'


def r3_fd_after_unmaps(r, facts):
    sh = facts.adt('io_uring::Shared')
    owned = [(n, t) for n, t in fields_of(sh) if 'OwnedFd' in t]
    r.inst('Shared fd owner fields: %s' % owned)
    r.require(owned == [('rfd', 'std::os::fd::OwnedFd')], 'Shared.rfd', 'the ring descriptor is not owned by exactly Shared.rfd: OwnedFd')
    for a in facts.adts.values():
        if a['path'] == 'io_uring::Shared':
            continue
        if a['path'].startswith('io_uring::') and any('OwnedFd' in t for n, t in fields_of(a)):
            r.bad('other-fd-owner:%s' % a['path'], 'another io_uring type owns a descriptor via OwnedFd')
    d = facts.fn(SHARED_DROP)
    for loc, s in d.assigns(cleanup=True):
        for pl in [s['lhs']] + rvalue_places(s['rv']):
            if any(p['k'] == 'field' and p.get('name') == 'rfd' for p in pl['p']):
                r.bad('Shared::drop/rfd', 'Drop of Shared touches rfd (it must stay open until the body has unmapped; field glue closes it afterwards)', d.where(loc))
    for loc, t in d.calls(cleanup=True):
        n = t.get('callee') or ''
        if n in ('libc::close',) or n.endswith('into_raw_fd') or n == 'std::ptr::drop_in_place' or n == 'std::mem::drop':
            r.bad('Shared::drop/closes', 'Drop of Shared calls %s' % n, d.where(loc))
    r.inst('Shared::drop does not touch rfd', d.where())
    # ring_fd() is a read via as_raw_fd
    r.floor(2)


def r4_ring_teardown(r, facts):
    rd = facts.fn('<Ring as std::ops::Drop>::drop')
    calls = rd.calls_to(CQ_TEARDOWN)
    r.inst('Ring::drop -> Completions::drop', rd.where())
    r.require(len(calls) == 1, 'Ring::drop', 'Ring::drop does not call Completions::drop(shared)', rd.where())
    f = facts.fn(CQ_TEARDOWN)
    eb = ExprBuilder(f, multi='phi')
    enters = f.calls_to('io_uring::Shared::enter')
    regs = f.calls_to('io_uring::Shared::register')
    polls = f.calls_to('io_uring::cq::Completions::poll')
    if not r.require(len(enters) >= 1 and len(regs) == 1 and len(polls) >= 1, 'Completions::drop/steps', 'teardown steps missing (enter=%d register=%d poll=%d)' % (len(enters), len(regs), len(polls)), f.where()):
        return
    rets = f.returns()
    rl, rt = regs[0]
    op = eb.operand(rt['args'][1])
    r.require(op[0] == 'const' and op[1] == facts.const('io_uring::libc::IORING_REGISTER_SYNC_CANCEL'), 'Completions::drop/cancel-op', 'register is not IORING_REGISTER_SYNC_CANCEL', f.where(rl))
    # flags ANY|ALL in the cancel struct
    anyf, allf = facts.const('io_uring::libc::IORING_ASYNC_CANCEL_ANY'), facts.const('io_uring::libc::IORING_ASYNC_CANCEL_ALL')
    okf = False
    for loc, s in f.assigns():
        fl = [p.get('name') for p in s['lhs']['p'] if p['k'] == 'field']
        rv = s['rv']
        e = eb.rvalue(rv)
        if (fl[-1:] == ['flags'] and 'io_uring_sync_cancel_reg' in str([p.get('adt') for p in s['lhs']['p']])) or (rv['k'] == 'agg' and (rv.get('adt') or '').endswith('io_uring_sync_cancel_reg')):
            cs = {x[1] for x in subexprs(e) if x[0] == 'const'}
            if anyf in cs and allf in cs or (anyf | allf) in cs:
                okf = True
    r.require(okf, 'Completions::drop/cancel-flags', 'sync cancel does not use IORING_ASYNC_CANCEL_ANY | ALL', f.where(rl))
    first_enter = min(enters, key=lambda x: len(f.dom.get(x[0][0], ())))
    r.inst('enter -> register(SYNC_CANCEL) -> poll', f.where(rl))
    r.require(f.dominates(first_enter[0], rl), 'Completions::drop/order', 'pending submissions are not flushed (enter) before cancelling', f.where(rl))
    after_cancel_poll = [l for l, t in polls if f.dominates(rl, l)]
    r.require(bool(after_cancel_poll), 'Completions::drop/no-reclaim', 'no Completions::poll after the cancel: states of cancelled operations are never reclaimed', f.where(rl))
    # Completions::poll does not enter the kernel when completions are already queued, and with
    # IORING_SETUP_DEFER_TASKRUN the results of the cancelled operations are only posted by an enter with
    # IORING_ENTER_GETEVENTS: such an enter must sit between the cancel and the final poll
    ge = facts.const('io_uring::libc::IORING_ENTER_GETEVENTS')
    gets = []
    for l, t in enters:
        fl = eb.operand(t['args'][2])
        if any(x[0] == 'const' and x[1] is not None and x[1] & ge for x in subexprs(fl)):
            gets.append(l)
    okg = any(f.dominates(rl, l) and any(f.dominates(l, pl) for pl in after_cancel_poll) for l in gets)
    r.inst('enter(GETEVENTS) between cancel and final poll: %s' % okg, f.where(gets[0]) if gets else f.where())
    r.require(okg, 'Completions::drop/no-getevents', 'no enter with IORING_ENTER_GETEVENTS between the sync cancel and the final poll: poll skips the system call when the completion queue is not empty, so with deferred task running the cancelled operations\' completions are never fetched and their state is never reclaimed', f.where(rl))
    # every step is reached on every path: from entry, cannot return without passing each
    for what, locs in (('flush (enter)', [first_enter[0]]), ('sync cancel', [rl]), ('final poll', after_cancel_poll)):
        hit = f.forward_paths_hit([Loc(0, 0)], rets, blockers=locs)
        r.require(hit is None, 'Completions::drop/skips:%s' % what.split()[0], 'a path through teardown returns without the %s step (an earlier error returns early)' % what, f.where(hit[0]) if hit else '')
    # first enter submits everything: min_complete = MAX is irrelevant; check it is not GETEVENTS-only with 0 submit: unsubmitted is computed inside enter
    r.floor(2)


def r5_pool_drop(r, facts):
    d = facts.fn(POOL_DROP)
    n = facts.fn(POOL + '::new')
    ed = ExprBuilder(d, multi='phi')
    en = ExprBuilder(n, multi='phi')
    regs = [(l, t) for l, t in d.calls() if (t.get('callee') or '') == 'io_uring::Shared::register']
    deallocs = [(l, t) for l, t in d.calls() if (t.get('callee') or '') in ('std::alloc::dealloc', 'alloc::alloc::dealloc')]
    if not r.require(len(regs) == 1 and len(deallocs) == 2, 'ReadBufPool::drop', 'expected 1 unregister and 2 deallocs (found %d/%d)' % (len(regs), len(deallocs)), d.where()):
        return
    rl, rt = regs[0]
    op = ed.operand(rt['args'][1])
    r.require(op[0] == 'const' and op[1] == facts.const('io_uring::libc::IORING_UNREGISTER_PBUF_RING'), 'ReadBufPool::drop/op', 'pool is not unregistered with IORING_UNREGISTER_PBUF_RING', d.where(rl))
    # bgid of the unregister request is self.id
    okid = False
    for loc, s in d.assigns():
        rv = s['rv']
        if rv['k'] == 'agg' and (rv.get('adt') or '').endswith('io_uring_buf_reg'):
            e = ed.operand(rv['ops'][rv['fields'].index('bgid')])
            okid = fam.last_field(e) == 'id'
    r.require(okid, 'ReadBufPool::drop/bgid', 'unregister request does not name this pool (bgid = self.id)', d.where(rl))
    _, fm = constructor_fields(n, POOL)
    # layouts used at allocation
    alloc_layout = {}
    for fld in ('ring_addr', 'bufs_addr'):
        e = fm.get(fld) if fm else None
        if e is None:
            continue
        for x in subexprs(e):
            if x[0] == 'call' and x[1] in ('std::alloc::alloc', 'std::alloc::alloc_zeroed'):
                alloc_layout[fld] = x[2][0]
    for loc, t in deallocs:
        r.require(d.dominates(rl, loc), 'ReadBufPool::drop/order', 'memory is freed before the kernel was told to stop using the pool (unregister after dealloc)', d.where(loc))
        p, lay = ed.operand(t['args'][0]), ed.operand(t['args'][1])
        fld = fam.last_field(p)
        r.inst('dealloc(self.%s, %s)' % (fld, str(lay)[:120]), d.where(loc))
        if not r.require(fld in alloc_layout, 'ReadBufPool::drop/ptr', 'dealloc of something that new() did not allocate: %s' % (p,), d.where(loc)):
            continue
        fn_d = [x for x in subexprs(lay) if x[0] == 'call' and x[1].startswith('io_uring::io::alloc_layout_')]
        fn_n = [x for x in subexprs(alloc_layout[fld]) if x[0] == 'call' and x[1].startswith('io_uring::io::alloc_layout_')]
        ok = bool(fn_d) and bool(fn_n) and fn_d[0][1] == fn_n[0][1]
        if ok:
            # arguments: drop uses self.F, new uses the value stored in F
            args_d = [norm(subst_self_fields(a, fm)) for a in fn_d[0][2]]
            args_n = [norm(a) for a in fn_n[0][2]]
            ok = args_d == args_n
        r.require(ok, 'ReadBufPool::drop/layout:%s' % fld, 'dealloc layout of %s is not computed like the allocation layout in new (%s vs %s)' % (fld, fn_d[:1], fn_n[:1]), d.where(loc))
        if fld == 'bufs_addr':
            # on the non-null edge
            guarded = False
            for b, blk in enumerate(d.blocks):
                tt = blk['term']
                if tt['k'] == 'switch' and not blk['cleanup']:
                    de = ed.operand(tt['discr'])
                    if any(x[0] == 'call' and x[1].endswith('is_null') for x in subexprs(de)):
                        for tgt in set(d.succ[b]):
                            if d.edge_dominates((b, tgt), loc):
                                guarded = True
            r.require(guarded, 'ReadBufPool::drop/null', 'buffers are deallocated without the null check (new() may have failed to allocate them)', d.where(loc))
    r.floor(2)


def r6_fd_after_ring(r, facts):
    """W = fields of io_uring::Shared stored to in the call tree of Ring::drop;
    L = fields of Shared read on the accepting path of Submissions::add. The
    decision to accept a submission must depend on some field in W."""
    def shared_field_writes(f):
        out = set()
        for loc, s in f.assigns():
            for p in s['lhs']['p']:
                if p['k'] == 'field' and p.get('adt') == 'io_uring::Shared':
                    out.add(p['name'])
        for loc, t in f.calls():
            # interior mutability: &self.field passed to lock/atomic ops that mutate
            n = t.get('callee') or ''
            if n in ('lock', 'try_lock', PollingStateFns[0], PollingStateFns[1]):
                e = ExprBuilder(f).operand(t['args'][0])
                fl = fam.last_field(e)
                if fl:
                    out.add(fl)
        return out
    PollingStateFns = ('PollingState::set_polling', 'PollingState::wake')
    seen = set()
    W = set()
    work = ['<Ring as std::ops::Drop>::drop']
    while work:
        p = work.pop()
        if p in seen:
            continue
        seen.add(p)
        f = facts.fn_opt(p)
        if f is None:
            continue
        W |= shared_field_writes(f)
        for loc, t in f.calls():
            n = t.get('resolved') or t.get('callee')
            if n and (n.startswith('io_uring::') or n.startswith('PollingState')) and n not in seen:
                work.append(n)
    add = facts.fn(life.ADD)
    L = set()
    for loc, s in add.assigns():
        for pl in rvalue_places(s['rv']):
            for p in pl['p']:
                if p['k'] == 'field' and p.get('adt') == 'io_uring::Shared':
                    L.add(p['name'])
    for loc, t in add.calls():
        if (t.get('callee') or '') == 'io_uring::Shared::unsubmitted_submissions':
            L |= {'submissions_head', 'submissions_tail'}
    r.inst('Shared fields written during Ring teardown: %s' % sorted(W))
    r.inst('Shared fields read when accepting a submission: %s' % sorted(L))
    r.require(bool(W & L), 'AsyncFd::drop', 'accepting a submission never depends on ring liveness (teardown writes %s, add reads %s): an AsyncFd dropped after its Ring queues a CLOSE that nobody will submit and returns without closing the descriptor (leak)' % (sorted(W), sorted(L)), add.where())
    r.floor(2)


def check(ctx):
    ctx.run('C12.R1', 'ownership census of kernel-shared memory handles', r1_census)
    ctx.run('C12.R2', 'unmap agreement: munmap pointer/length vs the mmap that created it', r2_unmap_agreement)
    ctx.run('C12.R3', 'ring fd owned only by Shared.rfd and untouched by Shared::drop (closed after the unmaps)', r3_fd_after_unmaps)
    ctx.run('C12.R4', 'Ring teardown: flush, sync-cancel ANY|ALL, reclaiming poll; no early return', r4_ring_teardown)
    ctx.run('C12.R5', 'ReadBufPool::drop: unregister before dealloc; layouts agree with new; null check', r5_pool_drop)
    ctx.run('C12.R6', 'descriptor dropped after the Ring: accepting a CLOSE must depend on ring liveness', r6_fd_after_ring)
    from . import c07
    ctx.run('C12.R8', 'an AsyncFd dropped in any state releases exactly its own descriptor: queued close XOR one synchronous close of the right kind (C07.R4)', c07.r4_drop_paths)
    ctx.run('C12.R9', 'close encodings name the dropped descriptor itself (fd / file_index = fd+1 / files_update.offset = fd) (C07.R5)', c07.r5_encodings)
    ctx.run('C12.R7', 'LIFE-3/4: abandoned states are reclaimed by the final completion processed in teardown', life.life4)
    from . import c18
    ctx.run('C12.R11', 'every mapping made while building the ring is unmapped on the error paths and handed to exactly one owner on success (no armed clean-up guard survives) (=C18.R2)', c18.r2_map_unmap)
    ctx.run('C12.R12', 'AsyncFd::close(self) moves the queue handle out of the disowned value exactly once: a clone next to the disowned original is a reference to the ring nobody ever drops (its descriptor and mappings are never released) (=C07.R6)', c07.r6_close_self)
    ctx.run('C12.R10', 'an operation abandoned while running is always marked Dropped (also when no cancel request could be queued): only then does a later poll or the teardown reclaim its state (=LIFE-3)', life.life3)
