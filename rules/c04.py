"""C04 Submission-queue integrity (DESIGN §3 C04)."""
from .kernel import (AnchorMissing, ExprBuilder, Loc, access_path, callee_name,
                     const_val, subexprs)
from . import families as fam

EXPLANATION = (
    'Decides structural necessary conditions of SQ integrity on every CFG path of Submissions::add / '
    'Shared::unsubmitted_submissions / enter / wake_blocked_futures / Config::build_sys / poll_inner: (R1) '
    "slot deref, fill call, fence and tail store lie inside the submissions_lock guard's must-hold region (not "
    'reachable from the entry, or from behind a release, without passing the lock call — a lock taken on one '
    'branch only holds nowhere after the join); (R2) the fill is dominated by the has-room edge of a '
    'comparison whose taken edge implies distance(tail,head) < len, with head loaded before tail inside the '
    'lock; (R3) fill -> tail store order, index = tail & (len-1), new tail = wrapping_add(tail,1), orderings '
    '>= Acquire/Release; (R4) the only store to the SQ tail is in add, none to the head; (R5) ring counters '
    'only flow into wrap-safe operations (counter typestate); (R6) IORING_SETUP_NO_SQARRAY is set '
    "unconditionally; (R7) QueueFull leads to wait_for_submission + Pending. It does not decide the kernel's "
    'side of the protocol nor hardware ordering beyond presence/order of fence and Release store.'
    ' Also decided: (R9 = C11.R6) in kernel-thread mode IORING_ENTER_SQ_WAKEUP is passed on the edge where IORING_SQ_NEED_WAKEUP is set; (R10) a reused slot is reset (whole entry) on every path before the fill closure runs; (R11 = C18.R4) Shared.kernel_thread / single_issuer are true exactly when the echoed setup flag is set.'
)
NOT_DECIDED = "kernel side of the SQ protocol; all-interleavings behaviour (only lock-region and guard structure are decided)"
ASSUMPTIONS = ["std::sync::Mutex provides mutual exclusion", "kernel consumes entries in [head, tail) only"]

ADD = 'io_uring::sq::Submissions::add'
UNSUB = 'io_uring::Shared::unsubmitted_submissions'
LEN_FIELD = 'submissions_len'

# comparison forms whose *taken* edge implies  dist < len
#  (op, dist_side, edge_value)
ROOM_FORMS = {
    ('Ge', 'a', 0), ('Lt', 'a', 1), ('Le', 'b', 0), ('Gt', 'b', 1),
}


def classify_distance(e):
    """is e a distance tail-head? returns ('wrapping'|'plain', tail_expr, head_expr) or None"""
    if e[0] == 'call' and e[1] == 'core::num::<impl u32>::wrapping_sub' and len(e[2]) == 2:
        return ('wrapping', e[2][0], e[2][1])
    if e[0] == 'bin' and e[1] in ('Sub', 'SubWithOverflow', 'SubUnchecked'):
        return ('plain', e[2], e[3])
    if e[0] == 'proj' and e[2] == ('.0',) and e[1][0] == 'bin' and e[1][1] == 'SubWithOverflow':
        return ('plain', e[1][2], e[1][3])
    return None


def load_word(e):
    """e is load_kernel_shared(<path>.word) -> word"""
    if e[0] == 'call' and e[1] == fam.LOAD_KERNEL_SHARED:
        return fam.last_field(e[2][0])
    return None


def find_fill_call(f):
    """the call of the FnOnce parameter (fill_submission) in add"""
    out = []
    for loc, t in f.calls():
        if t.get('callee') in ('std::ops::FnOnce::call_once', 'std::ops::Fn::call', 'std::ops::FnMut::call_mut') and t['args'] \
                and 'l' in t['args'][0]:
            e = ExprBuilder(f).operand(t['args'][0])
            if e[0] == 'arg':
                out.append((loc, t))
    return out


def r1_lock_region(r, facts):
    f = facts.fn(ADD)
    regs = fam.guard_regions(f, 'submissions_lock')
    if not r.require(len(regs) == 1, 'Submissions::add', 'expected exactly one lock(&shared.submissions_lock) in add, found %d' % len(regs), f.where()):
        return
    live = regs[0]['held']
    eb = ExprBuilder(f)
    sites = []
    for loc, t in f.calls():
        n = t.get('callee') or ''
        if n.startswith('std::ptr::NonNull::<T>::add') and fam.last_field(eb.operand(t['args'][0])) == 'submissions':
            sites.append(('slot-pointer', loc))
        if n == 'std::sync::atomic::fence':
            sites.append(('fence', loc))
        if n == 'std::sync::atomic::Atomic::<u32>::store' and fam.last_field(eb.operand(t['args'][0])) == 'submissions_tail':
            sites.append(('tail-store', loc))
        if n == 'io_uring::sq::Submission::reset':
            sites.append(('slot-reset', loc))
    for loc, t in find_fill_call(f):
        sites.append(('fill', loc))
    kinds = {k for k, _ in sites}
    for need in ('slot-pointer', 'fill', 'tail-store'):
        r.require(need in kinds, 'Submissions::add', 'site %r not found in add (unrecognised form)' % need, f.where())
    for k, loc in sites:
        r.inst('%s@add' % k, f.where(loc), 'inside submissions_lock guard' if loc in live else 'OUTSIDE guard')
        r.require(loc in live, 'Submissions::add/%s' % k, '%s can run without the submissions_lock guard held (outside the guard region, or the lock is not taken on every path to it)' % k, f.where(loc))
    # the lock must be released only after the tail store on every path from it
    r.floor(3)


def r2_fullness_guard(r, facts):
    f = facts.fn(ADD)
    regs = fam.guard_regions(f, 'submissions_lock')
    if len(regs) != 1:
        r.bad('Submissions::add', 'lock region not found')
        return
    live = regs[0]['held']
    eb = ExprBuilder(f)
    fills = find_fill_call(f)
    if not r.require(len(fills) == 1, 'Submissions::add', 'expected one fill_submission call, found %d' % len(fills), f.where()):
        return
    fill_loc = fills[0][0]
    accepted = []
    seen = []
    for b, blk in enumerate(f.blocks):
        if blk['cleanup'] or blk['term']['k'] != 'switch':
            continue
        loc = f.term_loc(b)
        if loc not in live:
            continue
        e = eb.operand(blk['term']['discr'])
        if e[0] != 'bin' or e[1] not in ('Lt', 'Le', 'Gt', 'Ge', 'Eq', 'Ne'):
            continue
        a, bb_ = e[2], e[3]
        da, db = classify_distance(a), classify_distance(bb_)
        side = 'a' if da else ('b' if db else None)
        if side is None:
            continue
        d = da or db
        other = bb_ if side == 'a' else a
        if fam.last_field(other) != LEN_FIELD:
            continue
        tw, hw = load_word(d[1]), load_word(d[2])
        seen.append((loc, e[1], side, d[0], tw, hw))
        if (tw, hw) != ('submissions_tail', 'submissions_head'):
            r.bad('Submissions::add', 'distance in the locked guard is not tail-head of the SQ counters (%s,%s)' % (tw, hw), f.where(loc))
            continue
        si = f.switch_info(b)
        for val in (0, 1):
            if (e[1], side, val) in ROOM_FORMS:
                tgt = si['values'].get(0) if val == 0 else si['otherwise']
                if val == 1 and 1 in si['values']:
                    tgt = si['values'][1]
                if tgt is None:
                    continue
                if f.edge_dominates((b, tgt), fill_loc):
                    accepted.append((loc, e[1], side, val))
                    continue
                # the test may first be turned into a value (`QueueFull::check(dist, len)?`: Ok/Err, then `?`): every path to
                # the slot write passes the test, and none arrives over its other (queue full) edge — value-driven
                others = [s2 for s2 in set(f.succ[b]) if s2 != tgt]
                if f.dominates(loc, fill_loc) and others and all(f.forward_paths_hit([Loc(o, 0)], [fill_loc], blockers=[loc]) is None for o in others):
                    accepted.append((loc, e[1], side, val))
    for s in seen:
        r.inst('guard %s(dist on %s) [%s]' % (s[1], s[2], s[3]), f.where(s[0]), 'tail=%s head=%s' % (s[4], s[5]))
    if not accepted:
        if seen:
            s = seen[0]
            r.bad('Submissions::add', 'the locked fullness test %s(distance on side %s, len) does not imply distance < len on the edge leading to the slot write (a full queue with distance == len is overrun)' % (s[1], s[2]), f.where(s[0]))
        else:
            r.bad('Submissions::add', 'no comparison of distance(tail,head) with submissions_len found inside the lock region (unrecognised form)', f.where())
        return
    r.idiom('%s/%s-edge' % (accepted[0][1], accepted[0][3]))
    # every other write into the slot (clearing it: Submission::reset, or a store through the slot reference) needs the room
    # test in front of it just like the fill: a slot cleared before the test is the oldest unconsumed entry when the
    # queue turns out to be full
    guard_locs = [a[0] for a in accepted]
    slot_writes = [l for l, t2 in f.calls() if (t2.get('callee') or '').endswith('sq::Submission::reset') and not f.blocks[l[0]]['cleanup']]
    for l, s_ in f.assigns():
        if s_['lhs']['p'] and any((p_.get('adt') or '').endswith('io_uring_sqe') or (p_.get('adt') or '').endswith('sq::Submission') for p_ in s_['lhs']['p'] if p_['k'] == 'field'):
            slot_writes.append(l)
    for l in slot_writes:
        r.inst('slot write', f.where(l))
        ok_w = False
        for gl in guard_locs:
            if not f.dominates(gl, l):
                continue
            room = _room_targets(f, eb, gl, fill_loc)
            full = [o for o in set(f.succ[gl[0]]) if o not in room]
            if room and all(f.forward_paths_hit([Loc(o, 0)], [l], blockers=[gl]) is None for o in full):
                ok_w = True
        r.require(ok_w, 'Submissions::add/slot-cleared-early', 'the submission slot is written (cleared) before the locked room test: when the queue is full this destroys the oldest entry the kernel has not consumed yet', f.where(l))
    # head loaded before tail, both inside the lock region
    loads = {}
    for loc, t in f.calls_to(fam.LOAD_KERNEL_SHARED):
        if loc in live:
            loads.setdefault(fam.last_field(eb.operand(t['args'][0])), []).append(loc)
    h, t_ = loads.get('submissions_head'), loads.get('submissions_tail')
    if r.require(bool(h) and bool(t_), 'Submissions::add/loads', 'head and tail are not (re)loaded inside the lock region', f.where()):
        r.inst('head-before-tail', f.where(h[0]), '')
        r.require(f.dominates(h[0], t_[0]), 'Submissions::add/loads', 'tail is loaded before head inside the lock (difference may underflow)', f.where(t_[0]))
    r.floor(2)


def _room_targets(f, eb, gl, fill_loc):
    """successors of the room test at gl over which the fill is reached (value-driven)"""
    out = set()
    for o in set(f.succ[gl[0]]):
        if f.forward_paths_hit([Loc(o, 0)], [fill_loc], blockers=[gl]) is not None:
            out.add(o)
    return out


def r3_order(r, facts):
    f = facts.fn(ADD)
    eb = ExprBuilder(f)
    fills = find_fill_call(f)
    stores = [(loc, t) for loc, t in f.calls_to('std::sync::atomic::Atomic::<u32>::store')
              if fam.last_field(eb.operand(t['args'][0])) == 'submissions_tail']
    if not r.require(len(fills) == 1 and len(stores) == 1, 'Submissions::add', 'fill/store sites not unique (fill=%d store=%d)' % (len(fills), len(stores)), f.where()):
        return
    fill_loc, (st_loc, st) = fills[0][0], stores[0]
    r.inst('fill-before-tail-store', f.where(st_loc))
    r.require(f.dominates(fill_loc, st_loc), 'Submissions::add/order', 'the tail store is not dominated by the fill_submission call (kernel may see a partially written entry)', f.where(st_loc))
    # nothing writes the slot after the store: the fill/reset calls are not reachable from the store
    after = f.reachable_locs([Loc(st['target'], 0)]) if st['target'] is not None else set()
    r.require(fill_loc not in after, 'Submissions::add/order', 'fill_submission reachable after the tail store', f.where(fill_loc))
    for loc, t in f.calls_to('io_uring::sq::Submission::reset'):
        r.require(loc not in after, 'Submissions::add/order', 'slot reset reachable after the tail store', f.where(loc))
    o = fam.ordering_of(f, st['args'][2])
    r.inst('tail-store ordering=%s' % o, f.where(st_loc))
    r.require(fam.ord_ok('store', o), 'Submissions::add/ORD', 'tail store uses Ordering::%s (needs Release or stronger)' % o, f.where(st_loc))
    # fences present must sit between fill and store
    for loc, t in f.calls_to('std::sync::atomic::fence'):
        fo = fam.ordering_of(f, t['args'][0])
        r.inst('fence %s' % fo, f.where(loc))
        r.require(f.dominates(fill_loc, loc) and f.dominates(loc, st_loc), 'Submissions::add/fence', 'fence is not between fill and tail store', f.where(loc))
    # value stored = wrapping_add(tail, 1)
    v = eb.operand(st['args'][1])
    okv = v[0] == 'call' and v[1] == 'core::num::<impl u32>::wrapping_add' and load_word(v[2][0]) == 'submissions_tail' \
        and v[2][1][0] == 'const' and v[2][1][1] == 1
    r.inst('new tail = %s' % (v,), f.where(st_loc))
    r.require(okv, 'Submissions::add/new-tail', 'stored tail is not wrapping_add(tail, 1): %s' % (v,), f.where(st_loc))
    # index = tail & (len-1) (or tail % len) of the same tail load
    idx = None
    for loc, t in f.calls():
        n = t.get('callee') or ''
        if n.startswith('std::ptr::NonNull::<T>::add') and fam.last_field(eb.operand(t['args'][0])) == 'submissions':
            idx = (loc, eb.operand(t['args'][1]))
    if r.require(idx is not None, 'Submissions::add/index', 'slot pointer computation not found', f.where()):
        e = idx[1]
        while e[0] == 'cast':
            e = e[4]
        ok = False
        if e[0] == 'bin' and e[1] == 'BitAnd':
            a, b = e[2], e[3]
            for x, m in ((a, b), (b, a)):
                if load_word(x) == 'submissions_tail' and _is_len_minus_1(m):
                    ok = True
        elif e[0] == 'bin' and e[1] == 'Rem':
            ok = load_word(e[2]) == 'submissions_tail' and fam.last_field(e[3]) == LEN_FIELD
        r.inst('index = %s' % (e,), f.where(idx[0]))
        r.require(ok, 'Submissions::add/index', 'slot index is not tail & (len-1): %s' % (e,), f.where(idx[0]))
        if ok and okv:
            # the same tail load feeds index and new tail
            r.require(_first_load(e) == _first_load(v), 'Submissions::add/index', 'index and new tail use different tail loads', f.where(idx[0]))
    # ORD on loads
    lk = facts.fn(fam.LOAD_KERNEL_SHARED)
    for loc, t, m in fam.atomic_sites(lk):
        o = fam.ordering_of(lk, t['args'][-1])
        r.inst('load_kernel_shared %s ordering=%s' % (m, o), lk.where(loc))
        r.require(m == 'load' and fam.ord_ok('load', o), 'load_kernel_shared/ORD', 'kernel-shared load uses %s(%s) (needs Acquire)' % (m, o), lk.where(loc))
    r.floor(5)


def _is_len_minus_1(m):
    if m[0] == 'proj' and m[2] == ('.0',):
        m = m[1]
    return m[0] == 'bin' and m[1] in ('Sub', 'SubWithOverflow', 'SubUnchecked') and fam.last_field(m[2]) == LEN_FIELD \
        and m[3][0] == 'const' and m[3][1] == 1 or \
        (m[0] == 'call' and m[1] == 'core::num::<impl u32>::wrapping_sub' and fam.last_field(m[2][0]) == LEN_FIELD and m[2][1][1] == 1)


def _first_load(e):
    for x in subexprs(e):
        if load_word(x):
            return x
    return None


def r4_single_writer(r, facts):
    n_store = 0
    for f in facts.func_list:
        eb = None
        for loc, t, m in fam.atomic_sites(f):
            kind = fam.atomic_kind(m)
            if kind in (None, 'load'):
                continue
            eb = eb or ExprBuilder(f)
            w = fam.last_field(eb.operand(t['args'][0]))
            if w == 'submissions_tail':
                n_store += 1
                r.inst('%s of submissions_tail in %s' % (m, f.path), f.where(loc))
                r.require(f.path == ADD and m == 'store', 'writer:%s' % f.path, 'submissions_tail is written (%s) outside Submissions::add' % m, f.where(loc))
            elif w == 'submissions_head':
                r.bad('writer:%s' % f.path, 'submissions_head (kernel-owned) is written by %s' % m, f.where(loc))
    r.require(n_store == 1, 'Submissions::add', 'expected exactly one store to submissions_tail, found %d' % n_store)
    # positive control for the matcher: the CQ head store must be recognised by the same matcher
    cq = facts.fn('io_uring::cq::Completions::poll')
    pc = [1 for loc, t, m in fam.atomic_sites(cq) if m == 'store' and fam.last_field(ExprBuilder(cq).operand(t['args'][0])) == 'entries_head']
    r.require(len(pc) == 1, 'positive-control', 'matcher no longer recognises the entries_head store in Completions::poll')
    r.floor(1)


def r5_ctr(r, facts):
    summaries = {}
    u = facts.fn(UNSUB)
    ru = fam.ctr_analysis(u)
    summaries[UNSUB] = {t for t in ru.returns if not t.startswith('ref:')}
    names = [UNSUB, ADD, 'io_uring::Shared::enter', 'io_uring::Shared::wake_blocked_futures']
    total_sources = 0
    for n in names:
        f = facts.fn(n)
        res = fam.ctr_analysis(f, summaries=summaries)
        total_sources += len(res.sources)
        for loc, w in res.sources:
            r.inst('load %s in %s' % (w, f.path), f.where(loc))
        for loc, d in res.uses:
            r.idiom(d)
        seen = set()
        for loc, k, msg in res.findings:
            key = '%s/%s' % (f.path, k)
            if key in seen:
                continue
            seen.add(key)
            r.bad(key, msg, f.where(loc))
    # the summary of unsubmitted_submissions must be a distance
    r.inst('summary %s -> %s' % (UNSUB, sorted(summaries[UNSUB])), u.where())
    r.require(summaries[UNSUB] <= {'dist'} and summaries[UNSUB], UNSUB + '/summary',
              'unsubmitted_submissions does not return a wrap-safe distance of the SQ counters (returns %s)' % sorted(summaries[UNSUB]), u.where())
    # every other function that loads an SQ counter must be in the analysed set (no unanalysed consumer)
    for f in facts.func_list:
        if f.path in names:
            continue
        eb = ExprBuilder(f)
        for loc, t in f.calls_to(fam.LOAD_KERNEL_SHARED):
            w = fam.last_field(eb.operand(t['args'][0]))
            if w in fam.SQ_COUNTERS:
                res = fam.ctr_analysis(f, summaries=summaries)
                for l2, k, msg in res.findings:
                    r.bad('%s/%s' % (f.path, k), msg, f.where(l2))
                r.inst('load %s in %s' % (w, f.path), f.where(loc))
    r.floor(4, 'counter loads')


def r6_no_sqarray(r, facts):
    f = facts.fn("io_uring::config::<impl config::Config<'r>>::build_sys")
    _flag_set_unconditionally(r, f, facts, 'IORING_SETUP_NO_SQARRAY')
    r.floor(1)


def _flag_set_unconditionally(r, f, facts, flag):
    """the flag constant is part of the initial value of, or or-ed on all paths into, parameters.flags"""
    eb = ExprBuilder(f, multi='phi')
    hits = []
    bit0 = facts.const('io_uring::libc::' + flag)
    for loc in f.locs():
        if f.is_term(loc):
            continue
        s = f.at(loc)
        if s['k'] != 'assign':
            continue
        for op in _ops_deep(s['rv']):
            if op.get('k') == 'const' and (op.get('def') or '').endswith('::' + flag):
                hits.append(loc)
            elif op.get('k') == 'const' and op.get('def') and not op['def'].startswith('io_uring::libc::') and isinstance(f.cval(op), int) \
                    and not isinstance(f.cval(op), bool) and bit0 and f.cval(op) & bit0:
                # a named constant of the crate whose value contains the flag (`const ALWAYS: u32 = SUBMIT_ALL | NO_SQARRAY`)
                hits.append(loc)
    if not r.require(bool(hits), 'build_sys/' + flag, '%s is never used in build_sys' % flag, f.where()):
        return
    # the io_uring_setup call must be dominated by a use of the flag that is itself unconditional
    setup = [loc for loc, t in f.calls() if (t.get('callee') or '').endswith('io_uring_setup')]
    if not r.require(len(setup) >= 1, 'build_sys/io_uring_setup', 'io_uring_setup call not found', f.where()):
        return
    # decided at bit level: on every path from the entry to io_uring_setup the flag's bit is set in parameters.flags
    # (forward must-analysis through locals, copies, `|`, struct literals and field stores)
    from .kernel import must_have_bits
    bit = facts.const('io_uring::libc::' + flag)
    ok = must_have_bits(f, bit, setup[0], field='flags', struct_suffix='io_uring_params')
    r.inst('%s (bit %#x) is set in parameters.flags on every path to io_uring_setup: %s' % (flag, bit, ok), f.where(hits[0]))
    r.require(ok, 'build_sys/' + flag, '%s is not set in io_uring_params.flags on every path to io_uring_setup (set only conditionally, cleared by a later write, or never stored)' % flag, f.where(hits[0]))


def _ops_deep(rv):
    from .kernel import rvalue_operands
    return rvalue_operands(rv)


def _reaches_params_flags(f, lhs, depth=0):
    if depth > 12:
        return False
    if lhs['p']:
        names = [p.get('name') for p in lhs['p'] if p['k'] == 'field']
        return bool(names) and names[-1] == 'flags'
    n = lhs['l']
    for loc, s in f.assigns():
        rv = s['rv']
        from .kernel import rvalue_operands
        for op in rvalue_operands(rv):
            if 'l' in op and op['l'] == n and not op['p']:
                if rv['k'] == 'agg' and rv.get('adt', '').endswith('io_uring_params'):
                    idx = rv['ops'].index(op)
                    return rv['fields'][idx] == 'flags'
                if _reaches_params_flags(f, s['lhs'], depth + 1):
                    return True
    return False


def r7_full_waits(r, facts):
    f = facts.fn('io_uring::op::poll_inner')
    eb = ExprBuilder(f)
    adds = f.calls_to(ADD)
    if not r.require(len(adds) == 1, 'poll_inner', 'expected one Submissions::add call in poll_inner, found %d' % len(adds), f.where()):
        return
    add_loc, add_t = adds[0]
    # switch on the discriminant of the add result
    err_edge = None
    for si in f.enum_switches('std::result::Result'):
        if si['place']['l'] == add_t['dest']['l']:
            err_edge = f.variant_edge(si, 'Err')
            ok_edge = f.variant_edge(si, 'Ok')
    if not r.require(err_edge is not None, 'poll_inner', 'match on the result of add not found (unrecognised form)', f.where(add_loc)):
        return
    start = [Loc(err_edge[1], 0)]
    waits = [loc for loc, t in f.calls_to('io_uring::sq::Submissions::wait_for_submission')]
    r.inst('QueueFull edge bb%d->bb%d' % err_edge, f.where(add_loc), 'wait sites: %d' % len(waits))
    rets = f.returns()
    hit = f.forward_paths_hit(start, rets, blockers=waits)
    r.require(hit is None, 'poll_inner/QueueFull', 'a path from Err(QueueFull) returns without wait_for_submission', f.where(hit[0]) if hit else '')
    # no value is produced on that path: the result written before returning is Poll::Pending
    reach = f.reachable_locs(start)
    for loc in reach:
        if f.is_term(loc):
            t = f.at(loc)
            if t['k'] == 'call' and (t.get('callee') or '') == ADD:
                r.bad('poll_inner/QueueFull', 'add re-attempted on the QueueFull path without returning', f.where(loc))
            if t['k'] == 'call' and t.get('callee_trait') in ('std::ops::Fn',) and loc != add_loc:
                r.bad('poll_inner/QueueFull', 'a closure parameter is called on the QueueFull path', f.where(loc))
    pend = [l for l in reach if not f.is_term(l) and f.at(l)['k'] == 'assign' and f.at(l)['lhs']['l'] == 0
            and f.at(l)['rv']['k'] == 'agg' and f.at(l)['rv'].get('variant') == 'Pending']
    r.require(bool(pend), 'poll_inner/QueueFull', 'Poll::Pending is not what the QueueFull path returns', f.where(add_loc))
    r.floor(1)


def r10_slot_reset(r, facts):
    """a reused slot still holds the previous request: `Submission::reset` runs on the slot, on every path, before the caller's
    fill closure sees it (a field the new operation does not write — flags, personality, buf_group, file_index — would
    otherwise be inherited from whatever was queued there `len` submissions ago)."""
    f = facts.fn(ADD)
    fills = find_fill_call(f)
    if not r.require(len(fills) == 1, 'Submissions::add/fill', 'expected one fill_submission call, found %d' % len(fills), f.where()):
        return
    fl, ft = fills[0]
    resets = [loc for loc, t in f.calls() if (t.get('callee') or '').endswith('Submission::reset') and not f.blocks[loc[0]]['cleanup']]
    r.inst('slot reset before fill: %d reset call(s)' % len(resets), f.where(fl))
    hit = f.forward_paths_hit([Loc(0, 0)], [fl], blockers=resets)
    r.require(bool(resets) and hit is None, 'Submissions::add/slot-reset', 'the fill closure can be reached without Submission::reset on the slot: fields the new operation does not write keep the values of the request that used the slot before', f.where(fl))
    g = facts.fn_opt('io_uring::sq::Submission::reset')
    if r.require(g is not None, 'Submission::reset', 'Submission::reset not found'):
        # reset writes the whole entry: a whole-value store through self (zeroed / Default), not field by field
        whole = [loc for loc, s_ in g.assigns() if s_['lhs']['l'] == 1 and [p_['k'] for p_ in s_['lhs']['p']] in (['deref'], ['deref', 'field'])]
        zero = [loc for loc, t in g.calls() if (t.get('callee') or '').endswith(('mem::zeroed', 'write_bytes', 'ptr::write', 'Default::default')) and not g.blocks[loc[0]]['cleanup']]
        r.inst('Submission::reset overwrites the whole entry (%d whole store(s), %d zeroing call(s))' % (len(whole), len(zero)), g.where())
        r.require(bool(whole) or bool(zero), 'Submission::reset/whole', 'Submission::reset does not overwrite the whole entry', g.where())
    r.floor(2)



def check(ctx):
    ctx.run('C04.R1', 'slot deref, fill, fence and tail store inside the submissions_lock guard', r1_lock_region)
    ctx.run('C04.R2', 'slot write dominated by a has-room edge implying distance(tail,head) < len, loads inside the lock, head first', r2_fullness_guard)
    ctx.run('C04.R3', 'fill -> (fence) -> Release tail store of wrapping_add(tail,1); index = tail & (len-1); Acquire loads', r3_order)
    ctx.run('C04.R4', 'single writer of the SQ tail (Submissions::add); SQ head never written', r4_single_writer)
    ctx.run('C04.R5', 'CTR: SQ head/tail values flow only into wrap-safe operations', r5_ctr)
    ctx.run('C04.R6', 'IORING_SETUP_NO_SQARRAY set unconditionally (slot index == SQE index)', r6_no_sqarray)
    ctx.run('C04.R7', 'QueueFull => wait_for_submission + Pending, never a write', r7_full_waits)
    from . import c18
    ctx.run('C04.R8', 'the lengths that give the index masks are the sizes the kernel granted: submissions_len = params.sq_entries (=C18.R4)', lambda r, facts: c18.ring_lengths(r, facts, modes=False, cq=False, floor=1))
    from . import c11
    ctx.run('C04.R9', 'in kernel-thread mode a sleeping poll thread is woken for new submissions; the timeout reaches the kernel (=C11.R6)', c11.r6_enter_contract)
    ctx.run('C04.R10', 'a reused slot is reset (whole entry) on every path before the fill closure runs', r10_slot_reset)
    from . import c18
    ctx.run('C04.R11', 'the modes Shared works in are the ones the kernel echoed, the right way round (=C18.R4): with kernel_thread inverted nothing is handed to io_uring_enter', lambda r, facts: c18.ring_lengths(r, facts, modes=True, floor=2, sq=False, cq=False))
