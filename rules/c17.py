"""C17 Filesystem-watch event streams are decoded exactly."""
import re

from .kernel import (ExprBuilder, Loc, access_path, subexprs, variant_edges, is_local, const_val)
from . import families as fam
from . import c10
from . import c15

EXPLANATION = (
    'Decides: (R1) events cannot outlive their bytes — compile-fail witnesses: a program that still uses a '
    '&Event after dropping the Events iterator, or across the next poll_next, must be rejected by the borrow '
    'checker (known finding K3: today it compiles); (R2) decoder bounds in Events::poll_sys: the record header '
    'is dereferenced only under `buf.len() > processed`, BUF_SIZE = size_of::<inotify_event>() + NAME_MAX + 1 '
    'so a read never splits a record, and the read buffer is created with that capacity; (R3) filtered '
    'records: on the IN_IGNORED edge the watch is forgotten (watching.remove(wd)) and on the IN_IGNORED / '
    'IN_Q_OVERFLOW edges no event is yielded before the loop header; (R4) the cursor `processed` only '
    'increases, by header + name length, exactly once per record and before the record can be yielded or '
    'skipped; padding NULs are stripped by a last-non-NUL search over the whole event.len name field before '
    'the reference is formed, and the reference covers header + trimmed name. (R5) the wd -> path table: '
    'stored under the wd inotify_add_watch returned, with the path given to it; path_for joins the path looked '
    "up by the event's wd with the event's name; (R6) event accessors and Interest constants name the "
    'inotify(7) bits of <linux/inotify.h>. Exact decoding for all record sequences and batchings is not '
    'decided.'
    ' Also decided: (R4) the padding search predicate is `byte != 0` and the trimmed length is its index + 1; (R7) the Pending arm is the first test of the poll result; the re-read gets a cleared buffer and becomes the state on every path.'
)
NOT_DECIDED = "exact decoding for all record sequences and batchings"
ASSUMPTIONS = ["the kernel writes whole inotify_event records (inotify(7))"]

POLL_SYS = "inotify::<impl fs::notify::Events<'w>>::poll_sys"


def r2_bounds(r, facts):
    f = facts.fn(POLL_SYS)
    eb = ExprBuilder(f, multi='phi')
    # header derefs: reads of fields of libc::inotify_event through event_ptr
    derefs = []
    for loc, s in f.assigns():
        rv = s['rv']
        pls = [rv.get('place')] if rv.get('place') else []
        from .kernel import rvalue_operands
        pls += [o for o in rvalue_operands(rv) if 'l' in o]
        for pl in pls:
            if pl and any(p['k'] == 'field' and p.get('adt') == 'libc::inotify_event' for p in pl['p']):
                derefs.append(loc)
    r.require(len(derefs) >= 3, 'poll_sys/derefs', 'expected reads of len/mask/wd of the record header, found %d' % len(derefs), f.where())
    guard = None
    for b, blk in enumerate(f.blocks):
        if blk['cleanup'] or blk['term']['k'] != 'switch':
            continue
        e = eb.operand(blk['term']['discr'])
        if e[0] == 'bin' and e[1] in ('Gt', 'Lt', 'Ge', 'Le'):
            a, c = e[2], e[3]
            is_len = lambda x: x[0] == 'call' and x[1] == 'std::vec::Vec::<T, A>::len'
            is_proc = lambda x: x[0] == 'proj' and '.processed' in x[2] and '@Processing' in x[2]
            vals = {int(v): tg for v, tg in blk['term']['targets']}
            t_true, t_false = vals.get(1, blk['term']['otherwise']), vals.get(0)
            if e[1] == 'Gt' and is_len(a) and is_proc(c):
                guard = (b, t_true)
            elif e[1] == 'Lt' and is_proc(a) and is_len(c):
                guard = (b, t_true)
            elif e[1] == 'Le' and is_len(a) and is_proc(c):
                guard = (b, t_false)
            elif e[1] == 'Ge' and is_proc(a) and is_len(c):
                guard = (b, t_false)
    if r.require(guard is not None, 'poll_sys/guard', 'test `buf.len() > processed` not found (unrecognised form)', f.where()):
        r.inst('guard buf.len() > processed', f.where(f.term_loc(guard[0])))
        for d in derefs:
            r.require(f.edge_dominates(guard, d), 'poll_sys/unguarded-header', 'a record header is read without `buf.len() > processed` dominating it (reads past the bytes the kernel wrote)', f.where(d))
    # BUF_SIZE
    bs = facts.const('inotify::BUF_SIZE')
    lay = facts.layouts.get('libc::inotify_event')
    if r.require(lay is not None, 'BUF_SIZE/layout', 'no layout for libc::inotify_event'):
        name_max = 255
        try:
            for line in open('/usr/include/linux/limits.h'):
                m = re.match(r'#define\s+NAME_MAX\s+(\d+)', line)
                if m:
                    name_max = int(m.group(1))
        except OSError:
            pass
        r.inst('BUF_SIZE=%d size_of(inotify_event)=%d NAME_MAX=%d' % (bs, lay[0], name_max))
        r.require(bs >= lay[0] + name_max + 1, 'BUF_SIZE', 'BUF_SIZE=%d is smaller than one maximal record (%d + %d + 1): the kernel fails the read with EINVAL / splits nothing' % (bs, lay[0], name_max))
    n = facts.fn("inotify::EventsState::<'w>::new")
    en = ExprBuilder(n, multi='phi')
    okc = False
    for loc, t in n.calls():
        if (t.get('callee') or '') == 'std::vec::Vec::<T>::with_capacity':
            e = en.operand(t['args'][0])
            okc = e[0] == 'const' and str(e[2]).endswith('BUF_SIZE')
            r.inst('read buffer capacity = %s' % (e,), n.where(loc))
    r.require(okc, 'EventsState::new', 'the read buffer is not created with capacity BUF_SIZE', n.where())
    r.floor(3)


def mask_edges(f, eb, flag_name):
    """(bb, set_target, unset_target) for `mask & libc::<flag> != 0`"""
    for b, blk in enumerate(f.blocks):
        if blk['cleanup'] or blk['term']['k'] != 'switch':
            continue
        e = eb.operand(blk['term']['discr'])
        if e[0] == 'bin' and e[1] in ('Ne', 'Eq') and e[3][0] == 'const' and e[3][1] == 0 and e[2][0] == 'bin' and e[2][1] == 'BitAnd':
            cs = [y for y in (e[2][2], e[2][3]) if y[0] == 'const' and str(y[2]).endswith('::' + flag_name)]
            if cs:
                vals = {int(v): tg for v, tg in blk['term']['targets']}
                t_true, t_false = vals.get(1, blk['term']['otherwise']), vals.get(0)
                return (b, t_true, t_false) if e[1] == 'Ne' else (b, t_false, t_true)
    return None


def yields(f):
    eb = ExprBuilder(f, multi='leaf')
    out = []
    for loc, s in f.assigns():
        if s['lhs']['l'] == 0 and not s['lhs']['p']:
            e = eb.rvalue(s['rv'])
            if e[0] == 'agg' and e[1].endswith('Poll::Ready'):
                inner = e[3][0]
                if inner[0] == 'agg' and inner[1].endswith('Option::Some') and inner[3] and inner[3][0][0] == 'agg' and inner[3][0][1].endswith('Result::Ok'):
                    out.append(loc)
    return out


def loop_header(f):
    # the block switching on the EventsState discriminant
    for si in f.enum_switches('inotify::EventsState'):
        if not f.blocks[si['bb']]['cleanup'] and len(set(si['values'].values())) >= 3:
            return si['bb']
    return None


def r3_filtered(r, facts):
    f = facts.fn(POLL_SYS)
    eb = ExprBuilder(f, multi='phi')
    ys = yields(f)
    hdr = loop_header(f)
    if not r.require(len(ys) == 1 and hdr is not None, 'poll_sys', 'event yield site / state dispatch not found (yields=%d)' % len(ys), f.where()):
        return
    hloc = f.term_loc(hdr)
    for flag, must_remove in (('IN_IGNORED', True), ('IN_Q_OVERFLOW', False)):
        me = mask_edges(f, eb, flag)
        if not r.require(me is not None, 'poll_sys/%s' % flag, 'test of %s on the record mask not found' % flag, f.where()):
            continue
        b, t_set, t_unset = me
        r.inst('%s edge bb%d->bb%d' % (flag, b, t_set), f.where(f.term_loc(b)))
        hit = f.forward_paths_hit([Loc(t_set, 0)], ys + f.returns(), blockers=[hloc])
        r.require(hit is None, 'poll_sys/%s-yielded' % flag, 'a %s record is handed to the caller / ends the iteration instead of being skipped' % flag, f.where(hit[0]) if hit else '')
        if must_remove:
            rm = [loc for loc, t in f.calls() if (t.get('callee') or '').endswith('HashMap::<K, V, S>::remove') or (t.get('callee') or '').endswith('::remove')]
            rm = [loc for loc in rm if 'HashMap' in (f.at(loc).get('callee_full') or '')]
            hit = f.forward_paths_hit([Loc(t_set, 0)], [hloc], blockers=rm)
            r.require(hit is None and rm, 'poll_sys/IN_IGNORED-not-forgotten', 'on IN_IGNORED the watch is not removed from `watching` (paths of a reused watch descriptor would be wrong)', f.where(f.term_loc(b)))
            for loc in rm:
                t = f.at(loc)
                k = eb.operand(t['args'][1])
                r.require(any(fam.last_field(x) == 'wd' for x in subexprs(k)), 'poll_sys/IN_IGNORED-key', 'the removed key is not the record\'s wd: %s' % (k,), f.where(loc))
                r.require(f.edge_dominates((b, t_set), loc), 'poll_sys/remove-elsewhere', 'a watch is forgotten for a record that is not IN_IGNORED', f.where(loc))
        # the yield is on the unset edges of both
        for y in ys:
            r.require(f.edge_dominates((b, t_unset), y), 'poll_sys/%s-order' % flag, 'an event is yielded without the %s test' % flag, f.where(y))
    r.floor(2)


def r4_cursor(r, facts):
    f = facts.fn(POLL_SYS)
    eb = ExprBuilder(f, multi='leaf')
    ebp = ExprBuilder(f, multi='phi')
    ys = yields(f)
    hdr = loop_header(f)
    # stores to *processed
    stores = []
    for loc, s in f.assigns():
        pe = ebp.place(s['lhs']) if s['lhs']['p'] else None
        if pe is not None and pe[0] == 'proj' and '@Processing' in pe[2] and pe[2][-1] == '.processed' and s['lhs']['ty'] == 'usize':
            stores.append((loc, ebp.rvalue(s['rv'])))
    def is_step(se):
        e = c15.strip(se)
        if not (e[0] == 'bin' and e[1].startswith('Add')):
            return False
        old = [x for x in (e[2], e[3]) if c15.strip(x)[0] == 'proj' and '@Processing' in c15.strip(x)[2]]
        return len(old) == 1
    steps = [(l, e) for l, e in stores if is_step(e)]
    for l, e in stores:
        if not is_step(e):
            r.bad('poll_sys/cursor-jump', 'the cursor `processed` is set to %s: records between the old and the new position are skipped without being decoded (events lost, IN_IGNORED not honoured)' % (e,), f.where(l))
    if not r.require(len(steps) == 1, 'poll_sys/cursor-stores', 'expected exactly one per-record advance of `processed` in the processing arm, found %d' % len(steps), f.where()):
        return
    sl, se = steps[0]
    e = c15.strip(se)
    ok = e[0] == 'bin' and e[1].startswith('Add')
    inc = None
    if ok:
        old = [x for x in (e[2], e[3]) if c15.strip(x)[0] == 'proj' and '@Processing' in c15.strip(x)[2]]
        oth = [x for x in (e[2], e[3]) if x not in old]
        ok = len(old) == 1 and len(oth) == 1
        inc = c15.strip(oth[0]) if ok else None
    okinc = False
    if inc is not None and inc[0] == 'bin' and inc[1].startswith('Add'):
        parts = [c15.strip(inc[2]), c15.strip(inc[3])]
        hdr_size = (facts.layouts.get('libc::inotify_event') or (None,))[0]
        has_hdr = any((p[0] == 'call' and p[1] == 'std::mem::size_of::<libc::inotify_event>') or (p[0] == 'const' and p[1] is not None and p[1] == hdr_size) for p in parts)
        has_len = any(fam.last_field(p) == 'len' and p[0] == 'proj' for p in parts)
        okinc = has_hdr and has_len
    r.inst('processed += %s' % (inc,), f.where(sl))
    r.require(ok and okinc, 'poll_sys/cursor-step', 'the cursor is not advanced by size_of::<inotify_event>() + event.len: %s' % (se,), f.where(sl))
    # exactly once per record: the advance dominates the yield and both skip edges, and is not repeated before the header
    hloc = f.term_loc(hdr) if hdr is not None else None
    for y in ys:
        r.require(f.dominates(sl, y), 'poll_sys/cursor-before-yield', 'an event is yielded before the cursor moved past it (it would be yielded again)', f.where(y))
    nxt = [Loc(sl[0], sl[1] + 1)]
    hit = f.forward_paths_hit(nxt, [sl], blockers=[hloc] if hloc else [])
    r.require(hit is None, 'poll_sys/cursor-twice', 'the cursor can advance twice for one record', f.where(sl))
    for flag in ('IN_IGNORED', 'IN_Q_OVERFLOW'):
        me = mask_edges(f, ebp, flag)
        if me:
            r.require(f.dominates(sl, f.term_loc(me[0])), 'poll_sys/cursor-before-skip:%s' % flag, 'a %s record is skipped before the cursor moved past it (endless loop)' % flag, f.where(f.term_loc(me[0])))
    # cleared only when switching back to reading: processed: 0 in the Processing aggregate built from a fresh read
    # padding stripped by a last-non-NUL search before the reference is formed
    rpos = [loc for loc, t in f.calls() if (t.get('callee') or '') in ('std::iter::DoubleEndedIterator::rposition', 'std::iter::Iterator::rposition', 'core::slice::<impl [T]>::trim_ascii_end')
            or (t.get('callee') or '').endswith('::rposition')]
    forms = [loc for loc, t in f.calls() if (t.get('callee') or '') in ('std::ptr::slice_from_raw_parts', 'std::slice::from_raw_parts') and 'notify::Event' not in (t.get('callee_full') or '')]
    evref = [loc for loc, t in f.calls() if (t.get('callee') or '') == 'std::ptr::slice_from_raw_parts']
    scan = None if rpos else backward_nul_scan(f)
    if scan is not None:
        r.inst('padding stripped by a backward scan for the last non-NUL byte (counter _%d over the whole name slice)' % scan['counter'], f.where(scan['test']))
    r.require(bool(rpos) or scan is not None, 'poll_sys/padding', 'name padding is not stripped with a last-non-NUL search', f.where())
    # the search covers the whole name field (the kernel pads with 1..=16 NULs: the terminator plus alignment)
    SUBSLICE = ('std::ops::Index::index', 'core::slice::<impl [T]>::get', 'core::slice::<impl [T]>::split_at', 'core::slice::<impl [T]>::split_at_checked',
                'core::slice::<impl [T]>::last_chunk', 'core::slice::<impl [T]>::rchunks', 'core::slice::<impl [T]>::get_unchecked', 'std::iter::Iterator::take', 'std::iter::Iterator::skip')
    for p in rpos:
        t = f.at(p)
        recv = ebp.operand(t['args'][0])
        whole = [x for x in subexprs(recv) if x[0] == 'call' and x[1] == 'std::slice::from_raw_parts']
        cut = [x for x in subexprs(recv) if x[0] == 'call' and x[1] in SUBSLICE]
        r.inst('padding search over %s' % (str(recv)[:120],), f.where(p))
        r.require(bool(whole) and not cut, 'poll_sys/padding-partial', 'the last-non-NUL search does not cover the whole name field (%s): a name followed by more padding than the searched part keeps NUL bytes (the kernel pads with 1 to 16 NULs)' % (cut[0][1] if cut else 'not the record bytes'), f.where(p))
        # .. for the last byte that is *not* NUL
        if len(t['args']) == 2 and 'l' in t['args'][1]:
            for d in f.defs.get(t['args'][1]['l'], []):
                st = f.at(d[0]) if not f.is_term(d[0]) else None
                if st and st.get('k') == 'assign' and st['rv']['k'] == 'agg' and st['rv'].get('ak') == 'closure':
                    cg = facts.fn_opt(st['rv'].get('closure') or '')
                    if cg is None:
                        continue
                    ce = ExprBuilder(cg, multi='phi')
                    for l2, s2 in cg.assigns():
                        if s2['lhs']['l'] == 0 and not s2['lhs']['p']:
                            pe = ce.rvalue(s2['rv'])
                            flip = False
                            while pe[0] == 'un' and pe[1] == 'Not':
                                pe, flip = pe[2], not flip
                            if pe[0] == 'bin' and pe[1] in ('Eq', 'Ne') and any(y[0] == 'const' and y[1] == 0 for y in (pe[2], pe[3])):
                                non_nul = (pe[1] == 'Ne') != flip
                                r.inst('padding search predicate: byte %s 0' % ('!=' if non_nul else '=='), cg.where(l2))
                                r.require(non_nul, 'poll_sys/padding-predicate', 'the padding search looks for the last NUL byte instead of the last byte that is not NUL: names keep their padding / are cut at the wrong place', cg.where(l2))
        for w in whole:
            r.require(fam.last_field(w[2][1]) == 'len' or 'len' in str(w[2][1]), 'poll_sys/padding-partial', 'the name slice searched for padding is not event.len bytes long: %s' % (w[2][1],), f.where(p))
    for loc in evref:
        r.inst('event reference formed', f.where(loc))
        r.require(any(f.dominates(p, loc) for p in rpos) or (scan is not None and f.dominates(scan['init'], loc)), 'poll_sys/padding-order', 'the event reference is formed before the padding was measured', f.where(loc))
        t = f.at(loc)
        ln = ebp.operand(t['args'][1])
        from_scan = scan is not None and any(x[0] == 'local' and x[1] == scan['counter'] for x in subexprs(ExprBuilder(f, multi='leaf').operand(t['args'][1]))) or \
            (scan is not None and scan['counter'] in _feeds(f, t['args'][1]))
        # the trimmed length is the index of the last non-NUL byte plus one
        for x in subexprs(ln):
            if x[0] == 'bin' and x[1].startswith('Add') and any(y[0] == 'call' and y[1].endswith('rposition') for z in (x[2], x[3]) for y in subexprs(z)):
                k = [c15.strip(z) for z in (x[2], x[3]) if c15.strip(z)[0] == 'const']
                r.inst('trimmed length = index of the last non-NUL byte + %s' % (k[0][1] if k else '?'), f.where(loc))
                r.require(bool(k) and k[0][1] == 1, 'poll_sys/name-length-off', 'the trimmed name length is the index of the last non-NUL byte plus %s, expected plus 1' % (k[0][1] if k else x,), f.where(loc))
        r.require(any(x[0] == 'call' and x[1].endswith('rposition') for x in subexprs(ln)) or from_scan, 'poll_sys/name-length', 'the event\'s name length is not the trimmed length: %s' % (str(ln)[:200],), f.where(loc))
    r.floor(2)


def _feeds(f, op):
    """locals whose value can flow (through whole-local copies) into operand op"""
    out = set()
    work = [op['l']] if 'l' in op else []
    while work:
        l = work.pop()
        if l in out:
            continue
        out.add(l)
        for loc, kind, payload in f.defs.get(l, []):
            if kind == 'assign' and payload['k'] == 'use' and 'l' in payload['op'] and not payload['op']['p']:
                work.append(payload['op']['l'])
    return out


def backward_nul_scan(f):
    """the hand-written form of the padding search:
           let mut end = name.len(); while end > 0 { if name[end - 1] != 0 { return end } end -= 1 } name.len()
       recognised structurally: a counter initialised with the length of the *whole* name slice and decremented by
       one, an indexed read name[counter - 1] compared with 0 inside the loop.  Returns dict(counter, test)."""
    eb = ExprBuilder(f, multi='leaf')
    ebp = ExprBuilder(f, multi='phi')
    for b, blk in enumerate(f.blocks):
        t = blk['term']
        if blk['cleanup'] or t['k'] != 'switch':
            continue
        e = eb.operand(t['discr'])
        if not (e[0] == 'bin' and e[1] in ('Ne', 'Eq') and any(y[0] == 'const' and y[1] == 0 for y in (e[2], e[3]))):
            continue
        byte = [y for y in (e[2], e[3]) if y[0] == 'proj'] 
        if not byte:
            continue
        pr = byte[0]
        idx = [p for p in pr[2] if p.startswith('[_')]
        if not idx:
            continue
        il = int(idx[0][2:-1])
        ie = eb.local(il)
        while ie[0] == 'proj' and ie[2] == ('.0',):
            ie = ie[1]
        if not (ie[0] == 'bin' and ie[1].startswith('Sub') and ie[2][0] == 'local' and ie[3][0] == 'const' and ie[3][1] == 1):
            continue
        counter = ie[2][1]
        defs = [ebp.definition(d, 0, ()) for d in f.defs.get(counter, []) if not f.blocks[d[0][0]]['cleanup']]
        inits = [d for d in defs if d[0] == 'call' and d[1].endswith('::len')]
        decs = [d for d in defs if (d[0] == 'proj' and d[1][0] == 'bin' and d[1][1].startswith('Sub')) or (d[0] == 'bin' and d[1].startswith('Sub'))]
        if not inits or not decs or len(inits) + len(decs) != len(defs):
            continue
        whole = [x for x in subexprs(inits[0]) if x[0] == 'call' and x[1] == 'std::slice::from_raw_parts']
        cut = [x for x in subexprs(inits[0]) if x[0] == 'call' and x[1] in ('std::ops::Index::index', 'core::slice::<impl [T]>::get', 'core::slice::<impl [T]>::split_at')]
        base = [x for x in subexprs(ebp.place({'l': pr[1][1], 'p': []}) if pr[1][0] == 'local' else pr[1]) if x[0] == 'call' and x[1] == 'std::slice::from_raw_parts']
        if whole and not cut and (fam.last_field(whole[0][2][1]) == 'len' or 'len' in str(whole[0][2][1])):
            init_locs = [d[0] for d in f.defs.get(counter, []) if not f.blocks[d[0][0]]['cleanup'] and ebp.definition(d, 0, ())[0] == 'call']
            return {'counter': counter, 'test': f.term_loc(b), 'init': init_locs[0] if init_locs else f.term_loc(b)}
    return None


def closure_zero_tests(f, facts, t):
    """for a call `it.position(|b| ..)` / `rposition` / `take_while` .. whose last argument is a closure of f: [(where, True if the
    closure is true exactly for a zero byte, False if exactly for a non-zero byte)] — empty when the predicate has another form"""
    out = []
    if not t['args'] or 'l' not in t['args'][-1]:
        return out
    for d in f.defs.get(t['args'][-1]['l'], []):
        st = f.at(d[0]) if not f.is_term(d[0]) else None
        if st and st.get('k') == 'assign' and st['rv']['k'] == 'agg' and st['rv'].get('ak') == 'closure':
            cg = facts.fn_opt(st['rv'].get('closure') or '')
            if cg is None:
                continue
            ce = ExprBuilder(cg, multi='phi')
            for l2, s2 in cg.assigns():
                if s2['lhs']['l'] == 0 and not s2['lhs']['p']:
                    pe = ce.rvalue(s2['rv'])
                    flip = False
                    while pe[0] == 'un' and pe[1] == 'Not':
                        pe, flip = pe[2], not flip
                    if pe[0] == 'bin' and pe[1] in ('Eq', 'Ne') and any(y[0] == 'const' and y[1] == 0 for y in (pe[2], pe[3])):
                        out.append((cg.where(l2), (pe[1] == 'Eq') != flip))
    return out



def r5_watch_paths(r, facts):
    """the wd -> path table that gives events their full path"""
    f = facts.fn('inotify::watch')
    eb = ExprBuilder(f, multi='phi')
    adds = [(l, t) for l, t in f.calls() if (t.get('callee') or '') == 'libc::inotify_add_watch']
    ins = [(l, t) for l, t in f.calls() if (t.get('callee') or '').endswith('::insert') and 'HashMap' in (t.get('callee') or '')]
    # the same update through the entry API: `match watching.entry(wd) { Occupied(e) => e.insert(path), Vacant(e) => e.insert(path) }`
    # — an insert keyed by the argument of `entry` when every path from it to a return stores a value through the entry
    entry_form = False
    if not ins:
        ents = [(l, t) for l, t in f.calls() if (t.get('callee') or '').endswith('::entry') and 'HashMap' in (t.get('callee') or '') and not f.blocks[l[0]]['cleanup']]
        eins = [(l, t) for l, t in f.calls() if re.search(r'(OccupiedEntry|VacantEntry)<.*>::insert(_entry)?$|(OccupiedEntry|VacantEntry)::<.*>::insert(_entry)?$', t.get('callee') or '') and not f.blocks[l[0]]['cleanup']]
        if len(ents) == 1 and eins and ents[0][1].get('target') is not None:
            vals = {repr(eb.operand(t['args'][1])) for l, t in eins}
            leak = f.forward_paths_hit([Loc(ents[0][1]['target'], 0)], f.returns(), blockers=[l for l, _ in eins])
            if len(vals) == 1 and leak is None:
                el, et = ents[0]
                ins = [(el, {'args': [et['args'][0], et['args'][1], eins[0][1]['args'][1]]})]
                entry_form = True
    if r.require(len(adds) == 1 and len(ins) == 1, 'watch/sites', 'expected one inotify_add_watch and one watching.insert in inotify::watch (found %d/%d)' % (len(adds), len(ins)), f.where()):
        al, at = adds[0]
        il, it = ins[0]
        key = eb.operand(it['args'][1])
        val = eb.operand(it['args'][2])
        pth = eb.operand(at['args'][1])
        r.inst('watching.insert(%s, %s)' % (str(key)[:60], str(val)[:60]), f.where(il))
        r.require(any(x[0] == 'call' and x[1] == 'libc::inotify_add_watch' for x in subexprs(key)), 'watch/key', 'the key stored in the watch table is not the watch descriptor returned by inotify_add_watch: %s' % (str(key)[:120],), f.where(il))
        # the stored path is the one whose pointer was given to the kernel
        r.require(any(repr(x) == repr(val) for x in subexprs(pth)), 'watch/path', 'the path stored for the watch descriptor is not the path passed to inotify_add_watch (events would be attributed to another path)', f.where(il))
        r.require(f.dominates(al, il), 'watch/order', 'the watch table is updated before the kernel accepted the watch', f.where(il))
        # only on the success edge: the insert is not reachable when the syscall failed
    g = [x for x in facts.func_list if x.path.endswith('::path_for_sys') and x.kind != 'closure']
    if r.require(len(g) == 1, 'path_for/fn', 'Events::path_for_sys not found', f.where()):
        g = g[0]
        eg = ExprBuilder(g, multi='phi')
        gets = [(l, t) for l, t in g.calls() if (t.get('callee') or '').endswith('::get') and 'HashMap' in (t.get('callee') or '')]
        joins = [(l, t) for l, t in g.calls() if (t.get('callee') or '') == 'std::path::Path::join']
        if r.require(len(gets) == 1 and len(joins) == 1, 'path_for/sites', 'expected one watching.get and one Path::join in path_for_sys (found %d/%d)' % (len(gets), len(joins)), g.where()):
            k = eg.operand(gets[0][1]['args'][1])
            r.inst('watching.get(%s)' % (k,), g.where(gets[0][0]))
            ap = access_path(k[1] if k[0] == 'ref' else k)
            r.require(ap is not None and ap[1].endswith('event.wd') and ap[0][0] == 'arg' and ap[0][1] == 2, 'path_for/key', 'the watch table is not indexed with the wd of the event argument: %s' % (k,), g.where(gets[0][0]))
            base = eg.operand(joins[0][1]['args'][0])
            name = eg.operand(joins[0][1]['args'][1])
            r.inst('join(%s, %s)' % (str(base)[:70], str(name)[:50]), g.where(joins[0][0]))
            r.require(any(x[0] == 'call' and x[1].endswith('::get') for x in subexprs(base)), 'path_for/base', 'the full path does not start with the watched entry looked up for this event', g.where(joins[0][0]))
            r.require(any(x[0] == 'call' and x[1].endswith('Event::file_path') and x[2] and x[2][0][0] == 'arg' and x[2][0][1] == 2 for x in subexprs(name)), 'path_for/name', 'the joined component is not this event\'s file name', g.where(joins[0][0]))
    # who may change the table: entries come (insert) when the kernel accepted a watch and go (remove, keyed by the wd of an
    # IN_IGNORED record — R3) when the kernel says so; nothing else edits it (no retain/clear/drain/.. by path or wholesale:
    # a still-live wd would lose its path)
    MUTATORS = ('retain', 'clear', 'drain', 'extract_if', 'get_mut', 'entry', 'values_mut', 'iter_mut', 'remove_entry', 'get_many_mut',
                'get_disjoint_mut', 'extend', 'try_insert', 'raw_entry_mut')
    n_w = 0
    table_tys = {re.sub(r"^&('\w+ )?(mut )?", '', fl['ty']) for a in facts.adts.values() for v in a['variants'] for fl in v['fields'] if fl['name'] == 'watching' and 'HashMap' in fl['ty']}
    r.require(len(table_tys) == 1, 'watching/type', 'the wd -> path table (a HashMap field `watching`) was not found: %s' % sorted(table_tys), f.where())
    for h in facts.func_list:
        eh = None
        for l, t in h.calls():
            c = t.get('callee') or ''
            if 'HashMap' not in c or not t['args'] or h.blocks[l[0]]['cleanup']:
                continue
            # the table is the one map from watch descriptors to paths (field `watching`, passed around by reference)
            ty0 = re.sub(r"^&('\w+ )?(mut )?", '', t['args'][0].get('ty') or '')
            on_table = ty0 in table_tys
            if not on_table:
                continue
            n_w += 1
            meth = re.sub(r'<.*?>', '', c).rsplit('::', 1)[-1]
            if meth == 'entry' and entry_form and h.path == 'inotify::watch':
                continue
            r.require(meth not in MUTATORS, 'watching/%s' % meth, 'the wd -> path table is edited by `%s` in %s: entries may only be added for a watch the kernel accepted and removed for the wd of an IN_IGNORED record (a live watch descriptor would lose, or get another, path)' % (meth, h.path), h.where(l))
            if meth == 'insert':
                r.require(h.path in ('inotify::watch',), 'watching/insert-site', 'an entry is added to the wd -> path table outside inotify::watch (%s)' % h.path, h.where(l))
    r.inst('uses of the wd -> path table checked: %d' % n_w, f.where())
    r.require(n_w >= 3, 'watching/uses', 'fewer than 3 uses of the wd -> path table found (insert / remove / get expected)', f.where())
    r.floor(2)


INOTIFY_H = '/usr/include/linux/inotify.h'
# accessor of notify::Event -> inotify(7) bit it reports
EVENT_BITS = {
    'is_dir': 'IN_ISDIR', 'accessed': 'IN_ACCESS', 'modified': 'IN_MODIFY', 'metadata_changed': 'IN_ATTRIB',
    'closed_write': 'IN_CLOSE_WRITE', 'closed_no_write': 'IN_CLOSE_NOWRITE', 'closed': 'IN_CLOSE', 'opened': 'IN_OPEN',
    'deleted': 'IN_DELETE_SELF', 'moved': 'IN_MOVE_SELF', 'unmounted': 'IN_UNMOUNT', 'file_moved_from': 'IN_MOVED_FROM',
    'file_moved_into': 'IN_MOVED_TO', 'file_moved': 'IN_MOVE', 'file_created': 'IN_CREATE', 'file_deleted': 'IN_DELETE',
}
# constant of notify::Interest -> inotify(7) mask it subscribes to
INTEREST_BITS = {
    'ALL': 'IN_ALL_EVENTS', 'ACCESS': 'IN_ACCESS', 'MODIFY': 'IN_MODIFY', 'METADATA': 'IN_ATTRIB', 'CLOSE_WRITE': 'IN_CLOSE_WRITE',
    'CLOSE_NOWRITE': 'IN_CLOSE_NOWRITE', 'CLOSE': 'IN_CLOSE', 'OPEN': 'IN_OPEN', 'MOVE_FROM': 'IN_MOVED_FROM', 'MOVE_INTO': 'IN_MOVED_TO',
    'MOVE': 'IN_MOVE', 'CREATE': 'IN_CREATE', 'DELETE': 'IN_DELETE', 'DELETE_SELF': 'IN_DELETE_SELF', 'MOVE_SELF': 'IN_MOVE_SELF',
}


def inotify_header():
    """IN_* values from <linux/inotify.h>, including the or-combinations"""
    txt = open(INOTIFY_H).read().replace('\\\n', ' ')
    vals = {}
    for m in re.finditer(r'^#define\s+(IN_\w+)\s+(0x[0-9a-fA-F]+)\b', txt, flags=re.M):
        vals[m.group(1)] = int(m.group(2), 16)
    for _ in range(3):
        for m in re.finditer(r'^#define\s+(IN_\w+)\s+\(([^)]*)\)', txt, flags=re.M):
            parts = [x.strip() for x in m.group(2).split('|')]
            if all(x in vals for x in parts):
                v = 0
                for x in parts:
                    v |= vals[x]
                vals[m.group(1)] = v
    return vals


def mask_test_const(facts, f, depth=0):
    """the constant c of a body `self.mask() & c != 0`, following one forwarding call into the sys Event"""
    eb = ExprBuilder(f, multi='phi')
    for loc, s in f.assigns():
        if s['lhs']['l'] == 0 and not s['lhs']['p']:
            e = eb.rvalue(s['rv'])
            if e[0] == 'bin' and e[1] == 'Ne' and e[2][0] == 'bin' and e[2][1] == 'BitAnd':
                cs = [x for x in (e[2][2], e[2][3]) if x[0] == 'const' and x[1] is not None]
                ms = [x for x in (e[2][2], e[2][3]) if x[0] == 'call' and x[1].endswith('::mask')]
                if cs and ms:
                    return cs[0][1]
    if depth == 0:
        for loc, t in f.calls():
            if t['dest']['l'] == 0 and not t['dest']['p']:
                g = facts.fn_opt(t.get('callee') or '')
                if g is not None:
                    return mask_test_const(facts, g, 1)
    return None


def r6_mask_table(r, facts):
    hv = inotify_header()
    r.require(len(hv) >= 20, 'inotify.h', 'could not read the IN_* constants from %s' % INOTIFY_H)
    seen = 0
    for f in facts.func_list:
        m = re.match(r'^fs::notify::Event::(\w+)$', f.path)
        if not m or f.j.get('vis') not in (None, 'pub', 'public') and False:
            continue
        name = m.group(1)
        if name in ('file_path', 'mask', 'events', 'fmt'):
            continue
        row = EVENT_BITS.get(name)
        if not r.require(row is not None, 'event:%s' % name, 'accessor notify::Event::%s has no row in the event table (new accessor: add it)' % name, f.where()):
            continue
        got = mask_test_const(facts, f)
        seen += 1
        r.inst('Event::%s tests %s (%s = %#x)' % (name, got if got is None else hex(got), row, hv.get(row, -1)), f.where())
        r.require(got is not None, 'event:%s' % name, 'Event::%s is not of the form mask() & CONST != 0 (unrecognised form)' % name, f.where())
        if got is not None:
            r.require(got == hv.get(row), 'event:%s' % name, 'Event::%s tests mask bit(s) %#x but inotify(7) %s is %#x: the accessor reports another kind of event' % (name, got, row, hv.get(row, -1)), f.where())
    r.require(seen >= len(EVENT_BITS), 'event-table', 'only %d of %d event accessors found' % (seen, len(EVENT_BITS)))
    n = 0
    for path, c in sorted(facts.consts.items()):
        m = re.match(r'^fs::notify::Interest::([A-Z_]+)$', path)
        if not m or m.group(1) == 'ALL_VALUES':
            continue
        row = INTEREST_BITS.get(m.group(1))
        where = '%s:%s' % (c['span']['file'], c['span']['line']) if c.get('span') else ''
        if not r.require(row is not None, 'interest:%s' % m.group(1), 'Interest::%s has no row in the interest table' % m.group(1), where):
            continue
        got = int(c['val']) if 'val' in c else None
        n += 1
        r.inst('Interest::%s = %s (%s = %#x)' % (m.group(1), got, row, hv.get(row, -1)), where)
        r.require(got == hv.get(row), 'interest:%s' % m.group(1), 'Interest::%s subscribes to mask %s but inotify(7) %s is %#x' % (m.group(1), got, row, hv.get(row, -1)), where)
    r.require(n >= len(INTEREST_BITS), 'interest-table', 'only %d of %d Interest constants found' % (n, len(INTEREST_BITS)))
    # the watch request always asks the kernel not to follow links / to combine masks: part of "the events of the watched entry"
    r.floor(31)


def r3b_by_mask_value(r, facts):
    """by value over every event bit of <linux/inotify.h>: a record whose mask is exactly that bit is handed to the
    caller unless it is IN_IGNORED / IN_Q_OVERFLOW, and the watch is forgotten for IN_IGNORED only"""
    from .kernel import specialise_value
    f = facts.fn(POLL_SYS)
    ys = yields(f)
    if not r.require(len(ys) == 1, 'poll_sys', 'event yield site not found', f.where()):
        return
    hv = inotify_header()
    single = {n: v for n, v in hv.items() if bin(v).count('1') == 1 and v < (1 << 32) and n not in ('IN_ONLYDIR', 'IN_DONT_FOLLOW', 'IN_EXCL_UNLINK', 'IN_MASK_CREATE', 'IN_MASK_ADD', 'IN_ONESHOT', 'IN_CLOEXEC', 'IN_NONBLOCK')}
    if not r.require(len(single) >= 14 and 'IN_IGNORED' in single and 'IN_UNMOUNT' in single, 'inotify.h', 'event bits not found in %s' % INOTIFY_H):
        return

    def subj(e):
        return fam.last_field(e) == 'mask'
    rm = [loc for loc, t in f.calls() if ((t.get('callee') or '').endswith('::remove')) and 'HashMap' in (t.get('callee_full') or '')]
    n = 0
    for name, v in sorted(single.items(), key=lambda kv: kv[1]):
        g, decided = specialise_value(f, subj, v, ExprBuilder(f), bits=32)
        reach = g.reachable_blocks(0)
        yielded = ys[0][0] in reach
        forgotten = any(l[0] in reach for l in rm)
        want_y = name not in ('IN_IGNORED', 'IN_Q_OVERFLOW')
        want_f = name == 'IN_IGNORED'
        n += 1
        r.inst('%s (%#x): yielded=%s forgotten=%s' % (name, v, yielded, forgotten), f.where())
        if not decided:
            r.bad('poll_sys/mask-tests', 'no test of the record mask was found (by value)', f.where())
            break
        r.require(yielded == want_y, 'poll_sys/by-mask:%s/yield' % name, 'a record with mask %s is %s' % (name, 'never handed to the caller (the event is lost)' if want_y else 'handed to the caller'), f.where())
        r.require(forgotten == want_f, 'poll_sys/by-mask:%s/forget' % name, 'a record with mask %s %s' % (name, 'makes the watcher forget the watch although the kernel has not removed it (later events for it lose their path)' if not want_f else 'does not make the watcher forget the watch'), f.where())
    r.floor(14)


def r7_read_consumed(r, facts):
    """a finished read is never polled again: once the read future returned Ready (data, empty or error) the state
    leaves `Reading` before the function returns or loops — only Pending keeps it"""
    f = facts.fn(POLL_SYS)
    hdr = loop_header(f)
    polls = [(loc, t) for loc, t in f.calls() if (t.get('callee') or '') == 'std::future::Future::poll' and not f.blocks[loc[0]]['cleanup']]
    if not r.require(len(polls) >= 1 and hdr is not None, 'poll_sys/read-poll', 'poll of the read future / state dispatch not found', f.where()):
        return
    stores = [loc for loc, s_ in f.assigns() if [p_.get('name') for p_ in s_['lhs']['p'] if p_['k'] == 'field'][-1:] == ['state'] and (s_['lhs'].get('ty') or '').startswith('inotify::EventsState')]
    # the Pending arm of the match on the poll result: the first test of that result behind the call (later re-tests of the same
    # discriminant are drop elaboration — their "Pending" edges lie on the Ready(Err) path and would hide a missing store)
    pend = []
    for loc, t in polls:
        vs = [v for v in variant_edges(f, 'std::task::Poll', 'Pending') if v['si']['place']['l'] == t['dest']['l'] and not v['si']['place']['p']]
        if vs:
            v0 = min(vs, key=lambda v: len(f.dom.get(v['edge'][0], ())))
            pend.append(Loc(v0['edge'][1], 0))
    r.require(bool(stores) and bool(pend), 'poll_sys/state-stores', 'state stores / Pending arm not found', f.where())
    hloc = f.term_loc(hdr)
    for loc, t in polls:
        if t.get('target') is None:
            continue
        hit = f.forward_paths_hit([Loc(t['target'], 0)], f.returns() + [hloc], blockers=stores + pend)
        r.inst('read future polled', f.where(loc))
        r.require(hit is None, 'poll_sys/finished-read-kept', 'after the read future completed (e.g. with an error) a path returns or loops with the state still `Reading`: the next poll_next polls a finished future (panic) instead of ending the stream', f.where(hit[0]) if hit else '')
    # the way back: when a batch is used up the buffer is taken out of the state (mem::replace leaves `Done` behind), cleared,
    # handed to a new read, and that read becomes the state — on every path back to the dispatch
    eb = ExprBuilder(f, multi='phi')
    reads = [(loc, t) for loc, t in f.calls() if re.search(r'AsyncFd>?::read$', t.get('callee') or '') and not f.blocks[loc[0]]['cleanup']]
    clears = [loc for loc, t in f.calls() if (t.get('callee') or '').endswith('Vec::<T, A>::clear') and not f.blocks[loc[0]]['cleanup']]
    repl = [(loc, t) for loc, t in f.calls() if (t.get('callee') or '') == 'std::mem::replace' and not f.blocks[loc[0]]['cleanup']]
    if r.require(len(reads) >= 1, 'poll_sys/re-read', 'no new read is started in poll_sys when a batch is used up (the stream ends after the first batch)', f.where()):
        for loc, t in reads:
            r.inst('next read started', f.where(loc))
            r.require(any(f.dominates(c, loc) for c in clears), 'poll_sys/re-read-uncleared', 'the buffer handed to the next read was not cleared: it is still full, the read has no room (zero bytes: taken for the end of the stream) or appends behind stale records', f.where(loc))
            st = [l for l in stores if f.dominates(loc, l) and any(x[0] == 'call' and re.search(r'AsyncFd>?::read$', x[1]) for x in subexprs(eb.rvalue(f.at(l)['rv'])))]
            r.require(bool(st), 'poll_sys/re-read-state', 'the new read does not become the state (`Reading`): it is dropped and the stream ends', f.where(loc))
    for loc, t in repl:
        if t.get('target') is None:
            continue
        hit = f.forward_paths_hit([Loc(t['target'], 0)], f.returns() + [hloc], blockers=stores)
        r.require(hit is None, 'poll_sys/re-read-state', 'after the state was taken apart (mem::replace) a path goes back to the dispatch without a new state: the stream ends silently after one batch', f.where(hit[0]) if hit else '')
    r.floor(1)


def check(ctx):
    ctx.run('C17.R7', 'a completed read (data, end of stream, error) always leaves the Reading state; only Pending keeps it', r7_read_consumed)
    ctx.run('C17.R3b', 'per event bit of <linux/inotify.h>, by value: yielded unless IN_IGNORED/IN_Q_OVERFLOW; watch forgotten only for IN_IGNORED', r3b_by_mask_value)
    ctx.run('C17.R2', 'decoder bounds: header deref under buf.len() > processed; BUF_SIZE covers one maximal record', r2_bounds)
    ctx.run('C17.R3', 'IN_IGNORED forgets the watch; IN_IGNORED / IN_Q_OVERFLOW records are never yielded', r3_filtered)
    ctx.run('C17.R5', 'wd -> path table: stored under the wd the kernel returned with the path given to it; path_for joins the path looked up by event.wd with the event\'s name', r5_watch_paths)
    ctx.run('C17.R6', 'event accessors and Interest constants name the inotify(7) bits of <linux/inotify.h>', r6_mask_table)
    ctx.run('C17.R4', 'cursor advances once per record by header + name length before yield/skip; padding stripped', r4_cursor)


def check_extra(ctx):
    from . import witness
    ctx.run('C17.R1', 'events cannot outlive their bytes (compile-fail witnesses against the public API)', lambda r, facts: witness.run_group(r, ctx.repo, 'c17'))
