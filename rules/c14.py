"""C14 Buffer trait implementations obey the pointer/length/initialisation laws."""
import re

from .kernel import (ExprBuilder, Loc, access_path, subexprs, variant_edges, is_local, const_val, E, table_loop_complete)
from . import families as fam
from . import addr
from . import c10

EXPLANATION = (
    'Decides for every provided Buf/BufMut/BufSlice/BufMutSlice impl: (R1) no truncating narrowing of a limit '
    '— an IntToInt cast usize->u32 whose operand originates in LimitedBuf.limit is a violation (a limit >= '
    '2^32 would become a smaller length) unless it went through a saturating conversion; (R2) order and '
    'coverage for tuples (arities 2..8) and arrays: as_iovecs[_mut] builds element i from field i in order, '
    'set_init visits the same sequence with the shape `len < left => set_init(len); left -= len else '
    'set_init(left); return`, and the totals mention every index exactly once; (R3) sibling agreement: '
    'spare_capacity is the length component of parts_mut and len is the length component of parts after '
    'normalising to canonical length forms (LEN/SPARE/MIN), modulo widening casts; (R4) guard dominance at raw '
    'pointer arithmetic: SkipBuf::parts (ptr.add(skip) only under skip < size with length size - skip), '
    'LimitedBuf::as_iovecs[_mut] (set_len(left) only under len > left), IoSlice::skip call sites (skip < len); '
    '(R5) PROV (pointers do not point into the buffer value); (R6) wrapper forwarding of pool hooks; (R7) '
    'every pointer/length/capacity method of every LimitedBuf impl, including overrides of the doc-hidden '
    'BufMut::parts hook, applies self.limit (or another limited method of self) on every return path. The '
    'numeric laws for all sizes are not decided (lengths are assumed <= u32::MAX as documented by the traits).'
    ' Also decided: (R8 = C10.R10) wrapper completion hooks; (R9) iovec views: set_len stores new_len, skip advances iov_base by n and takes n off iov_len, len/ptr read the fields, both layers; (R10) Vec<u8>::set_init grows by exactly n, LimitedBuf::set_init takes n off the limit; (R11) LimitedBuf::as_iovecs[_mut] distributes the limit front to back; (R12) has_spare_capacity / is_empty of Vec<u8> and LimitedBuf agree with the lengths they summarise.'
)
NOT_DECIDED = "numeric laws for all sizes; buffers of 4 GiB and more"
ASSUMPTIONS = ["buffer lengths fit in u32 as the traits document", "std Vec/String/slice accessors behave as documented"]

TUPLE_RX = re.compile(r'^\((\w+(, \w+)+)\)$')


def r1_limit_casts(r, facts):
    n = 0
    for f in facts.func_list:
        if 'LimitedBuf' not in f.path:
            continue
        eb = ExprBuilder(f, multi='phi')
        for loc, s in f.assigns():
            rv = s['rv']
            if rv['k'] == 'cast' and rv['ck'] == 'IntToInt' and rv['from'] == 'usize' and rv['to'] in ('u32', 'u16', 'i32'):
                e = eb.operand(rv['op'])
                if fam.last_field(e) == 'limit' and e[0] == 'proj':
                    n += 1
                    r.inst('%s: %s as %s' % (f.path, e, rv['to']), f.where(loc))
                    r.bad('cast:%s' % f.path, 'LimitedBuf.limit (usize) is truncated with `as %s`: a limit of 2^32 becomes 0, larger limits become small, contradicting len()/has_spare_capacity()' % rv['to'], f.where(loc))
        # accepted saturating idioms are counted as instances
        for loc, t in f.calls():
            c = t.get('callee') or ''
            if c in ('std::convert::TryFrom::try_from', 'std::convert::TryInto::try_into') or c.endswith('::try_from'):
                e = eb.operand(t['args'][0])
                if fam.last_field(e) == 'limit':
                    n += 1
                    r.idiom('try_from(limit)')
                    r.inst('%s: saturating conversion of limit' % f.path, f.where(loc))
            if c == 'std::cmp::min':
                es = [eb.operand(a) for a in t['args']]
                if any(fam.last_field(x) == 'limit' and x[0] == 'proj' for x in es):
                    n += 1
                    r.idiom('min(usize, limit)')
                    r.inst('%s: min(.., limit) in usize' % f.path, f.where(loc))
    r.require(n >= 4, 'limit-uses', 'expected >= 4 uses of LimitedBuf.limit as a length bound, found %d (anchor changed?)' % n)
    r.floor(4, 'limit uses')


def tuple_impls(facts, trait, method):
    out = []
    for i, f in facts.impl_fns(trait, method):
        m = TUPLE_RX.match(i['self'])
        if m:
            out.append((len(i['self'].strip('()').split(', ')), i, f))
    return sorted(out, key=lambda x: x[0])


def field_index(e):
    """(*self).K -> K"""
    ap = access_path(e)
    if ap and ap[0][0] == 'arg' and ap[0][1] == 1 and ap[1].isdigit():
        return int(ap[1])
    return None


def r2_order_coverage(r, facts):
    for trait, meth, elem in (('io::traits::BufSlice', 'as_iovecs', 'IoSlice::new'), ('io::traits::BufMutSlice', 'as_iovecs_mut', 'IoMutSlice::new')):
        ims = tuple_impls(facts, trait, meth)
        r.require(len(ims) == 7, '%s/arity-count' % meth, 'expected tuple impls for arities 2..8, found %s' % [x[0] for x in ims])
        for n, i, f in ims:
            eb = ExprBuilder(f, multi='phi')
            seq = None
            for loc, s in f.assigns():
                if s['lhs']['l'] == 0 and not s['lhs']['p']:
                    e = eb.rvalue(s['rv'])
                    if e[0] == 'agg' and e[1] == 'array':
                        seq = [field_index(x[2][0]) if x[0] == 'call' and x[1].endswith(elem) else None for x in e[3]]
            r.inst('%s for %d-tuple: elements %s' % (meth, n, seq), f.where())
            r.require(seq == list(range(n)), '%s/tuple%d' % (meth, n), '%s of the %d-tuple builds its iovecs from fields %s, expected 0..%d in order' % (meth, n, seq, n - 1), f.where())
    # set_init for tuples
    for n, i, f in tuple_impls(facts, 'io::traits::BufMutSlice', 'set_init'):
        _check_set_init(r, f, n)
    # totals
    for trait, meth, inner in (('io::traits::BufMutSlice', 'total_spare_capacity', 'BufMut::spare_capacity'),
                               ('io::traits::BufMutSlice', 'has_spare_capacity', 'BufMut::has_spare_capacity'),
                               ('io::traits::BufSlice', 'total_len', 'Buf::len'), ('io::traits::BufSlice', 'is_empty', 'Buf::is_empty')):
        for n, i, f in tuple_impls(facts, trait, meth):
            eb = ExprBuilder(f, multi='phi')
            idx = []
            for loc, t in f.calls():
                if (t.get('callee') or '').endswith(inner):
                    idx.append(field_index(eb.operand(t['args'][0])))
            r.inst('%s for %d-tuple: %s' % (meth, n, idx), f.where())
            r.require(sorted(x for x in idx if x is not None) == list(range(n)) and len(idx) == n, '%s/tuple%d' % (meth, n),
                      '%s of the %d-tuple consults fields %s (each of 0..%d exactly once expected)' % (meth, n, idx, n - 1), f.where())
    # arrays: iterate over self with the same element function
    for trait, meth, inner in (('io::traits::BufMutSlice', 'total_spare_capacity', 'spare_capacity'), ('io::traits::BufMutSlice', 'has_spare_capacity', 'has_spare_capacity'),
                               ('io::traits::BufSlice', 'total_len', 'len'), ('io::traits::BufSlice', 'is_empty', 'is_empty')):
        for i, f in facts.impl_fns(trait, meth):
            if not i['self'].startswith('[B; N]'):
                continue
            fnrefs = set()
            for loc, s in f.assigns():
                from .kernel import rvalue_operands
                for op in rvalue_operands(s['rv']):
                    if op.get('k') == 'const' and 'fn' in op:
                        fnrefs.add(op['fn'])
            for loc, t in f.calls():
                for a in t['args']:
                    if a.get('k') == 'const' and 'fn' in a:
                        fnrefs.add(a['fn'])
            # or written as an explicit loop: the per-element function is called on the element the iteration over
            # `self` yields (for sums the loop must not be left early; all/any may short-circuit)
            looped = False
            ebl = ExprBuilder(f, multi='phi')
            for loc, t in f.calls():
                if (t.get('callee') or '').endswith('::' + inner) and t['args']:
                    a = ebl.operand(t['args'][0])
                    over_self = any(x[0] == 'call' and x[1] == 'std::iter::Iterator::next' and any(y[0] == 'arg' and y[1] == 1 for y in subexprs(x)) for x in subexprs(a))
                    if over_self and (meth in ('is_empty', 'has_spare_capacity') or table_loop_complete(f, loc)):
                        looped = True
            # or through a closure handed to an iterator adaptor (`any(|b| !b.is_empty())`, `map(|b| b.len())`)
            for loc, s_ in f.assigns():
                if s_['rv']['k'] == 'agg' and s_['rv'].get('ak') == 'closure':
                    cg = facts.fn_opt(s_['rv'].get('closure') or '')
                    if cg is None:
                        continue
                    ce = ExprBuilder(cg, multi='phi')
                    for l2, t2 in cg.calls():
                        if (t2.get('callee') or '').endswith('::' + inner) and t2['args']:
                            a2 = ce.operand(t2['args'][0])
                            if any(x[0] == 'arg' and x[1] == 2 for x in subexprs(a2)):
                                looped = True
            r.inst('%s for [B; N]: maps %s%s' % (meth, sorted(fnrefs), ' (explicit loop / closure)' if looped else ''), f.where())
            r.require(looped or any(x.endswith('::' + inner) for x in fnrefs), '%s/array' % meth, '%s of [B; N] does not fold the per-element %s' % (meth, inner), f.where())
    # array set_init loop body has the same shape
    for i, f in facts.impl_fns('io::traits::BufMutSlice', 'set_init'):
        if i['self'].startswith('[B; N]'):
            _check_set_init(r, f, None)
    r.floor(40, 'tuple/array obligations')


def counter_local(f, init_pred, eb=None):
    """the `remaining` counter of a distribution loop, found structurally (whatever it is called): a local with
    several definitions, one of which satisfies init_pred(expr) and all others are `itself - x` (Sub, saturating_sub)
    or a constant 0"""
    eb = eb or ExprBuilder(f, multi='leaf')
    for l in range(len(f.locals)):
        ds = [d for d in f.defs.get(l, []) if not f.blocks[d[0][0]]['cleanup']]
        if len(ds) < 2 or f.partial_writes(l):
            continue
        inits, decs, other = 0, 0, 0
        # a definition that only copies another local (the value of an inlined closure / a `let new = ..; left = new`)
        # stands for the definitions of that local
        work, exprs, seen_x, origin = list(ds), [], {l}, []
        while work:
            d = work.pop()
            e = eb.definition(d, 0, ())
            if e[0] == 'local' and e[1] not in seen_x and len(seen_x) < 5 and not f.partial_writes(e[1]):
                dx = [d2 for d2 in f.defs.get(e[1], []) if not f.blocks[d2[0][0]]['cleanup']]
                if dx:
                    seen_x.add(e[1])
                    work.extend(dx)
                    continue
            # the payload of a variant of a local that is only ever built as an aggregate (`ControlFlow::Continue(x)` /
            # `Some(x)` carrying the next value of an accumulator): the field of the aggregates of that variant
            if e[0] == 'proj' and e[1][0] == 'local' and len(e[2]) == 2 and e[2][0].startswith('@') and e[2][1] == '.0' and not f.partial_writes(e[1][1]):
                vname = e[2][0][1:]
                aggs = [eb.definition(d2, 0, ()) for d2 in f.defs.get(e[1][1], []) if not f.blocks[d2[0][0]]['cleanup']]
                if aggs and all(a[0] == 'agg' for a in aggs):
                    hit = [a for a in aggs if a[1].rsplit('::', 1)[-1] == vname and len(a[3]) == 1]
                    if hit:
                        for d2 in f.defs.get(e[1][1], []):
                            a = eb.definition(d2, 0, ())
                            if a in hit:
                                exprs.append(a[3][0])
                                origin.append(d2[0])
                        continue
            exprs.append(e)
            origin.append(d[0])
        for e in exprs:
            while e[0] == 'cast' or (e[0] == 'proj' and e[2] == ('.0',)):
                e = e[4] if e[0] == 'cast' else e[1]
            if init_pred(e):
                inits += 1
            elif e[0] == 'bin' and e[1].startswith('Sub') and e[2][0] == 'local' and e[2][1] == l:
                decs += 1
            elif e[0] == 'call' and e[1].endswith('saturating_sub') and e[2] and e[2][0][0] == 'local' and e[2][0][1] == l:
                decs += 1
            elif e[0] == 'const' and e[1] == 0:
                decs += 1
            elif e[0] == 'proj' and '@Some' in e[2] and e[1][0] == 'call' and e[1][1].endswith('checked_sub') and e[1][2][0][0] == 'local' and e[1][2][0][1] == l:
                decs += 1
            else:
                other += 1
        if inits >= 1 and decs >= 1 and other == 0:
            # where each definition of the counter is computed (through copies / accumulator payloads)
            f.counter_defs = getattr(f, 'counter_defs', {})
            f.counter_defs[l] = list(zip(origin, exprs))
            return l
    return None


def _relation(op, a_is_r, taken):
    """relation between C (element capacity) and R (remaining) implied by taking edge `taken` of `a op b`, where
    a_is_r says whether the left operand is R: one of 'C<R', 'C<=R', 'C>R', 'C>=R'"""
    # rewrite as C ? R
    if a_is_r:
        op = {'Lt': 'Gt', 'Le': 'Ge', 'Gt': 'Lt', 'Ge': 'Le'}[op]
    if not taken:
        op = {'Lt': 'Ge', 'Le': 'Gt', 'Gt': 'Le', 'Ge': 'Lt'}[op]
    return {'Lt': 'C<R', 'Le': 'C<=R', 'Gt': 'C>R', 'Ge': 'C>=R'}[op]


def _check_set_init(r, f, n):
    eb = ExprBuilder(f, multi='leaf')
    name = 'set_init/tuple%d' % n if n else 'set_init/array'
    parts = [(loc, t) for loc, t in f.calls() if (t.get('callee') or '').endswith('BufMut::parts_mut')]
    inits = [(loc, t) for loc, t in f.calls() if (t.get('callee') or '').endswith('BufMut::set_init')]
    if n:
        seq = [field_index(ExprBuilder(f, multi='phi').operand(t['args'][0])) for loc, t in sorted(parts, key=lambda x: len(f.dom.get(x[0][0], ())))]
        r.inst('%s: visits %s' % (name, seq), f.where())
        r.require(seq == list(range(n)), name + '/order', 'set_init visits fields %s, expected 0..%d in order (bytes would be attributed to the wrong buffer)' % (seq, n - 1), f.where())
        r.require(len(inits) == 2 * n, name + '/inits', 'expected %d set_init calls (full/partial per element), found %d' % (2 * n, len(inits)), f.where())
    else:
        r.inst('%s: loop body' % name, f.where())
        r.require(len(parts) == 1 and len(inits) == 2, name + '/shape', 'array set_init loop does not have one parts_mut and two set_init calls', f.where())
    # the remaining-count local: initialised from the parameter n (argument 2), decreased by element lengths
    R = counter_local(f, lambda e: e[0] == 'arg' and e[1] == 2, eb)
    if not r.require(R is not None, name + '/counter', 'the count of bytes still to distribute (initialised from n, decreased per element) was not found', f.where()):
        return

    def is_r(e):
        while e[0] == 'cast':
            e = e[4]
        return e[0] == 'local' and e[1] == R
    # no element is passed over: between looking at an element's capacity and moving on (next element, loop head, return,
    # the panic for n > capacity) one of its two set_init calls runs — with an extra "nothing to do here" exit, n == 0 on
    # buffers without spare capacity falls through to the panic
    nxt = [l for l, t in f.calls() if (t.get('callee') or '') == 'std::iter::Iterator::next']
    panics = [l for l, t in f.calls() if 'panic' in (t.get('callee') or '') and not f.blocks[l[0]]['cleanup']]
    for pl, pt in parts:
        if pt.get('target') is None:
            continue
        others = [l for l, _ in parts if l != pl] + nxt + panics + f.returns()
        hit = f.forward_paths_hit([Loc(pt['target'], 0)], others, blockers=[l for l, _ in inits])
        r.require(hit is None, name + '/element-skipped', 'an element can be passed over without either set_init call (an extra exit next to the full/partial arms): the distribution of n bytes then ends in the final panic although the bytes fit (e.g. n == 0 with buffers that have no spare capacity)', f.where(hit[0]) if hit else '')
    for pl, pt in parts:
        # the capacity test of this element: the nearest comparison behind parts_mut that involves the counter
        sw = None
        for b, blk in enumerate(f.blocks):
            if blk['term']['k'] == 'switch' and not blk['cleanup'] and f.dominates(pl, f.term_loc(b)):
                e = eb.operand(blk['term']['discr'])
                if e[0] == 'bin' and e[1] in ('Lt', 'Le', 'Gt', 'Ge') and (is_r(e[2]) != is_r(e[3])):
                    if sw is None or len(f.dom.get(b, ())) < len(f.dom.get(sw[0], ())):
                        sw = (b, e)
        if not r.require(sw is not None, name + '/test', 'no comparison of the element capacity with the remaining count', f.where(pl)):
            continue
        b, e = sw
        vals = {int(v): tg for v, tg in f.term(b)['targets']}
        t_true, t_false = vals.get(1, f.term(b)['otherwise']), vals.get(0)
        rel_true, rel_false = _relation(e[1], is_r(e[2]), True), _relation(e[1], is_r(e[2]), False)
        # the edge on which the element is filled completely must imply capacity < remaining (strictly: with <= an
        # exactly filled last buffer falls off the end); the other edge (remaining <= capacity) finishes
        edges = {rel_true: (b, t_true), rel_false: (b, t_false)}
        full_e, part_e = edges.get('C<R'), edges.get('C>=R')
        r.require(full_e is not None and part_e is not None, name + '/cmp',
                  'element test is %s (edges imply %s / %s), expected `len < left` against `left <= len` (with `<=` on the full arm an exactly filled buffer is followed by an out-of-range write / unreachable!)' % (e, rel_true, rel_false), f.where(f.term_loc(b)))
        if full_e is None or part_e is None:
            continue
        full = [(l, t) for l, t in inits if f.edge_dominates(full_e, l) and _closest(f, l, b)]
        part = [(l, t) for l, t in inits if f.edge_dominates(part_e, l) and _closest(f, l, b)]
        if r.require(len(full) >= 1 and len(part) >= 1, name + '/arms', 'full/partial set_init arms not found after the capacity test', f.where(f.term_loc(b))):
            fl, ft = full[0]
            pl2, pt2 = part[0]
            a_full = eb.operand(ft['args'][1])
            a_part = eb.operand(pt2['args'][1])
            r.require(not is_r(a_full), name + '/full-arg', 'the fully-initialised arm passes the remaining count instead of the element length', f.where(fl))
            r.require(is_r(a_part), name + '/part-arg', 'the partially-initialised arm does not pass the remaining count: %s' % (a_part,), f.where(pl2))
            hit = f.forward_paths_hit([Loc(pt2['target'], 0)], [l for l, _ in parts + inits])
            r.require(hit is None, name + '/continues', 'after the partial arm further buffers are touched (must return)', f.where(pl2))
            # remaining -= len on the full arm before the next element
            dec = False
            for l, s_ in f.assigns():
                if f.edge_dominates(full_e, l) and not s_['lhs']['p'] and s_['lhs']['l'] == R:
                    ee = eb.rvalue(s_['rv'])
                    if ee[0] == 'proj' and ee[2] == ('.0',):
                        ee = ee[1]
                    if ee[0] == 'bin' and ee[1].startswith('Sub') and is_r(ee[2]):
                        dec = True
            # .. or the new value of the counter is computed on the full arm and reaches it through a copy / the
            # payload of the accumulator of a fold
            for l, ee in getattr(f, 'counter_defs', {}).get(R, []):
                while ee[0] == 'cast' or (ee[0] == 'proj' and ee[2] == ('.0',)):
                    ee = ee[4] if ee[0] == 'cast' else ee[1]
                if ee[0] == 'bin' and ee[1].startswith('Sub') and is_r(ee[2]) and f.edge_dominates(full_e, Loc(*l) if not isinstance(l, Loc) else l):
                    dec = True
            r.require(dec, name + '/decrement', 'the remaining count is not decreased by the element length on the full arm', f.where(fl))


def _closest(f, loc, b):
    """no other switch with a comparison lies between switch b and loc on the dominator chain"""
    d = f.dom.get(loc[0], set())
    inner = [x for x in d if x != b and b in f.dom.get(x, set()) and f.blocks[x]['term']['k'] == 'switch'
             and x != loc[0]]
    eb = ExprBuilder(f, multi='leaf')
    for x in inner:
        e = eb.operand(f.blocks[x]['term']['discr'])
        if e[0] == 'bin' and e[1] in ('Lt', 'Le', 'Gt', 'Ge'):
            return False
    return True


def _is_left(e):
    while e[0] == 'cast':
        e = e[4]
    return e[0] == 'local' and e[2] == 'left'


# ---- R3 canonical length forms ------------------------------------------------

LEN_CALLS = {'io::traits::Buf::len', 'std::vec::Vec::<T, A>::len', 'std::string::String::len', 'core::str::<impl str>::len',
             'core::slice::<impl [T]>::len', 'io::read_buf::ReadBuf::len', 'std::ptr::NonNull::<[T]>::len'}
VIEW_CALLS = {'std::vec::Vec::<T, A>::as_slice', 'std::string::String::as_bytes', 'core::str::<impl str>::as_bytes', 'io::read_buf::ReadBuf::as_slice',
              'std::ops::Deref::deref', 'io::traits::Buf::as_slice', 'std::string::String::as_str'}


def canon(e):
    """canonical form of a length expression"""
    k = e[0]
    if k == 'cast':
        return canon(e[4])
    if k == 'proj' and e[2] == ('.0',) and e[1][0] == 'bin':
        return canon(e[1])
    if k == 'phi':
        # `u32::try_from(limit).unwrap_or(u32::MAX)` written out (the normaliser desugars unwrap_or): the Ok payload of
        # try_from(limit) on one side, u32::MAX on the other
        alts = list(e[1])
        mx = [a for a in alts if a[0] == 'const' and a[1] == 0xFFFFFFFF]
        tf = [a for a in alts if a[0] == 'proj' and tuple(a[2]) == ('@Ok', '.0') and a[1][0] == 'call' and a[1][1].endswith('try_from')]
        if len(alts) == 2 and len(mx) == 1 and len(tf) == 1 and tf[0][1][2]:
            ca = canon(tf[0][1][2][0])
            if ca[0] == 'PLACE' and ca[1].split('.')[-1] == 'limit':
                return ('SAT32', ca[1])
            if any(x[0] == 'proj' and fam.last_field(x) == 'limit' for x in subexprs(tf[0])):
                return ('SAT32E', ca)      # saturating narrowing of an expression over the limit (e.g. limit - used)
        return ('ALT', tuple(sorted({repr(canon(a)) for a in e[1]})))
    if k == 'call':
        name = e[1]
        if name in LEN_CALLS and e[2]:
            return ('LEN', obj(e[2][0]))
        if name == 'std::cmp::min':
            terms = []
            for x in (canon(e[2][0]), canon(e[2][1])):
                terms.extend(x[1:] if x[0] == 'MIN' else [x])
            # min(.., u32::MAX) of a limit is the saturating narrowing, written try_from().unwrap_or(MAX) or
            # min(limit, u32::MAX as usize) as u32 alike
            # (not so next to a total over several buffers: `total_len()` is a usize sum that may exceed u32::MAX, clamping
            # it to the 32-bit saturated limit under-reports what as_iovecs exposes)
            wide = any(x[0] == 'call' and x[1] == 'io::traits::BufSlice::total_len' for a_ in e[2] for x in subexprs(a_))
            if not wide:
                terms = [('PLACE', t[1]) if t[0] == 'SAT32' else t for t in terms]
            bounded = any(t[0] in ('LEN', 'SPARE') for t in terms)
            rest = [t for t in terms if t != ('CONST', 0xFFFFFFFF)]
            if len(rest) < len(terms) and not bounded and len(rest) == 1 and rest[0][0] == 'PLACE':
                return ('SAT32', rest[0][1])
            # min(LEN, saturate_u32(limit)) == min(LEN, limit) because LEN <= u32::MAX (trait contract);
            # a *truncating* cast of the limit is not accepted here (it is R1's violation)
            if bounded:
                terms = rest
            terms = sorted(set(terms), key=repr)
            return ('MIN',) + tuple(terms) if len(terms) > 1 else terms[0]
        if name == 'io::traits::BufMut::spare_capacity' or name == 'io::traits::BufMutSlice::total_spare_capacity':
            return ('SPARE', obj(e[2][0]))
        if name == 'io::traits::BufSlice::total_len':
            return ('LEN', obj(e[2][0]))
        if name.endswith('try_from') or name.endswith('unwrap_or'):
            tfc = [x for x in subexprs(e) if x[0] == 'call' and x[1].endswith('try_from') and x[2]]
            if tfc:
                ca = canon(tfc[0][2][0])
                if ca[0] == 'PLACE' and ca[1].split('.')[-1] == 'limit':
                    return ('SAT32', ca[1])
                if any(x[0] == 'proj' and fam.last_field(x) == 'limit' for x in subexprs(e)):
                    return ('SAT32E', ca)
        return ('CALL', name, tuple(canon(a) for a in e[2]))
    if k == 'proj':
        # (parts(x)).1 / (parts_mut(x)).1
        if e[1][0] == 'call' and e[2] == ('.1',):
            n = e[1][1]
            if n == 'io::traits::Buf::parts':
                return ('LEN', obj(e[1][2][0]))
            if n == 'io::traits::BufMut::parts_mut':
                return ('SPARE', obj(e[1][2][0]))
        return ('PLACE', obj(e))
    if k == 'bin':
        op = e[1].replace('WithOverflow', '')
        a, b = canon(e[2]), canon(e[3])
        if op == 'Sub' and a[0] == 'CALL' and a[1] == 'std::vec::Vec::<T, A>::capacity' and b[0] == 'LEN':
            return ('SPARE', b[1])
        return ('BIN', op, a, b)
    if k == 'const':
        return ('CONST', e[1])
    return ('X', repr(e))


def obj(e):
    """identity of the object an accessor is applied to: access path string, seeing through views"""
    while True:
        if e[0] == 'call' and e[1] in VIEW_CALLS and e[2]:
            e = e[2][0]
        elif e[0] == 'ref':
            e = e[1]
        elif e[0] == 'cast':
            e = e[4]
        else:
            break
    ap = access_path(e)
    if ap and ap[0][0] in ('arg',):
        path = ap[1]
        # Box<T> deref is elaborated to (*self).0.pointer in MIR: same object
        path = re.sub(r'(^|\.)0\.pointer(\.pointer)?$', '', path)
        return 'self' + ('.' + path if path else '')
    return repr(e)


def ret_exprs(f, transparent=True):
    eb = ExprBuilder(f, multi='phi', transparent=transparent)
    out = []
    for loc, s in f.assigns():
        if s['lhs']['l'] == 0 and not s['lhs']['p']:
            out.append(eb.rvalue(s['rv']))
    for loc, t in f.calls():
        if is_local(t['dest'], 0):
            out.append(eb.call(t))
    return out


def vec_spare(c):
    # slice::len(spare_capacity_mut(v)) == SPARE(v)
    if c[0] == 'LEN' and 'spare_capacity_mut' in c[1]:
        return ('SPARE', 'self')
    return c


def r3_sibling_agreement(r, facts):
    n = 0
    for i in facts.impls_of('io::traits::BufMut'):
        items = {it['name']: it['path'] for it in i['items']}
        if 'parts_mut' not in items or 'spare_capacity' not in items:
            continue
        pm, sc = facts.fn(items['parts_mut']), facts.fn(items['spare_capacity'])
        a = set()
        for e in ret_exprs(pm):
            comp = e[3][1] if e[0] == 'agg' and e[1] == 'tuple' and len(e[3]) == 2 else E('proj', e, ('.1',), None)
            a.add(repr(vec_spare(canon(comp))))
        b = {repr(vec_spare(canon(e))) for e in ret_exprs(sc)}
        n += 1
        r.inst('BufMut for %s: parts_mut.1 %s  vs spare_capacity %s' % (i['self'], sorted(a), sorted(b)), pm.where())
        r.require(a == b, 'BufMut:%s' % i['self'], 'spare_capacity() and the length returned by parts_mut() are computed differently for %s: %s vs %s' % (i['self'], sorted(a), sorted(b)), sc.where())
    for i in facts.impls_of('io::traits::Buf'):
        items = {it['name']: it['path'] for it in i['items']}
        if 'parts' not in items or 'len' not in items:
            continue
        p, ln = facts.fn(items['parts']), facts.fn(items['len'])
        a = set()
        for e in ret_exprs(p):
            comp = e[3][1] if e[0] == 'agg' and e[1] == 'tuple' and len(e[3]) == 2 else E('proj', e, ('.1',), None)
            c = canon(comp)
            if c == ('LEN', 'self'):
                c = ('LEN', 'self')
            a.add(repr(c))
        b = {repr(canon(e)) for e in ret_exprs(ln)}
        n += 1
        r.inst('Buf for %s: parts.1 %s vs len %s' % (i['self'], sorted(a), sorted(b)), p.where())
        r.require(a == b, 'Buf:%s' % i['self'], 'len() and the length returned by parts() are computed differently for %s: %s vs %s' % (i['self'], sorted(a), sorted(b)), ln.where())
    r.floor(12, 'impl pairs')


def r4_guards(r, facts):
    # SkipBuf::parts
    f = facts.fn('<io::SkipBuf<B> as io::traits::Buf>::parts')
    eb = ExprBuilder(f, multi='phi')
    adds = [(loc, t) for loc, t in f.calls() if (t.get('callee') or '').endswith('::add')]
    if r.require(len(adds) == 1, 'SkipBuf::parts', 'pointer offset not found', f.where()):
        al, at = adds[0]
        guard = None
        for (b, tgt) in c10.controlling_switches(f, al):
            e = eb.operand(f.term(b)['discr'])
            if e[0] == 'bin' and e[1] in ('Ge', 'Lt', 'Gt', 'Le'):
                vals = {int(v): tg for v, tg in f.term(b)['targets']}
                t_true, t_false = vals.get(1, f.term(b)['otherwise']), vals.get(0)
                a_skip, b_skip = fam.last_field(e[2]) == 'skip', fam.last_field(e[3]) == 'skip'
                # taken edge must imply skip < size
                ok = (e[1] == 'Ge' and a_skip and tgt == t_false) or (e[1] == 'Lt' and a_skip and tgt == t_true) or \
                     (e[1] == 'Le' and b_skip and tgt == t_false) or (e[1] == 'Gt' and b_skip and tgt == t_true)
                if ok:
                    guard = (b, e)
        # `match size.checked_sub(self.skip) { Some(rest) => ptr.add(skip) .. }`: the Some edge implies skip <= size
        # (an offset of exactly `size` is the one-past-the-end pointer, still inside the allocation)
        for si in f.enum_switches('std::option::Option'):
            ce = eb.local(si['place']['l']) if not si['place']['p'] else None
            if ce is not None and ce[0] == 'call' and ce[1].endswith('checked_sub') and fam.last_field(ce[2][1]) == 'skip' and fam.last_field(ce[2][0]) != 'skip':
                se = f.variant_edge(si, 'Some')
                if se is not None and f.edge_dominates(se, al):
                    guard = (si['bb'], ce)
        r.inst('SkipBuf::parts: ptr.add(skip) guarded by %s' % (guard[1] if guard else None,), f.where(al))
        r.require(guard is not None, 'SkipBuf::parts/guard', 'ptr.add(skip) is not dominated by an edge implying skip < size (pointer past the buffer)', f.where(al))
        off = eb.operand(at['args'][1])
        r.require(fam.last_field(off) == 'skip' or any(fam.last_field(x) == 'skip' for x in subexprs(off)), 'SkipBuf::parts/offset', 'the offset added is not self.skip', f.where(al))
        # length on that path = size - skip
        okl = False
        for loc, s in f.assigns():
            if s['lhs']['l'] == 0 and not s['lhs']['p'] and f.dominates(al, loc):
                e = ExprBuilder(f, multi='phi').rvalue(s['rv'])
                if e[0] == 'agg' and len(e[3]) == 2:
                    ln = e[3][1]
                    if ln[0] == 'proj' and ln[2] == ('.0',):
                        ln = ln[1]
                    okl = ln[0] == 'bin' and ln[1].startswith('Sub') and fam.last_field(ln[3]) == 'skip'
                    # or the payload of `size.checked_sub(self.skip)`
                    if ln[0] == 'proj' and tuple(ln[2]) == ('@Some', '.0') and ln[1][0] == 'call' and ln[1][1].endswith('checked_sub') and fam.last_field(ln[1][2][1]) == 'skip':
                        okl = True
        r.require(okl, 'SkipBuf::parts/length', 'the remaining length is not size - skip', f.where(al))
    # LimitedBuf::as_iovecs[_mut]: set_len(left) only under len > left
    for trait, meth in (('io::traits::BufSlice', 'as_iovecs'), ('io::traits::BufMutSlice', 'as_iovecs_mut')):
        for i, g in facts.impl_fns(trait, meth):
            if not i['self'].startswith('io::traits::LimitedBuf'):
                continue
            eg = ExprBuilder(g, multi='leaf')
            sl = [(loc, t) for loc, t in g.calls() if (t.get('callee') or '').endswith('::set_len')]
            if not r.require(len(sl) == 1, 'LimitedBuf::%s' % meth, 'set_len call not found', g.where()):
                continue
            loc, t = sl[0]
            ok = False
            # the running remainder of the limit, whatever it is called: initialised from self.limit, decreased per buffer
            RL = counter_local(g, lambda e: fam.last_field(e) == 'limit' or any(fam.last_field(x) == 'limit' for x in subexprs(e)), eg)

            def _is_left(e, RL=RL):
                while e[0] == 'cast':
                    e = e[4]
                return e[0] == 'local' and RL is not None and e[1] == RL
            # `match left.checked_sub(len) { Some(rest) => .., None => set_len(left) }`: the None edge implies len > left
            for si in g.enum_switches('std::option::Option'):
                ce = eg.local(si['place']['l']) if not si['place']['p'] else None
                if ce is not None and ce[0] == 'call' and ce[1].endswith('checked_sub') and _is_left(ce[2][0]) \
                        and any(x[0] == 'call' and x[1].endswith('::len') for x in subexprs(ce[2][1])):
                    ne = g.variant_edge(si, 'None')
                    if ne is not None and g.edge_dominates(ne, loc):
                        ok = True
            for (b, tgt) in c10.controlling_switches(g, loc):
                e = eg.operand(g.term(b)['discr'])
                if e[0] == 'bin' and e[1] in ('Le', 'Gt', 'Lt', 'Ge'):
                    vals = {int(v): tg for v, tg in g.term(b)['targets']}
                    t_true, t_false = vals.get(1, g.term(b)['otherwise']), vals.get(0)
                    la, lb = _is_left(e[2]), _is_left(e[3])
                    # taken edge implies len > left (so left < len: shrinking only)
                    if (e[1] == 'Le' and lb and tgt == t_false) or (e[1] == 'Gt' and lb and tgt == t_true) or \
                       (e[1] == 'Lt' and la and tgt == t_true) or (e[1] == 'Ge' and la and tgt == t_false):
                        ok = True
            arg = eg.operand(t['args'][1])
            # the new length may travel in an Option built in this function (`Some(left)` read back as `x@Some.0`)
            seen_l = set()
            while arg[0] == 'proj' and tuple(arg[2]) == ('@Some', '.0') and arg[1][0] == 'local' and arg[1][1] not in seen_l:
                seen_l.add(arg[1][1])
                somes = [d for d in g.defs.get(arg[1][1], []) if not g.blocks[d[0][0]]['cleanup'] and d[1] == 'assign' and d[2]['k'] == 'agg' and d[2].get('variant') == 'Some']
                rest = [d for d in g.defs.get(arg[1][1], []) if not g.blocks[d[0][0]]['cleanup'] and d not in somes]
                if len(somes) == 1 and all(d[1] == 'assign' and d[2]['k'] == 'agg' and d[2].get('variant') == 'None' for d in rest):
                    arg = eg.operand(somes[0][2]['ops'][0])
                else:
                    break
            # by paths: within one iteration the resize is only reached over an edge that implies len > left
            if not ok:
                nexts0 = [(l2, t2) for l2, t2 in g.calls() if (t2.get('callee') or '') == 'std::iter::Iterator::next']
                gts = []
                for b, blk in enumerate(g.blocks):
                    tt = blk['term']
                    if blk['cleanup'] or tt['k'] != 'switch':
                        continue
                    e = eg.operand(tt['discr'])
                    if e[0] == 'bin' and e[1] in ('Le', 'Gt', 'Lt', 'Ge'):
                        vals = {int(v): tg for v, tg in tt['targets']}
                        t_true, t_false = vals.get(1, tt['otherwise']), vals.get(0)
                        la, lb = _is_left(e[2]), _is_left(e[3])
                        other = e[3] if la else e[2]
                        if (la != lb) and any(x[0] == 'call' and x[1].endswith('::len') for x in subexprs(other)):
                            gt = t_false if (e[1], lb) in (('Le', True), ('Ge', False)) else (t_true if (e[1], lb) in (('Gt', True), ('Lt', False)) else None)
                            if gt is not None and len([p_ for p_ in g.pred[gt] if not g.blocks[p_]['cleanup']]) == 1:
                                gts.append(Loc(gt, 0))
                if gts and nexts0 and all(t2.get('target') is not None for l2, t2 in nexts0):
                    hit = g.forward_paths_hit([Loc(t2['target'], 0) for l2, t2 in nexts0], [loc], blockers=gts + [l2 for l2, t2 in nexts0])
                    ok = hit is None
            # the limit is applied on every path: no return between taking the inner iovecs and the truncation
            # loop, unless that exit is guarded by a comparison with the total length of the inner buffers
            inner = [(l2, t2) for l2, t2 in g.calls() if (t2.get('callee') or '') in ('io::traits::BufSlice::as_iovecs', 'io::traits::BufMutSlice::as_iovecs_mut')]
            nexts = [l2 for l2, t2 in g.calls() if (t2.get('callee') or '') == 'std::iter::Iterator::next']
            if r.require(len(inner) == 1 and nexts, 'LimitedBuf::%s/shape' % meth, 'inner iovecs / truncation loop not found', g.where()):
                il, it = inner[0]
                hit = g.forward_paths_hit([Loc(it['target'], 0)], g.returns(), blockers=nexts)
                if hit is not None:
                    guarded = False
                    for (b, tgt) in c10.controlling_switches(g, hit[0]):
                        de = ExprBuilder(g, multi='phi').operand(g.term(b)['discr'])
                        if any(x[0] == 'call' and x[1] in ('io::traits::BufSlice::total_len', 'io::traits::BufMutSlice::total_spare_capacity') for x in subexprs(de)):
                            guarded = True
                    r.require(guarded, 'LimitedBuf::%s/limit-skipped' % meth, 'a path returns the inner iovecs without applying the limit (the buffers together may exceed it, e.g. two 3 GiB buffers under a 4 GiB limit)', g.where(hit[0]))
                # the running remainder starts at self.limit
                left0 = None
                for l2, s2 in g.assigns():
                    if not s2['lhs']['p'] and RL is not None and s2['lhs']['l'] == RL:
                        if left0 is None or g.dominates(l2, left0[0]):
                            left0 = (l2, ExprBuilder(g, multi='leaf').rvalue(s2['rv']))
                if r.require(left0 is not None, 'LimitedBuf::%s/left' % meth, 'remaining-limit counter not found', g.where()):
                    e0 = left0[1]
                    narrowed = [x for x in subexprs(e0) if (x[0] == 'cast' and x[1] == 'IntToInt' and x[3] in ('u32', 'u16')) or (x[0] == 'call' and x[1].endswith('try_from'))]
                    r.require(fam.last_field(e0) == 'limit' or (any(fam.last_field(x) == 'limit' for x in subexprs(e0)) and not narrowed), 'LimitedBuf::%s/left-init' % meth,
                              'the remaining-limit counter is not initialised with the full self.limit: %s' % (e0,), g.where(left0[0]))
                    # ... and it is the same budget the sibling total (total_len / total_spare_capacity) is clamped to: if one side
                    # works from `limit` and the other from `limit - used`, the kernel is offered more than the wrapper reports
                    sib_name = 'total_len' if meth == 'as_iovecs' else 'total_spare_capacity'
                    sib = [f2 for i2, f2 in facts.impl_fns(trait, sib_name) if i2['self'] == i['self']]
                    if sib:
                        es = ExprBuilder(sib[0], multi='phi')
                        rets_ = [es.call(t2) for l2, t2 in sib[0].calls() if is_local(t2['dest'], 0)] + [es.rvalue(s2['rv']) for l2, s2 in sib[0].assigns() if s2['lhs']['l'] == 0 and not s2['lhs']['p']]

                        def budget(c_, wide=False):
                            terms = list(c_[1:]) if c_[0] == 'MIN' else [c_]
                            out_ = set()
                            for t_ in terms:
                                if t_[0] in ('LEN', 'SPARE'):
                                    continue
                                if wide and t_[0] in ('SAT32', 'SAT32E'):
                                    # total_len() is a usize: a limit saturated to 32 bits is a different (smaller) budget
                                    # than the full limit the iovecs are cut to
                                    out_.add(repr(('SAT32', t_[1])))
                                    continue
                                out_.add(repr(('PLACE', t_[1]) if t_[0] == 'SAT32' else (t_[1] if t_[0] == 'SAT32E' else t_)))
                            return out_
                        b_sib = set()
                        for e_ in rets_:
                            b_sib |= budget(canon(e_), wide=(sib_name == 'total_len'))
                        b_here = budget(canon(ExprBuilder(g, multi='phi').rvalue(g.at(left0[0])['rv'])))
                        r.inst('LimitedBuf::%s budget %s vs %s budget %s' % (meth, sorted(b_here), sib_name, sorted(b_sib)), g.where(left0[0]))
                        r.require(b_here == b_sib, 'LimitedBuf::%s/budget' % meth, 'the iovecs are cut to %s but %s is clamped to %s: the two views of the remaining limit differ (after a partial transfer more is offered to the kernel than the wrapper reports as available)' % (sorted(b_here), sib_name, sorted(b_sib)), g.where(left0[0]))
            # `set_len(min(len, left))`: never longer than the iovec was and never longer than what is left of the limit
            arg_ok = _is_left(arg)
            am = arg
            while am[0] == 'cast':
                am = am[4]
            if am[0] == 'call' and am[1] in ('std::cmp::min', 'std::cmp::Ord::min') and len(am[2]) == 2:
                sides = list(am[2])
                if any(_is_left(x) for x in sides) and any(any(y[0] == 'call' and y[1].endswith('::len') for y in subexprs(x)) for x in sides if not _is_left(x)):
                    ok = True
                    arg_ok = True
            r.inst('LimitedBuf::%s: set_len(%s) guarded: %s' % (meth, arg, ok), g.where(loc))
            r.require(ok, 'LimitedBuf::%s/guard' % meth, 'an iovec is resized without `len > left` dominating it (could grow past the buffer)', g.where(loc))
            r.require(arg_ok, 'LimitedBuf::%s/arg' % meth, 'the iovec is not cut to the remaining limit: %s' % (arg,), g.where(loc))
    # IoSlice::skip call sites: guarded by skip < len (else branch of len <= skip)
    n = 0
    for g, loc, t in facts.callers.get('io::traits::IoSlice::skip', []):
        if t['k'] != 'call' or g.blocks[loc[0]]['cleanup']:
            continue
        n += 1
        eg = ExprBuilder(g, multi='leaf')
        ok = False
        # the amount skipped: the (multi-definition) counter local passed to skip(), whatever its name
        amount = eg.operand(t['args'][1])
        nloc = {(x[0], x[1]) for x in subexprs(amount) if x[0] in ('local', 'arg')}
        for (b, tgt) in c10.controlling_switches(g, loc):
            e = eg.operand(g.term(b)['discr'])
            if e[0] == 'bin' and e[1] in ('Le', 'Gt', 'Lt', 'Ge'):
                vals = {int(v): tg for v, tg in g.term(b)['targets']}
                t_true, t_false = vals.get(1, g.term(b)['otherwise']), vals.get(0)
                sa = any(x[0] in ('local', 'arg') and (x[0], x[1]) in nloc for x in subexprs(e[2]))
                sb = any(x[0] in ('local', 'arg') and (x[0], x[1]) in nloc for x in subexprs(e[3]))
                la = any(x[0] == 'call' and x[1].endswith('IoSlice::len') for x in subexprs(e[2]))
                lb = any(x[0] == 'call' and x[1].endswith('IoSlice::len') for x in subexprs(e[3]))
                if (e[1] == 'Le' and la and sb and tgt == t_false) or (e[1] == 'Gt' and la and sb and tgt == t_true) or \
                   (e[1] == 'Lt' and sa and lb and tgt == t_true) or (e[1] == 'Ge' and sa and lb and tgt == t_false):
                    ok = True
        r.inst('%s: IoSlice::skip guarded by skip < len: %s' % (g.path, ok), g.where(loc))
        r.require(ok, 'IoSlice::skip:%s' % c10.short(g.path), 'iovec.skip(n) is not dominated by an edge implying n < len (pointer past the buffer)', g.where(loc))
    r.require(n >= 2, 'IoSlice::skip/sites', 'expected >= 2 IoSlice::skip call sites, found %d' % n)
    r.floor(5)


def r7_limited_every_path(r, facts):
    """LimitedBuf: every method that exposes a pointer/length pair or a capacity is limited on every return path"""
    METHODS = ('parts', 'parts_mut', 'len', 'spare_capacity', 'total_len', 'total_spare_capacity')
    n = 0
    for trait in ('io::traits::Buf', 'io::traits::BufMut', 'io::traits::BufSlice', 'io::traits::BufMutSlice'):
        for i in facts.impls_of(trait):
            if not i['self'].startswith('io::traits::LimitedBuf'):
                continue
            for it in i['items']:
                if it['name'] not in METHODS:
                    continue
                g = facts.fn_opt(it['path'])
                if g is None:
                    continue
                n += 1
                rets = ret_exprs(g)
                r.inst('%s for %s::%s: %d return expression(s)' % (trait.split('::')[-1], i['self'], it['name'], len(rets)), g.where())
                r.require(bool(rets), 'LimitedBuf::%s/%s' % (it['name'], trait.split('::')[-1]), 'no return expression found (unrecognised form)', g.where())
                for e in rets:
                    alts = e[1] if e[0] == 'phi' else [e]
                    for a in alts:
                        limited = any(fam.last_field(x) == 'limit' for x in subexprs(a))
                        # or computed from another (limited) method of the wrapper itself, e.g. self.parts_mut()
                        own = any(x[0] == 'call' and x[1].split('::')[-1] in METHODS and x[2] and obj(x[2][0]) == 'self' for x in subexprs(a))
                        r.require(limited or own, 'LimitedBuf::%s/%s/unlimited-path' % (it['name'], trait.split('::')[-1]),
                                  'a return path of %s exposes the inner buffer without applying self.limit (%s): the kernel may transfer more bytes than the limit' % (it['name'], str(a)[:160]), g.where())
    r.floor(6, 'LimitedBuf methods')


def r9_iovec_wrappers(r, facts):
    """IoSlice / IoMutSlice (the iovec views every vectored request and every continuation is built from): `len()` is
    `iov_len`, `ptr()` is `iov_base`; `set_len(new_len)` stores `new_len` in `iov_len` on every path; `skip(n)` advances
    `iov_base` by `n` and takes `n` off `iov_len` on every path.  (The composites' bookkeeping — C10.R9 — is phrased in
    terms of these calls; it means nothing if they do something else.)"""
    n_f = 0
    for ty in ('io::traits::IoSlice', 'io::traits::IoMutSlice', 'unix::IoSlice', 'unix::IoMutSlice'):
        for meth in ('len', 'ptr', 'set_len', 'skip'):
            f = facts.fn_opt('%s::%s' % (ty, meth))
            if f is None:
                continue
            n_f += 1
            name = '%s::%s' % ('::'.join(ty.rsplit('::', 2)[-2:]), meth)
            eb = ExprBuilder(f, multi='phi')
            # the platform-independent view only hands the call to the platform's iovec view of the same name (checked below)
            dele = [(loc, t) for loc, t in f.calls() if re.search(r'Io(Mut)?Slice::%s$' % meth, t.get('callee') or '') and (t.get('callee') or '') != f.path
                    and not f.blocks[loc[0]]['cleanup'] and t['args'] and fam.last_field(eb.operand(t['args'][0])) == '0']
            if dele and facts.fn_opt(dele[0][1].get('callee')) is not None:
                if meth in ('len', 'ptr'):
                    ok = all(is_local(t['dest'], 0) or any(x[0] == 'call' and x[1] == t['callee'] for rx in ret_exprs(f) for x in subexprs(rx)) for loc, t in dele)
                else:
                    same = [loc for loc, t in dele if (lambda e: e[0] == 'arg' and e[1] == 2)(eb.operand(t['args'][-1]))]
                    ok = f.forward_paths_hit([Loc(0, 0)], f.returns(), blockers=same) is None
                r.inst('%s delegates to %s' % (name, dele[0][1]['callee']), f.where())
                r.require(ok, 'iovec:%s/delegation' % name, '%s does not hand the call (with the same argument, on every path) to the iovec view it wraps' % meth, f.where())
                continue

            def arg2(e):
                while e[0] == 'cast' or (e[0] == 'call' and e[1].endswith(('cast_signed', 'cast_unsigned')) and len(e[2]) == 1):
                    e = e[4] if e[0] == 'cast' else e[2][0]
                return e[0] == 'arg' and e[1] == 2
            if meth in ('len', 'ptr'):
                want = 'iov_len' if meth == 'len' else 'iov_base'
                rets = ret_exprs(f)
                ok = bool(rets) and all(any(fam.last_field(y) == want for y in subexprs(x)) for x in rets)
                r.inst('%s returns %s' % (name, want), f.where())
                r.require(ok, 'iovec:%s' % name, '%s does not return the %s of the iovec: %s' % (meth, want, [str(x)[:80] for x in rets]), f.where())
                continue
            stores = {}
            for loc, s_ in f.assigns():
                fl = [p_.get('name') for p_ in s_['lhs']['p'] if p_['k'] == 'field']
                if not fl and s_['lhs']['p'] and s_['lhs']['p'][-1]['k'] == 'deref':
                    # a store through a reference to the field (`let iovec { iov_base, iov_len } = &mut self.0; *iov_len -= n`)
                    fl = [fam.last_field(eb.place(s_['lhs']))]
                if fl[-1:] in (['iov_len'], ['iov_base']) and not f.blocks[loc[0]]['cleanup']:
                    stores.setdefault(fl[-1], []).append((loc, eb.rvalue(s_['rv'])))
            if meth == 'set_len':
                good = [loc for loc, e in stores.get('iov_len', []) if arg2(e)]
                r.inst('%s stores new_len at %d site(s)' % (name, len(good)), f.where())
                for loc, e in stores.get('iov_len', []):
                    r.require(arg2(e), 'iovec:%s/value' % name, 'set_len stores %s, not the requested length' % (e,), f.where(loc))
                hit = f.forward_paths_hit([Loc(0, 0)], f.returns(), blockers=good)
                r.require(hit is None, 'iovec:%s/stored' % name, 'a path through set_len leaves iov_len unchanged: a buffer the composites emptied / trimmed is handed to the kernel in full again', f.where())
            else:
                def dec(e):
                    while e[0] == 'cast' or (e[0] == 'proj' and e[2] == ('.0',) and e[1][0] == 'bin'):
                        e = e[4] if e[0] == 'cast' else e[1]
                    return (e[0] == 'bin' and e[1].startswith('Sub') and fam.last_field(e[2]) == 'iov_len' and arg2(e[3])) or \
                           (e[0] == 'call' and e[1].endswith(('wrapping_sub', 'saturating_sub', 'unchecked_sub')) and len(e[2]) == 2 and fam.last_field(e[2][0]) == 'iov_len' and arg2(e[2][1]))

                def adv(e):
                    for x in subexprs(e):
                        if x[0] == 'call' and re.search(r'::(offset|add|byte_add|byte_offset|wrapping_add|wrapping_byte_add)$', x[1]) and len(x[2]) == 2 \
                                and any(fam.last_field(y) == 'iov_base' for y in subexprs(x[2][0])) and arg2(x[2][1]):
                            return True
                    return False
                g_len = [loc for loc, e in stores.get('iov_len', []) if dec(e)]
                g_base = [loc for loc, e in stores.get('iov_base', []) if adv(e)]
                r.inst('%s: iov_base advanced at %d site(s), iov_len decreased at %d site(s)' % (name, len(g_base), len(g_len)), f.where())
                for loc, e in stores.get('iov_len', []):
                    r.require(dec(e), 'iovec:%s/len-value' % name, 'skip stores %s in iov_len, expected iov_len - n' % (str(e)[:120],), f.where(loc))
                for loc, e in stores.get('iov_base', []):
                    r.require(adv(e), 'iovec:%s/base-value' % name, 'skip stores %s in iov_base, expected iov_base advanced by n' % (str(e)[:120],), f.where(loc))
                hit = f.forward_paths_hit([Loc(0, 0)], f.returns(), blockers=g_len)
                r.require(hit is None, 'iovec:%s/len' % name, 'a path through skip does not take n off iov_len: the request runs n bytes past the end of the buffer', f.where())
                hit = f.forward_paths_hit([Loc(0, 0)], f.returns(), blockers=g_base)
                r.require(hit is None, 'iovec:%s/base' % name, 'a path through skip does not advance iov_base: bytes that were already transferred are transferred again', f.where())
    r.require(n_f >= 14, 'iovec/functions', 'expected len/ptr/set_len of IoSlice and IoMutSlice and IoSlice::skip in both layers, found %d' % n_f)
    r.floor(14)



def r10_init_bookkeeping(r, facts):
    """what `set_init(n)` must do where it is not a plain hand-over: `Vec<u8>` grows by exactly n (`set_len(len + n)`), and
    `LimitedBuf` takes n off its limit on every path (a limited buffer filled by several transfers — read_n — never takes
    more than the limit in total)."""
    n_i = 0
    for trait in ('io::traits::BufMut', 'io::traits::BufMutSlice'):
        for i, f in facts.impl_fns(trait, 'set_init'):
            eb = ExprBuilder(f, multi='phi')

            def is_n(e):
                while e[0] == 'cast':
                    e = e[4]
                return e[0] == 'arg' and e[1] == 2
            if i['self'].startswith('std::vec::Vec<u8'):
                n_i += 1
                sl = [(loc, t) for loc, t in f.calls() if (t.get('callee') or '').endswith('Vec::<T, A>::set_len') and not f.blocks[loc[0]]['cleanup']]
                ok = []
                for loc, t in sl:
                    e = eb.operand(t['args'][1])
                    while e[0] == 'cast' or (e[0] == 'proj' and e[2] == ('.0',) and e[1][0] == 'bin'):
                        e = e[4] if e[0] == 'cast' else e[1]
                    grows = (e[0] == 'bin' and e[1].startswith('Add') and ((is_n(e[2]) and str(e[3]).find('::len') >= 0) or (is_n(e[3]) and str(e[2]).find('::len') >= 0))) or \
                            (e[0] == 'call' and e[1].endswith(('wrapping_add', 'saturating_add', 'unchecked_add')) and len(e[2]) == 2 and ((is_n(e[2][0]) and '::len' in str(e[2][1])) or (is_n(e[2][1]) and '::len' in str(e[2][0]))))
                    r.require(grows, 'Vec::set_init/value', 'the vector\'s new length is %s, expected len() + n' % (str(e)[:120],), f.where(loc))
                    if grows:
                        ok.append(loc)
                r.inst('Vec<u8>::set_init: set_len(len + n) at %d site(s)' % len(ok), f.where())
                hit = f.forward_paths_hit([Loc(0, 0)], f.returns(), blockers=ok)
                r.require(hit is None, 'Vec::set_init/grows', 'a path through Vec<u8>::set_init does not grow the vector by n: the bytes the kernel wrote never become part of it', f.where())
            elif i['self'].startswith('io::traits::LimitedBuf'):
                n_i += 1
                ok = []
                for loc, s_ in f.assigns():
                    fl = [p_.get('name') for p_ in s_['lhs']['p'] if p_['k'] == 'field']
                    if fl[-1:] != ['limit'] or f.blocks[loc[0]]['cleanup']:
                        continue
                    e = eb.rvalue(s_['rv'])
                    while e[0] == 'cast' or (e[0] == 'proj' and e[2] == ('.0',) and e[1][0] == 'bin'):
                        e = e[4] if e[0] == 'cast' else e[1]
                    less = (e[0] == 'bin' and e[1].startswith('Sub') and fam.last_field(e[2]) == 'limit' and is_n(e[3])) or \
                           (e[0] == 'call' and e[1].endswith(('saturating_sub', 'wrapping_sub', 'checked_sub')) and len(e[2]) == 2 and fam.last_field(e[2][0]) == 'limit' and is_n(e[2][1]))
                    r.require(less, 'LimitedBuf::set_init/%s/value' % trait.rsplit('::', 1)[1], 'the limit becomes %s, expected limit - n' % (str(e)[:120],), f.where(loc))
                    if less:
                        ok.append(loc)
                r.inst('LimitedBuf::set_init (%s): limit -= n at %d site(s)' % (trait.rsplit('::', 1)[1], len(ok)), f.where())
                hit = f.forward_paths_hit([Loc(0, 0)], f.returns(), blockers=ok)
                r.require(hit is None, 'LimitedBuf::set_init/%s/limit' % trait.rsplit('::', 1)[1], 'a path through LimitedBuf::set_init does not take n off the limit: the next transfer into the same buffer may again take up to the full limit', f.where())
    r.require(n_i >= 3, 'set_init/sites', 'expected set_init of Vec<u8> and of both LimitedBuf impls, found %d' % n_i)
    r.floor(3)



def r11_limit_walk(r, facts):
    """LimitedBuf::as_iovecs[_mut]: the limit is distributed over the iovecs front to back.  The count of bytes still allowed
    is a local initialised from `self.limit`; inside the walk it is decreased by something derived from the element's length
    (`left -= len`, `left.checked_sub(len)`, `left -= min(len, left)`); an element is trimmed to a value derived from the count
    (`set_len(left)`, `set_len(min(len, left))`).  In the plain spelling (`if len <= left { left -= len } else { set_len(left);
    left = 0 }`) the decrement must lie on the "fits" edge and the count must become 0 after the trimmed element.  Without the
    decrement every element may take the full limit: the kernel is allowed limit x N bytes."""
    n_w = 0
    for trait, meth in (('io::traits::BufSlice', 'as_iovecs'), ('io::traits::BufMutSlice', 'as_iovecs_mut')):
        for i, f in facts.impl_fns(trait, meth):
            if not i['self'].startswith('io::traits::LimitedBuf'):
                continue
            n_w += 1
            name = 'LimitedBuf::%s' % meth
            eg = ExprBuilder(f, multi='leaf')
            R = counter_local(f, lambda e: fam.last_field(e) == 'limit', eg)
            if not r.require(R is not None, '%s/walk/counter' % name, 'the count of bytes still allowed (initialised from self.limit, decreased per element, 0 after the trimmed element) was not found', f.where()):
                continue

            def is_r(e):
                while e[0] == 'cast':
                    e = e[4]
                return e[0] == 'local' and e[1] == R
            has_r = lambda e: any(is_r(x) for x in subexprs(e))
            has_len = lambda e: any(x[0] == 'call' and x[1].endswith('Slice::len') for x in subexprs(e))
            trims = [(loc, t) for loc, t in f.calls() if (t.get('callee') or '').endswith('Slice::set_len') and not f.blocks[loc[0]]['cleanup']]
            if not r.require(len(trims) >= 1, '%s/walk/trim' % name, 'no element is ever trimmed (set_len)', f.where()):
                continue
            loc, t = trims[0]
            r.inst('%s: limit walk with count _%d' % (name, R), f.where(loc))
            tv = eg.operand(t['args'][1])
            if not has_r(tv):
                # the count taken out through a reference (`Some(mem::replace(left, 0))` in a helper): the value of the count
                tvp = ExprBuilder(f, multi='phi').operand(t['args'][1])
                if any(x[0] == 'call' and x[1] in ('std::mem::replace', 'std::mem::take') and any(y[0] == 'local' and y[1] == R for y in subexprs(x)) for x in subexprs(tvp)) \
                        or has_r(tvp) or any(fam.last_field(x) == 'limit' for x in subexprs(tvp)):
                    tv = ('local', R, 'taken')
            r.require(has_r(tv), '%s/walk/trim-value' % name, 'the element that does not fit is trimmed to %s, which does not depend on what is left of the limit' % (str(tv)[:120],), f.where(loc))
            fits_e = trim_e = None
            for (b, tgt) in c10.controlling_switches(f, loc):
                e = eg.operand(f.term(b)['discr'])
                if e[0] == 'bin' and e[1] in ('Le', 'Gt', 'Lt', 'Ge') and (is_r(e[2]) != is_r(e[3])) and has_len(e):
                    others = [x for x in set(f.succ[b]) if x != tgt]
                    if len(others) == 1:
                        fits_e, trim_e = (b, others[0]), (b, tgt)
            nexts = [l for l, t2 in f.calls() if (t2.get('callee') or '') == 'std::iter::Iterator::next']
            dec = dec_fits = zero = False
            for l, ee in getattr(f, 'counter_defs', {}).get(R, []):
                while ee[0] == 'cast' or (ee[0] == 'proj' and ee[2] == ('.0',)):
                    ee = ee[4] if ee[0] == 'cast' else ee[1]
                sub = None
                if ee[0] == 'bin' and ee[1].startswith('Sub') and is_r(ee[2]):
                    sub = ee[3]
                elif ee[0] == 'call' and ee[1].endswith(('saturating_sub', 'wrapping_sub')) and len(ee[2]) == 2 and is_r(ee[2][0]):
                    sub = ee[2][1]
                elif ee[0] == 'proj' and '@Some' in ee[2] and ee[1][0] == 'call' and ee[1][1].endswith('checked_sub') and len(ee[1][2]) == 2 and is_r(ee[1][2][0]):
                    sub = ee[1][2][1]
                if sub is not None and has_len(sub) and (not nexts or any(f.dominates(nx, Loc(*l)) for nx in nexts)):
                    dec = True
                    if fits_e is not None and f.edge_dominates(fits_e, Loc(*l)):
                        dec_fits = True
                if ee[0] == 'const' and ee[1] == 0 and trim_e is not None and f.edge_dominates(trim_e, Loc(*l)):
                    zero = True
            r.require(dec, '%s/walk/decrement' % name, 'no element takes its length off the count: every element may take the full limit (the kernel is allowed N times the limit)', f.where(loc))
            if fits_e is not None and dec:
                # the plain spelling: decided per edge
                r.require(dec_fits, '%s/walk/decrement' % name, 'the decrement by the element length is not on the edge on which the element fits', f.where(f.term_loc(fits_e[0])))
                ends = t.get('target') is not None and f.forward_paths_hit([Loc(t['target'], 0)], nexts) is None
                r.require(zero or ends, '%s/walk/rest' % name, 'after the trimmed element the count is not set to 0 (and the walk goes on): later elements are allowed the same remainder again', f.where(loc))
    r.require(n_w >= 2, 'limit-walk/sites', 'expected LimitedBuf::as_iovecs and as_iovecs_mut, found %d' % n_w)
    r.floor(2)


def r12_boolean_summaries(r, facts):
    """the yes/no accessors agree with the lengths they summarise (operations consult them to decide whether to submit at
    all): Vec<u8>::has_spare_capacity is `capacity > len` where spare_capacity is `capacity - len`; for LimitedBuf,
    has_spare_capacity is false when the limit is 0 and the inner buffer's answer otherwise, is_empty is true when the
    limit is 0 and the inner buffer's answer otherwise — decided on the definitions of the return value and the edge of
    the limit test each lies on (so `&&`/`||`, `if`, `match` spellings are one form)."""
    n = 0
    # Vec<u8>
    for i, f in facts.impl_fns('io::traits::BufMut', 'has_spare_capacity'):
        if not i['self'].startswith('std::vec::Vec<u8'):
            continue
        n += 1
        rets = ret_exprs(f)
        ok = False
        for e in rets:
            flip = False
            while e[0] == 'un' and e[1] == 'Not':
                e, flip = e[2], not flip
            if e[0] == 'bin' and e[1] in ('Gt', 'Lt', 'Ne', 'Le', 'Ge', 'Eq'):
                a, b = str(e[2]), str(e[3])
                cap_left = 'capacity' in a and '::len' in b
                cap_right = 'capacity' in b and '::len' in a
                op = e[1]
                if cap_right:
                    op = {'Gt': 'Lt', 'Lt': 'Gt', 'Le': 'Ge', 'Ge': 'Le', 'Ne': 'Ne', 'Eq': 'Eq'}[op]
                if cap_left or cap_right:
                    truth = op in ('Gt', 'Ne')          # capacity > len  (capacity >= len always holds)
                    falsity = op in ('Le', 'Eq')
                    ok = (truth and not flip) or (falsity and flip)
            elif e[0] == 'bin' and e[1] in ('Ne', 'Gt') and any(x[0] == 'call' and x[1].endswith('spare_capacity') for x in subexprs(e)):
                ok = not flip
        r.inst('Vec<u8>::has_spare_capacity = %s' % ([str(x)[:80] for x in rets],), f.where())
        r.require(ok, 'summary:Vec::has_spare_capacity', 'Vec<u8>::has_spare_capacity is not `capacity() > len()` (true with no room left: a read with a zero-length buffer is submitted and taken for the end of the stream; or false with room)', f.where())
    # LimitedBuf
    for trait, meth, at_zero, inner in (('io::traits::BufMut', 'has_spare_capacity', 0, 'has_spare_capacity'), ('io::traits::BufMutSlice', 'has_spare_capacity', 0, 'has_spare_capacity'),
                                         ('io::traits::Buf', 'is_empty', 1, 'is_empty'), ('io::traits::BufSlice', 'is_empty', 1, 'is_empty')):
        for i, f in facts.impl_fns(trait, meth):
            if not i['self'].startswith('io::traits::LimitedBuf'):
                continue
            n += 1
            name = 'LimitedBuf::%s (%s)' % (meth, trait.rsplit('::', 1)[1])
            eb = ExprBuilder(f, multi='phi')
            zero_e = nz_e = None
            for b, blk in enumerate(f.blocks):
                t = blk['term']
                if blk['cleanup'] or t['k'] != 'switch':
                    continue
                e = eb.operand(t['discr'])
                vals = {int(v): tg for v, tg in t['targets']}
                if e[0] == 'bin' and e[1] in ('Eq', 'Ne', 'Gt') and any(fam.last_field(y) == 'limit' for y in (e[2], e[3])) and any(y[0] == 'const' and y[1] == 0 for y in (e[2], e[3])):
                    t_true, t_false = vals.get(1, t['otherwise']), vals.get(0)
                    zero_e, nz_e = ((b, t_true), (b, t_false)) if e[1] == 'Eq' else ((b, t_false), (b, t_true))
                elif 'l' in t['discr'] and fam.last_field(e) == 'limit' and 0 in vals:
                    zero_e, nz_e = (b, vals[0]), (b, t['otherwise'])
            if not r.require(zero_e is not None and None not in zero_e and None not in nz_e, 'summary:%s/test' % name, 'the test of the limit against 0 was not found (unrecognised form)', f.where()):
                continue
            bad = []
            defs = [(loc, ('const', eb.rvalue(s_['rv']))) for loc, s_ in f.assigns() if s_['lhs']['l'] == 0 and not s_['lhs']['p'] and not f.blocks[loc[0]]['cleanup']] + \
                   [(loc, ('call', t.get('callee') or '')) for loc, t in f.calls() if is_local(t['dest'], 0) and not f.blocks[loc[0]]['cleanup']]
            for loc, (kind, v) in defs:
                if kind == 'call':
                    if not (v.endswith('::' + inner) and f.edge_dominates(nz_e, loc)):
                        bad.append('%s on the %s edge' % (v.rsplit('::', 1)[-1], 'limit == 0' if f.edge_dominates(zero_e, loc) else 'unguarded'))
                else:
                    e = v
                    if e[0] == 'const' and e[1] in (0, 1, True, False):
                        if int(e[1]) != at_zero or not f.edge_dominates(zero_e, loc):
                            bad.append('constant %s %s' % (bool(e[1]), 'with limit == 0' if f.edge_dominates(zero_e, loc) else 'with limit != 0' if f.edge_dominates(nz_e, loc) else 'unguarded'))
                    elif e[0] == 'call' and e[1].endswith('::' + inner):
                        if not f.edge_dominates(nz_e, loc):
                            bad.append('inner answer used with limit == 0')
                    elif e[0] == 'phi' or e[0] == 'local':
                        continue        # a join of the alternatives judged above
                    else:
                        bad.append('unrecognised: %s' % str(e)[:60])
            r.inst('%s: %s when the limit is 0, the inner buffer\'s answer otherwise: %s' % (name, bool(at_zero), not bad), f.where())
            r.require(not bad and len(defs) >= 2, 'summary:%s' % name, '%s does not answer %s for a limit of 0 and with the inner buffer\'s %s() otherwise (%s): operations are submitted with nothing to transfer, or not submitted although there is room/data' % (name, bool(at_zero), inner, '; '.join(bad) or 'alternatives not found'), f.where())
    r.require(n >= 4, 'summary/sites', 'expected the boolean summaries of Vec<u8> and LimitedBuf (>= 4), found %d' % n)
    r.floor(4)



def check(ctx):
    ctx.run('C14.R1', 'LimitedBuf.limit is never narrowed with a truncating cast', r1_limit_casts)
    ctx.run('C14.R2', 'tuples/arrays: element order and coverage in as_iovecs[_mut], set_init shape, totals', r2_order_coverage)
    ctx.run('C14.R3', 'sibling agreement: spare_capacity == parts_mut.1, len == parts.1 (canonical forms)', r3_sibling_agreement)
    ctx.run('C14.R4', 'guard dominance at raw pointer arithmetic (SkipBuf, LimitedBuf iovecs, IoSlice::skip)', r4_guards)
    ctx.run('C14.R5', 'PROV: buffer impls never return pointers into the buffer value itself', addr.prov_rule)
    ctx.run('C14.R7', 'LimitedBuf: pointer/length/capacity methods (incl. the doc-hidden parts hook) apply the limit on every return path', r7_limited_every_path)
    ctx.run('C14.R6', 'BufMut wrappers forward buffer_init iff parts', c10.r6_forwarding)
    ctx.run('C14.R9', 'iovec views: len/ptr read, set_len stores, skip advances the base and shortens the length, on every path', r9_iovec_wrappers)
    ctx.run('C14.R10', 'set_init bookkeeping: Vec<u8> grows by n, LimitedBuf takes n off its limit, on every path', r10_init_bookkeeping)
    ctx.run('C14.R11', 'LimitedBuf iovecs: the limit is distributed front to back (fits: count -= len; else trim to count, count = 0)', r11_limit_walk)
    ctx.run('C14.R12', 'boolean summaries agree with the lengths: Vec<u8>::has_spare_capacity, LimitedBuf::has_spare_capacity / is_empty', r12_boolean_summaries)
    ctx.run('C14.R8', 'buffer wrappers pass set_init/buffer_init on to the inner buffer with the same count on every path (=C10.R10)', c10.r10_wrapper_hooks)
