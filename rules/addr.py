"""ADDR (what addresses a submission may carry) and PROV (buffers do not point
into themselves) — DESIGN §2."""
import re

from .kernel import (AnchorMissing, ExprBuilder, Loc, access_path, proj_ty, subexprs, callee_name)
from . import sqe

OP_TRAITS = {
    'io_uring::op::Op': {'resources': 1, 'args': 2, 'submission': 3},
    'io_uring::op::FdOp': {'fd': 1, 'resources': 2, 'args': 3, 'submission': 4},
    'io_uring::op::FdIter': {'fd': 1, 'resources': 2, 'args': 3, 'submission': 4},
}

PTR2INT_CALLS = re.compile(r'::(addr|expose_provenance|expose_addr)$')


def fill_impls(facts):
    out = []
    for tr, roles in OP_TRAITS.items():
        for i, f in facts.impl_fns(tr, 'fill_submission'):
            out.append((tr, i, f, roles))
    return out


def has_ptr2int(e):
    for x in subexprs(e):
        if x[0] == 'cast' and x[1] in ('PointerExposeProvenance',):
            return True
        if x[0] == 'cast' and x[1] == 'Transmute' and ('*' in x[2] or x[2].startswith('&')) and not ('*' in x[3] or x[3].startswith('&')):
            return True
        if x[0] == 'call' and PTR2INT_CALLS.search(x[1]):
            return True
        if x[0] == 'cast' and x[1] == 'IntToInt' and False:
            return True
    return False


def stack_refs(f, e):
    """sub-expressions that take the address of function-local storage:
    ('ref', X) where X is not reached through a dereference of a parameter /
    upvar / loaded pointer."""
    out = []
    for x in subexprs(e):
        if x[0] != 'ref':
            continue
        inner = x[1]
        base = inner
        derefd = False
        while base[0] == 'proj':
            if '*' in base[2]:
                derefd = True
            base = base[1]
        if derefd:
            continue
        # taking the address of: a local, a temporary (call result / aggregate / const), or the parameter slot itself
        if base[0] in ('local', 'call', 'agg', 'arg', 'repeat', 'const'):
            if base[0] == 'const':
                continue  # promoted constants are 'static
            out.append(x)
    return out


def role_of(f, roles, root):
    """root is ('param', name, path): returns role name"""
    for role, idx in roles.items():
        if root[1] == f.local_name(idx) or root[1] == 'arg%d' % idx or root[1] == '_%d' % idx:
            return role
    return None


def addr_rule(r, facts):
    impls = fill_impls(facts)
    seen = set()
    n = 0
    for tr, i, f, roles in impls:
        name = i['self']
        key = '%s:%s' % (tr.rsplit('::', 1)[1], name)
        if key in seen:
            continue
        seen.add(key)
        try:
            ws = sqe.collect_writes(f, facts, sub_param=roles['submission'])
        except AnchorMissing as e:
            r.bad(key, 'cannot build the SQE flow map: %s' % e, f.where())
            continue
        nptr = 0
        for w in ws:
            if w.off < 0:
                continue
            if not has_ptr2int(w.expr):
                continue
            nptr += 1
            for sr in stack_refs(f, w.expr):
                if _null_only_exception(f, facts, w.expr, sr, r):
                    continue
                r.bad(key + '/stack', 'an address of function-local storage reaches SQE position %d (%s): %s — the kernel would use it after the frame is gone' % (w.off, sqe.POS_NAMES.get(w.off), sr), w.where)
            for rt in w.roots:
                if rt[0] == 'param':
                    role = role_of(f, roles, rt)
                    if role in ('resources', 'args'):
                        continue
                    r.bad(key + '/borrowed', 'an address derived from the `%s` parameter (%s) reaches SQE position %d (%s); only resources/args live until the final completion' % (role or rt[1], rt[1], w.off, sqe.POS_NAMES.get(w.off)), w.where)
                elif rt[0] == 'local':
                    r.bad(key + '/unresolved', 'an address of unresolved origin (local %s) reaches SQE position %d' % (rt[1], w.off), w.where)
        r.inst('%s (%d address-bearing writes)' % (key, nptr), f.where())
        n += 1
    # helpers that store pointers into structures the kernel follows (msghdr)
    for path in ('unix::MsgHeader::init_recv', 'unix::MsgHeader::init_send'):
        g = facts.fn(path)
        eb = ExprBuilder(g, multi='phi')
        cnt = 0
        for loc, s in g.assigns():
            lhs = s['lhs']
            if not lhs['p'] or not (lhs['ty'].startswith('*mut') or lhs['ty'].startswith('*const')):
                continue
            base = eb.local(lhs['l'])
            ap = access_path(eb.place(lhs))
            if ap is None or ap[0][0] != 'arg' or ap[0][1] != 1:
                continue
            e = eb.rvalue(s['rv'])
            cnt += 1
            for sr in stack_refs(g, e):
                r.bad('%s/stack' % path, 'a pointer to function-local storage is stored in the message header: %s' % (sr,), g.where(loc))
            roots = sqe.roots_of(g, e)
            for rt in roots:
                if rt[0] == 'local':
                    r.bad('%s/unresolved' % path, 'pointer of unresolved origin stored in the message header', g.where(loc))
        r.inst('%s (%d pointer fields)' % (path, cnt), g.where())
        r.require(cnt >= 2, path, 'expected the header initialiser to store name and iovec pointers, found %d pointer stores' % cnt, g.where())
    r.floor(38, 'fill_submission impls')


def _null_only_exception(f, facts, expr, sr, r):
    """RecvVectoredOp passes a temporary MaybeUninit<NoAddress>: fine only if
    NoAddress::as_mut_ptr ignores its argument and returns null."""
    inner = sr[1]
    txt = str(inner)
    if 'MaybeUninit' not in txt or 'NoAddress' not in str(expr):
        # look at the type via the call name
        pass
    if inner[0] == 'call' and inner[1].startswith('std::mem::MaybeUninit::<T>::new') and inner[2] and 'NoAddress' in str(inner[2][0]):
        g = facts.fn_opt('<net::NoAddress as net::SocketAddress>::as_mut_ptr')
        if g is None:
            return False
        eb = ExprBuilder(g, multi='phi')
        ok = True
        for loc, s in g.assigns():
            if s['lhs']['l'] == 0 and not s['lhs']['p']:
                e = eb.rvalue(s['rv'])
                comp0 = e[3][0] if e[0] == 'agg' and e[3] else e
                roots = sqe.roots_of(g, comp0)
                if any(rt[0] in ('param', 'local') for rt in roots):
                    ok = False
                if not any(x[0] == 'call' and x[1] in ('std::ptr::null_mut', 'std::ptr::null') for x in subexprs(comp0)):
                    ok = False
        if ok:
            r.exception('net::NoAddress', 'temporary MaybeUninit<NoAddress> is passed to init_recv; allowed because <NoAddress as SocketAddress>::as_mut_ptr returns null and never uses its argument (checked)')
        return ok
    return False


# ---------------------------------------------------------------------------
# PROV
# ---------------------------------------------------------------------------

PASS_THROUGH = re.compile(
    r'^(core::slice::<impl \[T\]>::(as_ptr|as_mut_ptr)|core::str::<impl str>::(as_bytes|as_ptr)|'
    r'std::ptr::(const_ptr|mut_ptr)::<impl \*(const|mut) T>::(add|cast|cast_mut|cast_const|offset|byte_add)|'
    r'std::ptr::NonNull::<T>::(as_ptr|as_ref|as_mut|add|cast)|std::ptr::NonNull::<\[T\]>::(as_mut_ptr|as_non_null_ptr|cast|as_ref|as_mut)|'
    r'std::slice::from_raw_parts|std::slice::from_raw_parts_mut)$')
HEAP_ACCESSORS = re.compile(
    r'^(std::vec::Vec::<T, A>::(as_slice|as_mut_slice|as_ptr|as_mut_ptr|spare_capacity_mut)|'
    r'std::string::String::(as_bytes|as_str|as_ptr)|std::ffi::CStr::as_ptr|std::ffi::CString::as_ptr)$')
HEAP_DEREF_IMPLS = re.compile(
    r'^<(std::sync::Arc<|std::boxed::Box<|std::vec::Vec<|std::string::String|std::borrow::Cow<|std::rc::Rc<).* as std::ops::Deref(Mut)?>::deref(_mut)?$')
DELEGATES = ('io::traits::Buf::parts', 'io::traits::BufMut::parts_mut', 'io::traits::BufSlice::as_iovecs',
             'io::traits::BufMutSlice::as_iovecs_mut', 'io::traits::IoSlice::new', 'io::traits::IoMutSlice::new',
             'unix::IoSlice::new', 'unix::IoMutSlice::new')


def is_pointer_ty(ty):
    if ty is None:
        return False
    t = ty.strip()
    if t.startswith('std::option::Option<'):
        t = t[len('std::option::Option<'):]
    return t.startswith('&') or t.startswith('*const') or t.startswith('*mut') or t.startswith('std::ptr::NonNull<') \
        or t.startswith('std::boxed::Box<') or t.startswith('std::ptr::Unique<')


def prov_classify(f, facts, e, depth=0):
    """classify pointer expression: 'heap' | 'delegate' | 'null' | ('self', why) | ('unknown', why)"""
    if depth > 12:
        return ('unknown', 'too deep')
    k = e[0]
    if k == 'cast':
        return prov_classify(f, facts, e[4], depth + 1)
    if k == 'phi':
        res = [prov_classify(f, facts, a, depth + 1) for a in e[1]]
        for x in res:
            if isinstance(x, tuple):
                return x
        return res[0] if res else ('unknown', 'empty phi')
    if k == 'call':
        name = e[1]
        resolved = e[3] if len(e) > 3 else None
        if name in ('std::ptr::null', 'std::ptr::null_mut'):
            return 'null'
        if name in DELEGATES:
            # delegation to an inner buffer: the receiver must be (a field of) self, any depth
            return 'delegate'
        if PASS_THROUGH.match(name):
            a0 = e[2][0]
            # methods taking `&self` on a pointer value (NonNull::as_ref(&ptr)): the pointee is what the pointer *value* names
            if a0[0] == 'ref' and name.startswith('std::ptr::NonNull::'):
                a0 = a0[1]
            return prov_classify(f, facts, a0, depth + 1)
        if HEAP_ACCESSORS.match(name):
            return 'heap'
        if name in ('std::ops::Deref::deref', 'std::ops::DerefMut::deref_mut'):
            if resolved and HEAP_DEREF_IMPLS.match(resolved):
                return 'heap'
            g = facts.fn_opt(resolved) if resolved else None
            if g is not None and depth < 6:
                return prov_return(g, facts, depth + 1)
            return ('unknown', 'deref through %s' % resolved)
        if HEAP_DEREF_IMPLS.match(name):
            return 'heap'
        if name in ('std::option::Option::<T>::map_or', 'std::option::Option::<T>::map', 'std::option::Option::<T>::unwrap_or'):
            # Option<NonNull<..>> loaded from self, mapped by a closure over the pointer; default must be static/null
            a = prov_classify(f, facts, e[2][0], depth + 1)
            if isinstance(a, tuple):
                return a
            if len(e[2]) > 1 and name != 'std::option::Option::<T>::map':
                d = e[2][1]
                if d[0] not in ('const',) and not (d[0] == 'call' and d[1] in ('std::ptr::null', 'std::ptr::null_mut')):
                    dd = prov_classify(f, facts, d, depth + 1)
                    if isinstance(dd, tuple):
                        return dd
            return a
        g = facts.fn_opt(name)
        if g is not None and depth < 6:
            # crate-local accessor (e.g. ReadBuf::as_slice): classify its return value with self bound to caller's self
            return prov_return(g, facts, depth + 1)
        return ('unknown', 'call %s' % name)
    if k == 'proj':
        # a value loaded from (a field of) self that is itself a pointer => one indirection beyond self
        ty = proj_ty(e)
        base = e[1]
        if base[0] == 'call':
            return prov_classify(f, facts, base, depth + 1)
        if is_pointer_ty(ty):
            return 'heap'
        if base[0] == 'proj':
            return prov_classify(f, facts, base, depth + 1)
        return ('self', 'field %s of type %s read in place' % (''.join(e[2]), ty))
    if k == 'ref':
        inner = e[1]
        # address of a field of self without an intermediate pointer load
        base = inner
        loads = False
        while base[0] == 'proj':
            base = base[1]
        if inner[0] == 'proj':
            # &(*self).field : points into self unless some projected prefix is pointer-typed (cannot see prefixes: conservative)
            return ('self', 'address of %s taken' % (inner,))
        if inner[0] == 'call':
            return prov_classify(f, facts, inner, depth + 1)
        return ('self', 'address of %s taken' % (inner,))
    if k == 'arg':
        ty = f.local_ty(e[1])
        # `self` itself is a reference to the buffer value; using it as the data pointer means pointing at self
        inner_ty = ty[1:].lstrip() if ty.startswith('&') else ty
        if inner_ty.startswith('mut '):
            inner_ty = inner_ty[4:]
        if inner_ty.startswith("'"):
            inner_ty = inner_ty.split(' ', 1)[1] if ' ' in inner_ty else inner_ty
        return ('self', 'self used as the data pointer')
    if k == 'const':
        return 'heap'  # 'static data
    return ('unknown', 'expression %s' % (e,))


def prov_return(f, facts, depth=0):
    eb = ExprBuilder(f, multi='phi', transparent=False)
    res = []
    for loc, s in f.assigns():
        if s['lhs']['l'] == 0 and not s['lhs']['p']:
            e = eb.rvalue(s['rv'])
            res.append(e)
    for loc, t in f.calls():
        if not t['dest']['p'] and t['dest']['l'] == 0:
            res.append(eb.call(t))
    out = []
    for e in res:
        out.append(_prov_of_value(f, facts, e, depth))
    for x in out:
        if isinstance(x, tuple):
            return x
    return out[0] if out else ('unknown', 'no return value found')


def _prov_of_value(f, facts, e, depth):
    # (ptr, len) tuple
    if e[0] == 'agg' and e[1] == 'tuple' and e[3]:
        return prov_classify(f, facts, e[3][0], depth)
    if e[0] == 'agg' and e[1] == 'array':
        rs = [prov_classify(f, facts, a, depth) for a in e[3]]
        for x in rs:
            if isinstance(x, tuple):
                return x
        return rs[0] if rs else 'heap'
    if e[0] == 'agg' and e[1].endswith('Option::Some') and e[3]:
        return prov_classify(f, facts, e[3][0], depth)
    return prov_classify(f, facts, e, depth)


PROV_METHODS = [('io::traits::Buf', 'parts'), ('io::traits::BufMut', 'parts_mut'),
                ('io::traits::BufSlice', 'as_iovecs'), ('io::traits::BufMutSlice', 'as_iovecs_mut')]


def prov_rule(r, facts):
    for tr, m in PROV_METHODS:
        for i, f in facts.impl_fns(tr, m):
            key = '%s::%s for %s' % (tr.rsplit('::', 1)[1], m, i['self'])
            if i['self'].startswith('[B; N]'):
                res = _array_iovecs(f, facts)
            else:
                res = prov_return(f, facts)
            r.inst(key, f.where(), str(res))
            if isinstance(res, tuple):
                if res[0] == 'self':
                    r.bad(key, 'the returned pointer points into the buffer value itself (%s): it dangles once the value is moved into the operation state' % res[1], f.where())
                else:
                    r.bad(key, 'cannot establish where the returned pointer points (%s): unrecognised form' % res[1], f.where())
    # IoSlice::new / IoMutSlice::new delegate to the element's parts
    for name, want in (('io::traits::IoSlice::new', 'io::traits::Buf::parts'), ('io::traits::IoMutSlice::new', 'io::traits::BufMut::parts_mut')):
        g = facts.fn_opt(name) or facts.fn_opt(name.replace('io::traits::', 'unix::'))
        if r.require(g is not None, name, '%s not found' % name):
            ok = any((t.get('callee') or '') == want for loc, t in g.calls())
            if not ok:
                for loc, t in g.calls():
                    h = facts.fn_opt(t.get('callee') or '')
                    if h is not None and h.path.endswith(name.rsplit('::', 2)[1] + '::new'):
                        ok = any((t2.get('callee') or '') == want for l2, t2 in h.calls())
            r.inst(name, g.where(), 'delegates to %s' % want)
            r.require(ok, name, '%s does not take the pointer from %s' % (name, want), g.where())
    r.floor(30, 'buffer trait impls')


def _array_iovecs(f, facts):
    """[B; N]: the loop writes IoSlice::new(&self[i]) into the result"""
    ok = False
    for loc, t in f.calls():
        n = t.get('callee') or ''
        if n in DELEGATES:
            ok = True
    # or inside the closure of `self.each_ref().map(|buf| IoSlice::new(buf))` / an iterator adaptor
    for loc, s_ in f.assigns():
        rv = s_['rv']
        if rv['k'] == 'agg' and rv.get('ak') == 'closure':
            g = facts.fn_opt(rv['closure'])
            if g is not None and any((t.get('callee') or '') in DELEGATES for l2, t in g.calls()):
                ok = True
    return 'delegate' if ok else ('unknown', 'array impl does not build elements via IoSlice::new')
