"""SQE flow maps: which roots/constants reach which byte range of the 64-byte
io_uring_sqe in a fill_submission-shaped function (DESIGN §1.5: sinks are ABI
positions, not field names)."""
from .kernel import (AnchorMissing, ExprBuilder, Loc, access_path, const_val, subexprs,
                     callee_name, proj_str)

SQE = 'io_uring::libc::io_uring_sqe'
SUBMISSION_TY = '&mut io_uring::sq::Submission'
SQE_PTR_TYS = ('&mut io_uring::libc::io_uring_sqe',)

POS_NAMES = {0: 'opcode', 1: 'flags', 2: 'ioprio', 4: 'fd', 8: 'off/addr2', 16: 'addr/splice_off_in', 20: 'optname',
             24: 'len', 28: 'op_flags', 32: 'user_data', 40: 'buf_group', 42: 'personality', 44: 'file_index/splice_fd_in/optlen',
             48: 'addr3/optval', 56: 'attr_type_mask'}


def _adt(facts, path):
    a = facts.adts.get(path) or facts.foreign_adts.get(path)
    if a is None or 'offsets' not in a:
        raise AnchorMissing('no layout for %s' % path)
    return a


def field_range(facts, projs):
    """projs: list of projection dicts *after* reaching the io_uring_sqe value.
    returns (offset, width)"""
    off = 0
    width = 64
    for p in projs:
        if p['k'] == 'field':
            adt = p.get('adt')
            if adt is None or adt.startswith('{'):
                raise AnchorMissing('field projection without ADT in SQE place')
            if adt.startswith('std::mem::ManuallyDrop'):
                continue
            a = _adt(facts, adt)
            off += a['offsets'][p['i']]
            width = a['field_sizes'][p['i']]
        elif p['k'] in ('deref', 'downcast'):
            continue
        else:
            raise AnchorMissing('unsupported projection %s in SQE place' % p['k'])
    return off, width


def submission_param(f):
    """local index of the `&mut Submission` parameter"""
    for i in range(1, f.nargs + 1):
        if f.local_ty(i) in (SUBMISSION_TY,) or f.local_ty(i).replace("'_ ", '') == SUBMISSION_TY:
            return i
    # closures: args are (env, submission)
    for i in range(1, f.nargs + 1):
        if 'io_uring::sq::Submission' in f.local_ty(i) and f.local_ty(i).startswith('&'):
            return i
    return None


def upvar_names(f):
    out = {}
    for d in f.debug:
        v = d['val']
        if 'l' in v and v['l'] == 1 and v['p']:
            fl = [p for p in v['p'] if p['k'] == 'field']
            if fl:
                out[fl[0]['i']] = d['name']
    return out


def roots_of(f, e, upv=None):
    """set of root descriptors of an expression"""
    upv = upv if upv is not None else (upvar_names(f) if f.kind == 'closure' else {})
    out = set()

    def rec(x):
        k = x[0]
        if k == 'const':
            out.add(('const', x[1], x[2]))
        elif k in ('arg', 'local', 'proj', 'ref'):
            ap = access_path(x)
            base, path = ap
            if base[0] == 'arg':
                if f.kind == 'closure' and base[1] == 1:
                    first = path.split('.')[0] if path else ''
                    name = upv.get(int(first), first) if first.isdigit() else first
                    rest = '.'.join(path.split('.')[1:])
                    out.add(('upvar', name, rest))
                else:
                    out.add(('param', base[2] or ('arg%d' % base[1]), path))
            elif base[0] == 'local':
                out.add(('local', base[2] or base[1], path))
            else:
                rec(base)
        elif k == 'call':
            out.add(('call', x[1], x[3] if len(x) > 3 else None))
            for a in x[2]:
                rec(a)
            # small crate-local pure helpers (Kind::cloexec_flag, ...): their constant results are part of the value
            for c in _callee_consts(f, x, 0):
                out.add(c)
        elif k in ('bin',):
            rec(x[2]); rec(x[3])
        elif k == 'un':
            rec(x[2])
        elif k == 'cast':
            if x[1] == 'PointerExposeProvenance':
                out.add(('expose', None, None))
            rec(x[4])
        elif k == 'agg':
            for a in x[3]:
                rec(a)
        elif k == 'phi':
            for a in x[1]:
                rec(a)
        elif k == 'discr':
            rec(x[1])
        elif k == 'repeat':
            rec(x[1])
        else:
            out.add(('unknown', str(x[1:]), None))
    rec(e)
    return out


_CALLEE_MEMO = {}


def _callee_consts(f, callx, depth):
    """named/literal constants a small crate-local callee can return (one level of calls deep)"""
    facts = getattr(f, 'facts', None)
    if facts is None or depth > 1:
        return set()
    name = callx[3] if len(callx) > 3 and callx[3] else callx[1]
    g = facts.fn_opt(name) or facts.fn_opt(callx[1])
    if g is None or g is f or len(g.blocks) > 12:
        return set()
    if g.path == 'fd::AsyncFd::fd':
        return set()  # the descriptor accessor: its bit-31 mask is checked by C07.R5, the value is labelled `fd`
    if g.path in _CALLEE_MEMO and _CALLEE_MEMO[g.path][0] is facts:
        return _CALLEE_MEMO[g.path][1]
    _CALLEE_MEMO[g.path] = (facts, set())
    eb = ExprBuilder(g, multi='phi')
    out = set()
    rets = []
    for loc, s in g.assigns():
        if s['lhs']['l'] == 0 and not s['lhs']['p']:
            rets.append(eb.rvalue(s['rv']))
    for loc, t in g.calls():
        if not t['dest']['p'] and t['dest']['l'] == 0:
            rets.append(eb.call(t))
    for e in rets:
        for x in subexprs(e):
            if x[0] == 'const' and (x[1] is not None) and x[3] not in ('bool',) and x[2] is not None:
                out.add(('const', x[1], x[2]))
    _CALLEE_MEMO[g.path] = (facts, out)
    return out


def dominating_variants(f, loc):
    """(adt, variant) of enum-switch edges that dominate loc"""
    out = []
    for si in f.enum_switches():
        if f.blocks[si['bb']]['cleanup']:
            continue
        names = list(si['variants'].keys()) + list(si.get('otherwise_variants', []))
        for v in names:
            e = f.variant_edge(si, v)
            if e is None:
                continue
            # edges sharing a target with another variant do not identify the variant
            same = [v2 for v2 in names if v2 != v and f.variant_edge(si, v2) and f.variant_edge(si, v2)[1] == e[1]]
            if same:
                continue
            if loc[0] != si['bb'] and f.edge_dominates(e, loc) and loc[0] in f.reachable_blocks(0):
                out.append((si.get('adt'), v))
    return out


class Write:
    def __init__(self, off, width, expr, roots, loc, where, or_const=None, conds=(), via=None, bool_conds=()):
        self.off = off
        self.width = width
        self.expr = expr
        self.roots = roots
        self.loc = loc
        self.where = where
        self.or_const = or_const
        self.conds = tuple(conds)
        self.via = via

    def __repr__(self):
        return 'W(@%d/%d %s%s%s)' % (self.off, self.width, '|= ' if self.or_const is not None else '',
                                     sorted(_short(r) for r in self.roots), (' if ' + str(self.conds)) if self.conds else '')


def _short(r):
    if r[0] == 'const':
        return 'const:%s' % (r[2] if r[2] else r[1])
    if r[0] in ('param', 'upvar', 'local'):
        return '%s:%s%s' % (r[0], r[1], ('.' + r[2]) if r[2] else '')
    if r[0] == 'call':
        return 'call:%s' % r[1]
    return r[0]


def _is_submission_expr(e, sub_local, f):
    """expression denotes (a reborrow of) the submission parameter"""
    while e[0] in ('ref',):
        e = e[1]
    # (a reborrow of) the submission, or of its only field, the io_uring_sqe (`let sqe = &mut submission.0`)
    if e[0] == 'proj' and all(p in ('*', '.0') for p in e[2]):
        e = e[1]
    while e[0] in ('ref',):
        e = e[1]
    return e[0] == 'arg' and e[1] == sub_local


def collect_writes(f, facts, sub_param=None, depth=0, _memo=None):
    """list of Write for all writes through the submission parameter,
    following calls that receive the submission (one summary per callee)."""
    _memo = _memo if _memo is not None else {}
    sub = sub_param if sub_param is not None else submission_param(f)
    if sub is None:
        raise AnchorMissing('no &mut Submission parameter in %s' % f.path)
    eb = ExprBuilder(f, multi='phi')
    upv = upvar_names(f) if f.kind == 'closure' else {}
    out = []
    for loc, s in f.assigns():
        lhs = s['lhs']
        if not lhs['p']:
            continue
        base = eb.local(lhs['l'])
        # split projections at the io_uring_sqe value
        ps = lhs['p']
        idx = None
        for i, p in enumerate(ps):
            if p['k'] == 'field' and p.get('adt') == 'io_uring::sq::Submission':
                idx = i
                break
        if idx is None:
            # direct `&mut io_uring_sqe` (helpers taking the raw sqe)
            if f.local_ty(lhs['l']) in SQE_PTR_TYS or any(p['k'] == 'field' and p.get('adt') == SQE for p in ps):
                if not _is_submission_expr(base, sub, f):
                    continue
                idx = -1
                for i, p in enumerate(ps):
                    if p['k'] == 'field' and p.get('adt') == SQE:
                        idx = i - 1
                        break
            else:
                continue
        elif not _is_submission_expr(base, sub, f):
            continue
        off, width = field_range(facts, ps[idx + 1:])
        rv = s['rv']
        e = eb.rvalue(rv)
        or_const = None
        val = e
        if rv['k'] == 'agg' and rv.get('union'):
            # whole-union aggregate: write of the active arm
            a = _adt(facts, rv['adt'])
            names = [fl['name'] for fl in a['variants'][0]['fields']]
            fi = names.index(rv['fields'][0])
            width = a['field_sizes'][fi]
            val = eb.operand(rv['ops'][0])
        elif e[0] == 'agg' and e[1].startswith('io_uring::libc::io_uring_sqe__bindgen') and len(e[3]) == 1 and len(e[2]) == 1:
            a = _adt(facts, e[1].rsplit('::', 1)[0])
            names = [fl['name'] for fl in a['variants'][0]['fields']]
            if e[2][0] in names and a['kind'] == 'union':
                width = a['field_sizes'][names.index(e[2][0])]
                val = e[3][0]
        if e[0] == 'bin' and e[1] == 'BitOr':
            self_e = eb.place(lhs)
            for x, y in ((e[2], e[3]), (e[3], e[2])):
                if x == self_e:
                    or_const = y
                    val = y
        roots = roots_of(f, val, upv)
        out.append(Write(off, width, val, roots, loc, f.where(loc), or_const=or_const, conds=dominating_variants(f, loc)))
    # calls receiving the submission
    for loc, t in f.calls():
        pos = None
        for i, a in enumerate(t['args']):
            if 'l' in a:
                ae = eb.operand(a)
                if _is_submission_expr(ae, sub, f):
                    pos = i
        if pos is None:
            continue
        name = t.get('resolved') or t.get('callee')
        if name is None:
            continue
        if name.startswith('asan::') or name.startswith('msan::') or name.startswith('log::') or name.startswith('core::fmt') or name.startswith('std::fmt'):
            continue
        g = facts.fn_opt(name)
        if g is None:
            # trait method on a generic (e.g. OpTarget::set_flags), or fn pointer: record as opaque
            out.append(Write(-1, 0, ('opaque', name), {('call', t.get('callee') or name, None)}, loc, f.where(loc), via=name, conds=dominating_variants(f, loc)))
            continue
        if depth > 4:
            raise AnchorMissing('submission helper chain too deep at %s' % name)
        key = (g.path, pos + 1)
        if key not in _memo:
            _memo[key] = collect_writes(g, facts, sub_param=pos + 1, depth=depth + 1, _memo=_memo)
        conds_here = dominating_variants(f, loc)
        # map callee params -> caller arg roots
        arg_roots = [roots_of(f, eb.operand(a), upv) if 'l' in a or a.get('k') == 'const' else set() for a in t['args']]
        pnames = {}
        for i in range(1, g.nargs + 1):
            pnames[g.local_name(i)] = i - 1
            pnames['arg%d' % i] = i - 1
        for w in _memo[key]:
            roots = set()
            for rt in w.roots:
                if rt[0] == 'param' and rt[1] in pnames and pnames[rt[1]] < len(arg_roots):
                    for ar in arg_roots[pnames[rt[1]]]:
                        if ar[0] in ('param', 'upvar', 'local') and rt[2]:
                            roots.add((ar[0], ar[1], (ar[2] + '.' if ar[2] else '') + rt[2]))
                        else:
                            roots.add(ar)
                else:
                    roots.add(rt)
            out.append(Write(w.off, w.width, w.expr, roots, loc, f.where(loc), or_const=w.or_const,
                             conds=tuple(conds_here) + tuple(('callee:' + g.path + ':' + str(c[0]), c[1]) for c in w.conds), via=g.path))
    return out


def flowmap(f, facts, sub_param=None):
    """offset -> dict(width, writes, roots, consts, or_consts)"""
    ws = collect_writes(f, facts, sub_param=sub_param)
    fm = {}
    for w in ws:
        d = fm.setdefault(w.off, {'width': w.width, 'writes': [], 'roots': set(), 'consts': set(), 'or_consts': set()})
        d['writes'].append(w)
        d['width'] = max(d['width'], w.width)
        d['roots'] |= w.roots
        for rt in w.roots:
            if rt[0] == 'const' and rt[1] is not None:
                (d['or_consts'] if w.or_const is not None else d['consts']).add(rt[1])
    return fm


def fm_str(fm):
    parts = []
    for off in sorted(fm):
        d = fm[off]
        parts.append('@%d[%s]=%s' % (off, POS_NAMES.get(off, '?'), ','.join(sorted(_short(r) for r in d['roots']))))
    return ' '.join(parts)


def expect_const(r, fm, inst, off, value, what):
    d = fm.get(off)
    ok = d is not None and value in (d['consts'] | d['or_consts'])
    r.require(ok, '%s/@%d' % (inst, off), '%s: position %d (%s) does not receive %s (got %s)' % (what, off, POS_NAMES.get(off), value, None if d is None else sorted(_short(x) for x in d['roots'])))
    return ok
