"""C05 Completions consumed exactly once, in order, wrap-safe; internal ones ignored."""
from .kernel import ExprBuilder, Loc, access_path, const_val, subexprs, specialise_value
from . import families as fam

EXPLANATION = (
    "Decides, on every CFG path of Completions::poll and Completion::process: (R1) CQ head/tail counter "
    "values only flow into wrap-safe operations (counter typestate: ==/!=, wrapping_add/sub, masking, the "
    "store back); (R2) the Release store publishing the head post-dominates every read of the CQ entries and "
    "no entry read is reachable after it; (R3) per loop iteration exactly one process call and one counter "
    "advance, index = head & (entries_len-1), the body is entered only on an edge excluding head == tail with "
    "tail coming from an Acquire load; (R4) the integer->pointer conversion in process is dominated by the "
    "F_SKIP==0 edge, and with the CFG specialised to user_data == v for each reserved value v (decided by value: match arm, range pattern or if-chain alike) no conversion/update is reachable while operation tags do reach it; "
    "(R5) the reserved values are those written by bookkeeping submitters (+0 for no user_data) and lie below the first page so they cannot collide with an operation pointer. Kernel publication order and delivery (NODROP) are not decided here."
)
NOT_DECIDED = "kernel publication order; delivery of every CQE (needs IORING_FEAT_NODROP, checked under C18.R3)"
ASSUMPTIONS = ["the kernel publishes CQEs in [head, tail) before the tail store (Acquire load pairs with it)"]

POLL = 'io_uring::cq::Completions::poll'
PROCESS = 'io_uring::cq::Completion::process'


def r1_ctr(r, facts):
    f = facts.fn(POLL)
    res = fam.ctr_analysis(f)
    for loc, w in res.sources:
        r.inst('load %s' % w, f.where(loc))
    for loc, d in res.uses:
        r.idiom(d)
    seen = set()
    for loc, k, msg in res.findings:
        key = 'Completions::poll/%s' % k
        if key in seen:
            continue
        seen.add(key)
        r.bad(key, msg, f.where(loc))
    # no other function touches the CQ counters
    for g in facts.func_list:
        if g.path == POLL:
            continue
        eb = ExprBuilder(g)
        for loc, t in g.calls_to(fam.LOAD_KERNEL_SHARED):
            w = fam.last_field(eb.operand(t['args'][0]))
            if w in fam.CQ_COUNTERS:
                r.inst('load %s in %s' % (w, g.path), g.where(loc))
                rs = fam.ctr_analysis(g)
                for l2, k, msg in rs.findings:
                    r.bad('%s/%s' % (g.path, k), msg, g.where(l2))
    r.floor(3, 'counter loads')


def entry_reads(f):
    eb = ExprBuilder(f)
    out = []
    for loc, t in f.calls():
        n = t.get('callee') or ''
        if n.startswith('std::ptr::NonNull::<T>::add') and fam.last_field(eb.operand(t['args'][0])) == 'entries':
            out.append((loc, t))
    return out


def head_store(f):
    eb = ExprBuilder(f)
    return [(loc, t) for loc, t, m in fam.atomic_sites(f)
            if m == 'store' and fam.last_field(eb.operand(t['args'][0])) == 'entries_head']


def offset_loop(f, facts):
    """`for head in (0..tail.wrapping_sub(head)).map(|offset| head.wrapping_add(offset)) { .. }`: the head counter is not
    mutated; the loop runs over the offsets 0..distance and derives each position from the head it started with.
    Returns dict(next=location of the Iterator::next call, var=locals holding the position of this iteration,
    some=Some edge) or None."""
    eb = ExprBuilder(f)
    res = fam.ctr_analysis(f)
    heads = {l for l, ts in res.tags.items() if 'ctr:entries_head' in ts}
    tails = {l for l, ts in res.tags.items() if 'ctr:entries_tail' in ts}

    def is_head(e):
        while e[0] in ('ref', 'cast'):
            e = e[1] if e[0] == 'ref' else e[4]
        return (e[0] == 'local' and e[1] in heads) or (e[0] == 'call' and e[1] == fam.LOAD_KERNEL_SHARED and fam.last_field(e[2][0]) == 'entries_head')

    def is_tail(e):
        while e[0] in ('ref', 'cast'):
            e = e[1] if e[0] == 'ref' else e[4]
        return (e[0] == 'local' and e[1] in tails) or (e[0] == 'call' and e[1] == fam.LOAD_KERNEL_SHARED and fam.last_field(e[2][0]) == 'entries_tail')
    for loc, t in f.calls():
        if (t.get('callee') or '') != 'std::iter::Iterator::next' or f.blocks[loc[0]]['cleanup']:
            continue
        it = eb.operand(t['args'][0])
        maps = [x for x in subexprs(it) if x[0] == 'call' and x[1] == 'std::iter::Iterator::map' and len(x[2]) == 2]
        plain = None
        if len(maps) == 1:
            rng, clo = maps[0][2]
        else:
            rngs = [x for x in subexprs(it) if x[0] == 'agg' and x[1].endswith('Range::Range') and len(x[3]) == 2]
            if len(rngs) != 1 or maps:
                continue
            rng, clo = rngs[0], None
        if not (rng[0] == 'agg' and rng[1].endswith('Range::Range') and len(rng[3]) == 2 and rng[3][0][0] == 'const' and rng[3][0][1] == 0):
            continue
        d = rng[3][1]
        if not (d[0] == 'call' and d[1] == 'core::num::<impl u32>::wrapping_sub' and is_tail(d[2][0]) and is_head(d[2][1])):
            continue
        if clo is None:
            # `for offset in 0..distance { let head = start.wrapping_add(offset); .. }`: the position is computed in the body
            offs = set()
            for l2, s2 in f.assigns():
                rv = s2['rv']
                if rv['k'] == 'use' and 'l' in rv['op'] and rv['op']['l'] == t['dest']['l'] and rv['op']['p'] and not s2['lhs']['p']:
                    offs.add(s2['lhs']['l'])
            grow = True
            while grow:
                grow = False
                for l2, s2 in f.assigns():
                    rv = s2['rv']
                    if rv['k'] == 'use' and 'l' in rv['op'] and not rv['op']['p'] and rv['op']['l'] in offs and not s2['lhs']['p'] and s2['lhs']['l'] not in offs:
                        offs.add(s2['lhs']['l'])
                        grow = True
            plain = set()
            for l2, t2 in f.calls():
                if (t2.get('callee') or '') == 'core::num::<impl u32>::wrapping_add' and len(t2['args']) == 2 and not t2['dest']['p']:
                    a_, b_ = t2['args']
                    if 'l' in a_ and not a_['p'] and 'l' in b_ and not b_['p'] and ((a_['l'] in heads and b_['l'] in offs) or (b_['l'] in heads and a_['l'] in offs)):
                        plain.add(t2['dest']['l'])
            if not plain:
                continue
            cg = True
        else:
            if not (clo[0] == 'agg' and clo[1] == 'closure' and len(clo[3]) == 1 and is_head(clo[3][0])):
                continue
            # the closure: captured head (+) offset, wrapping
            cg = None
            for l2, s2 in f.assigns():
                if s2['rv']['k'] == 'agg' and s2['rv'].get('ak') == 'closure':
                    cand = facts.fn_opt(s2['rv'].get('closure') or '')
                    if cand is not None:
                        ce = ExprBuilder(cand)
                        rets = [ce.call(t2) for _, t2 in cand.calls() if not t2['dest']['p'] and t2['dest']['l'] == 0]
                        if len(rets) == 1 and rets[0][1] == 'core::num::<impl u32>::wrapping_add':
                            a, b = rets[0][2]
                            up = lambda x: x[0] == 'proj' and x[1][0] == 'arg' and x[1][1] == 1
                            par = lambda x: x[0] == 'arg' and x[1] == 2
                            if (up(a) and par(b)) or (up(b) and par(a)):
                                cg = cand
        if cg is None:
            continue
        some = None
        for si in f.enum_switches('std::option::Option'):
            if not si['place']['p'] and si['place']['l'] == t['dest']['l']:
                some = f.variant_edge(si, 'Some')
        if some is None:
            continue
        var = set(plain or ())
        for l2, s2 in f.assigns():
            rv = s2['rv']
            if plain is None and rv['k'] == 'use' and 'l' in rv['op'] and rv['op']['l'] == t['dest']['l'] and rv['op']['p'] and not s2['lhs']['p']:
                var.add(s2['lhs']['l'])
        changed = True
        while changed:
            changed = False
            for l2, s2 in f.assigns():
                rv = s2['rv']
                if rv['k'] == 'use' and 'l' in rv['op'] and not rv['op']['p'] and rv['op']['l'] in var and not s2['lhs']['p'] and s2['lhs']['l'] not in var:
                    var.add(s2['lhs']['l'])
                    changed = True
        return {'next': loc, 'var': var, 'some': some, 'dist': d}
    return None


def r2_publish_last(r, facts):
    f = facts.fn(POLL)
    stores = head_store(f)
    reads = entry_reads(f)
    procs = f.calls_to(PROCESS)
    if not r.require(len(stores) == 1, 'Completions::poll', 'expected exactly one store to entries_head, found %d' % len(stores), f.where()):
        return
    if not r.require(len(reads) >= 1 and len(procs) >= 1, 'Completions::poll', 'entry read / process call not found (unrecognised form)', f.where()):
        return
    st_loc, st = stores[0]
    o = fam.ordering_of(f, st['args'][2])
    r.inst('head store ordering=%s' % o, f.where(st_loc))
    r.require(fam.ord_ok('store', o), 'Completions::poll/ORD', 'entries_head store uses Ordering::%s (needs Release)' % o, f.where(st_loc))
    rets = f.returns()
    for loc, t in reads + procs:
        r.inst('read/process before publish', f.where(loc))
        hit = f.forward_paths_hit([Loc(t['target'], 0)], rets, blockers=[st_loc])
        r.require(hit is None, 'Completions::poll/publish-last', 'a path from an entry read returns without publishing the head', f.where(loc))
    after = f.reachable_locs([Loc(st['target'], 0)])
    for loc, t in reads + procs:
        r.require(loc not in after, 'Completions::poll/publish-last', 'a completion entry is read after the head was published to the kernel', f.where(loc))
    # the stored value is the loop counter (a value tagged as the head counter)
    res = fam.ctr_analysis(f)
    v = st['args'][1]
    tags = res.tags.get(v['l'], set()) if 'l' in v else set()
    ok_v = False
    if 'ctr:entries_head' in tags:
        # derived from the head is not enough (`start + (available - 1)` is): the value is the loop counter itself, or
        # the start plus the whole distance an offset loop walked
        le = ExprBuilder(f, multi='leaf').operand(v)
        while le[0] == 'cast':
            le = le[4]
        if le[0] == 'local' and 'ctr:entries_head' in res.tags.get(le[1], set()) and len(f.defs.get(le[1], [])) > 1:
            ok_v = True
        else:
            pe = ExprBuilder(f).operand(v)
            ol = offset_loop(f, facts)
            parts = None
            if pe[0] == 'call' and pe[1] == 'core::num::<impl u32>::wrapping_add' and len(pe[2]) == 2:
                parts = pe[2]
            elif pe[0] == 'bin' and pe[1] in ('Add', 'AddUnchecked', 'AddWithOverflow'):
                parts = (pe[2], pe[3])
            if ol is not None and parts is not None and f.forward_paths_hit([Loc(ol['some'][1], 0)], [st_loc], blockers=[ol['next']]) is None:
                is_h = lambda y: (y[0] == 'call' and y[1] == fam.LOAD_KERNEL_SHARED and fam.last_field(y[2][0]) == 'entries_head')
                is_d = lambda y: y == ol.get('dist')
                if (is_h(parts[0]) and is_d(parts[1])) or (is_h(parts[1]) and is_d(parts[0])):
                    ok_v = True
                    r.inst('publishes start (+) distance after a complete offset loop', f.where(st_loc))
    if not ok_v and 'ctr:entries_tail' in tags:
        # publishing the tail that was read is the same value when the loop visited every position from head to that tail:
        # an offset loop over 0..tail-head that can only be left when it is exhausted
        ol = offset_loop(f, facts)
        if ol is not None and f.forward_paths_hit([Loc(ol['some'][1], 0)], [st_loc], blockers=[ol['next']]) is None:
            ok_v = True
            r.inst('publishes the tail after a complete offset loop head..tail', f.where(st_loc))
    r.require(ok_v, 'Completions::poll/publish-value', 'value stored to entries_head is not the advanced head counter (the loop counter itself, the tail a complete loop reached, or start (+) the whole distance)', f.where(st_loc))
    r.floor(3)


# comparison forms between head (h) and tail (t) whose taken edge excludes h == t
#  (op, a_is, b_is, edge)
NONEMPTY_FORMS = {
    ('Ne', 'h', 't', 1), ('Ne', 't', 'h', 1), ('Eq', 'h', 't', 0), ('Eq', 't', 'h', 0),
    ('Lt', 'h', 't', 1), ('Gt', 't', 'h', 1), ('Ge', 'h', 't', 0), ('Le', 't', 'h', 0),
}


def r3_once_per_slot(r, facts):
    f = facts.fn(POLL)
    eb = ExprBuilder(f)
    res = fam.ctr_analysis(f)
    procs = f.calls_to(PROCESS)
    if not r.require(len(procs) == 1, 'Completions::poll', 'expected exactly one Completion::process call, found %d' % len(procs), f.where()):
        return
    p_loc, p_t = procs[0]
    # counter advance: assignments to a head-tagged multi-def local from wrapping_add / Add of itself and 1
    head_locals = {l for l, ts in res.tags.items() if 'ctr:entries_head' in ts and len(f.defs.get(l, [])) > 1}
    adv = []
    for loc, s in f.assigns():
        if s['lhs']['p'] or s['lhs']['l'] not in head_locals:
            continue
        e = eb.rvalue(s['rv'])
        if _is_inc_of(e, s['lhs']['l']):
            adv.append(loc)
    for loc, t in f.calls():
        if not t['dest']['p'] and t['dest']['l'] in head_locals and (t.get('callee') or '') == 'core::num::<impl u32>::wrapping_add':
            e = eb.call(t)
            if _is_inc_of(e, t['dest']['l']):
                adv.append(loc)
    if not adv:
        # an offset loop: each Iterator::next yields the next position head (+) offset; that call is the advance
        ol = offset_loop(f, facts)
        if ol is not None:
            adv = [ol['next']]
            head_locals = set(head_locals) | ol['var']
            res.tags.update({l: set(res.tags.get(l, set())) | {'ctr:entries_head'} for l in ol['var']})
    if not r.require(len(adv) >= 1, 'Completions::poll/advance', 'no `head = head (+) 1` advance of the loop counter found (unrecognised form)', f.where()):
        return
    r.inst('process call', f.where(p_loc))
    for a in adv:
        r.inst('advance', f.where(a))
    after_p = [Loc(p_t['target'], 0)]
    hit = f.forward_paths_hit(after_p, [p_loc], blockers=adv)
    r.require(hit is None, 'Completions::poll/once', 'process can run twice without advancing the head (a completion handled twice)', f.where(p_loc))
    for a in adv:
        nxt = [Loc(a[0], a[1] + 1)] if not f.is_term(a) else [Loc(f.at(a)['target'], 0)]
        hit = f.forward_paths_hit(nxt, adv, blockers=[p_loc])
        r.require(hit is None, 'Completions::poll/once', 'the head can advance twice with one process call (a completion skipped)', f.where(a))
    # index = head & (entries_len - 1)
    reads = entry_reads(f)
    for loc, t in reads:
        e = eb.operand(t['args'][1])
        while e[0] == 'cast':
            e = e[4]
        ok = False
        if e[0] == 'bin' and e[1] == 'BitAnd':
            for x, m in ((e[2], e[3]), (e[3], e[2])):
                if x[0] == 'local' and x[1] in head_locals and _len_minus_1(m, 'entries_len'):
                    ok = True
                # the position yielded by an offset loop (head (+) offset)
                if x[0] == 'proj' and tuple(x[2]) == ('@Some', '.0') and x[1][0] == 'call' and x[1][1] == 'std::iter::Iterator::next' \
                        and offset_loop(f, facts) is not None and _len_minus_1(m, 'entries_len'):
                    ok = True
                # ... or computed in the body: head0 (+) offset
                if x[0] == 'call' and x[1] == 'core::num::<impl u32>::wrapping_add' and len(x[2]) == 2 and offset_loop(f, facts) is not None and _len_minus_1(m, 'entries_len'):
                    is_off = lambda y: y[0] == 'proj' and tuple(y[2]) == ('@Some', '.0') and y[1][0] == 'call' and y[1][1] == 'std::iter::Iterator::next'
                    is_h0 = lambda y: (y[0] == 'call' and y[1] == fam.LOAD_KERNEL_SHARED and fam.last_field(y[2][0]) == 'entries_head') or (y[0] == 'local' and y[1] in head_all0)
                    head_all0 = {l for l, ts in res.tags.items() if 'ctr:entries_head' in ts}
                    if (is_off(x[2][0]) and is_h0(x[2][1])) or (is_off(x[2][1]) and is_h0(x[2][0])):
                        ok = True
        elif e[0] == 'bin' and e[1] == 'Rem':
            ok = e[2][0] == 'local' and e[2][1] in head_locals and fam.last_field(e[3]) == 'entries_len'
        r.inst('index = %s' % (e,), f.where(loc))
        r.require(ok, 'Completions::poll/index', 'entry index is not head & (entries_len-1): %s' % (e,), f.where(loc))
        r.require(f.dominates(loc, p_loc), 'Completions::poll/index', 'process is not dominated by the entry address computation', f.where(loc))
    # loop entered only on an edge excluding head == tail
    tail_locals = {l for l, ts in res.tags.items() if 'ctr:entries_tail' in ts}
    head_all = {l for l, ts in res.tags.items() if 'ctr:entries_head' in ts}
    ok_edge = False
    for b, blk in enumerate(f.blocks):
        if blk['cleanup'] or blk['term']['k'] != 'switch':
            continue
        e = eb.operand(blk['term']['discr'])
        if e[0] != 'bin':
            continue
        a, bb_ = e[2], e[3]
        ra = 'h' if _is_local_in(a, head_all) else ('t' if _is_local_in(a, tail_locals) else None)
        rb = 'h' if _is_local_in(bb_, head_all) else ('t' if _is_local_in(bb_, tail_locals) else None)
        if not ra or not rb or ra == rb:
            continue
        si = f.switch_info(b)
        for val in (0, 1):
            if (e[1], ra, rb, val) in NONEMPTY_FORMS:
                tgt = si['values'].get(0) if val == 0 else si['values'].get(1, si['otherwise'])
                if tgt is not None and f.edge_dominates((b, tgt), p_loc) and tgt in f.reachable_blocks(0):
                    # must be the loop test: the advance flows back to it
                    back = f.forward_paths_hit([Loc(adv[0][0], adv[0][1])], [f.term_loc(b)])
                    if back is not None:
                        ok_edge = True
                        r.inst('loop test %s(%s,%s) edge %d' % (e[1], ra, rb, val), f.where(f.term_loc(b)))
    def _distance(x):
        """x is wrapping_sub(tail, head) over the counter locals"""
        while x[0] == 'cast':
            x = x[4]
        if x[0] == 'call' and x[1] == 'core::num::<impl u32>::wrapping_sub' and len(x[2]) == 2:
            return _is_local_in(x[2][0], tail_locals) and _is_local_in(x[2][1], head_all)
        return False
    if not ok_edge:
        # `tail.wrapping_sub(head) != 0` as the per-iteration test
        for b, blk in enumerate(f.blocks):
            if blk['cleanup'] or blk['term']['k'] != 'switch':
                continue
            e = eb.operand(blk['term']['discr'])
            if e[0] != 'bin' or e[1] not in ('Eq', 'Ne'):
                continue
            d, z = (e[2], e[3]) if e[3][0] == 'const' else (e[3], e[2])
            if not (z[0] == 'const' and z[1] == 0 and _distance(d)):
                continue
            si = f.switch_info(b)
            tgt = si['values'].get(1, si['otherwise']) if e[1] == 'Ne' else si['values'].get(0)
            if tgt is not None and f.edge_dominates((b, tgt), p_loc) and f.forward_paths_hit([Loc(adv[0][0], adv[0][1])], [f.term_loc(b)]) is not None:
                ok_edge = True
                r.inst('loop test %s(wrapping_sub(tail, head), 0)' % e[1], f.where(f.term_loc(b)))
    if not ok_edge:
        # counted loop: `for _ in 0..tail.wrapping_sub(head)` runs the body exactly distance times
        for loc, t in f.calls():
            if (t.get('callee') or '') != 'std::iter::Iterator::next' or f.blocks[loc[0]]['cleanup']:
                continue
            it = eb.operand(t['args'][0])
            rng = [x for x in subexprs(it) if x[0] == 'agg' and x[1].endswith('Range::Range') and len(x[3]) == 2]
            if not rng or not (rng[0][3][0][0] == 'const' and rng[0][3][0][1] == 0 and _distance(rng[0][3][1])):
                continue
            some = None
            for si in f.enum_switches('std::option::Option'):
                if not si['place']['p'] and si['place']['l'] == t['dest']['l']:
                    some = f.variant_edge(si, 'Some')
            if some is not None and f.edge_dominates(some, p_loc) and f.forward_paths_hit([Loc(adv[0][0], adv[0][1])], [loc]) is not None:
                ok_edge = True
                r.inst('counted loop over 0..wrapping_sub(tail, head)', f.where(loc))
    if not ok_edge:
        ol = offset_loop(f, facts)
        if ol is not None and f.edge_dominates(ol['some'], p_loc):
            ok_edge = True
            r.inst('offset loop over 0..wrapping_sub(tail, head)', f.where(ol['next']))
    r.require(ok_edge, 'Completions::poll/loop-test', 'the processing loop is not guarded, per iteration, by a head-vs-tail test excluding head == tail', f.where(p_loc))
    # tail values come from load_kernel_shared (Acquire; ORD of that function is checked in C04.R3 and here)
    lk = facts.fn(fam.LOAD_KERNEL_SHARED)
    for loc, t, m in fam.atomic_sites(lk):
        o = fam.ordering_of(lk, t['args'][-1])
        r.inst('load_kernel_shared ordering=%s' % o, lk.where(loc))
        r.require(m == 'load' and fam.ord_ok('load', o), 'load_kernel_shared/ORD', 'kernel-shared load uses %s(%s) (needs Acquire)' % (m, o), lk.where(loc))
    r.floor(5)


def _is_local_in(e, s):
    return e[0] == 'local' and e[1] in s


def _is_inc_of(e, local):
    if e[0] == 'proj' and e[2] == ('.0',):
        e = e[1]
    if e[0] == 'bin' and e[1] in ('Add', 'AddWithOverflow', 'AddUnchecked'):
        a, b = e[2], e[3]
    elif e[0] == 'call' and e[1] == 'core::num::<impl u32>::wrapping_add':
        a, b = e[2]
    else:
        return False
    return (a[0] == 'local' and a[1] == local and b[0] == 'const' and b[1] == 1) or \
           (b[0] == 'local' and b[1] == local and a[0] == 'const' and a[1] == 1)


def _len_minus_1(m, field):
    if m[0] == 'proj' and m[2] == ('.0',):
        m = m[1]
    if m[0] == 'bin' and m[1] in ('Sub', 'SubWithOverflow', 'SubUnchecked'):
        return fam.last_field(m[2]) == field and m[3][0] == 'const' and m[3][1] == 1
    if m[0] == 'call' and m[1] == 'core::num::<impl u32>::wrapping_sub':
        return fam.last_field(m[2][0]) == field and m[2][1][1] == 1
    return False


def conversions(f):
    """int -> pointer conversions in f"""
    out = []
    for loc, t in f.calls():
        n = t.get('callee') or ''
        if n in ('std::ptr::with_exposed_provenance', 'std::ptr::with_exposed_provenance_mut',
                 'std::ptr::without_provenance', 'std::ptr::without_provenance_mut', 'std::ptr::dangling'):
            out.append(loc)
    for loc, s in f.assigns():
        rv = s['rv']
        if rv['k'] == 'cast' and rv['ck'] in ('PointerWithExposedProvenance',):
            out.append(loc)
        if rv['k'] == 'cast' and rv['ck'] == 'Transmute' and ('*const' in rv['to'] or '*mut' in rv['to'] or rv['to'].startswith('&')) \
                and not ('*' in rv['from'] or rv['from'].startswith('&') or 'NonNull' in rv['from']):
            out.append(loc)
    return out


def user_data_switch(f):
    """the switchInt on (self.0).user_data; returns (bb, switch_info)"""
    eb = ExprBuilder(f)
    for b, blk in enumerate(f.blocks):
        t = blk['term']
        if blk['cleanup'] or t['k'] != 'switch' or t['discr_ty'] != 'u64':
            continue
        e = eb.operand(t['discr'])
        if fam.last_field(e) == 'user_data':
            return b, f.switch_info(b)
    return None, None


def r4_filter_first(r, facts, only=None):
    f = facts.fn(PROCESS)
    eb = ExprBuilder(f)
    conv = conversions(f)
    if not r.require(len(conv) >= 1, 'Completion::process', 'no integer->pointer conversion found in process (unrecognised form)', f.where()):
        return
    # (a) F_SKIP
    skip_val = facts.const('io_uring::libc::IORING_CQE_F_SKIP')
    skip_edge = None
    for b, blk in enumerate(f.blocks):
        t = blk['term']
        if blk['cleanup'] or t['k'] != 'switch':
            continue
        e = eb.operand(t['discr'])
        if e[0] == 'bin' and e[1] in ('Ne', 'Eq'):
            x, z = e[2], e[3]
            if z[0] == 'const' and z[1] == 0 and x[0] == 'bin' and x[1] == 'BitAnd':
                m = [y for y in (x[2], x[3]) if y[0] == 'const']
                fl = [y for y in (x[2], x[3]) if fam.last_field(y) == 'flags']
                if m and fl and m[0][1] == skip_val:
                    si = f.switch_info(b)
                    # Ne: value 0 == "not set"; Eq: value 1 == "not set"
                    if e[1] == 'Ne':
                        skip_edge = (b, si['values'].get(0))
                    else:
                        skip_edge = (b, si['values'].get(1, si['otherwise']))
    if r.require(skip_edge is not None and skip_edge[1] is not None, 'Completion::process/skip', 'test of IORING_CQE_F_SKIP on the completion flags not found', f.where()):
        r.inst('F_SKIP==0 edge bb%d->bb%d' % skip_edge, f.where(f.term_loc(skip_edge[0])))
        for c in conv:
            r.require(f.edge_dominates(skip_edge, c), 'Completion::process/skip', 'pointer formed from user_data without the F_SKIP==0 test dominating it', f.where(c))
    # (b) reserved values: decided by value, not by the syntactic form of the match (arm, range pattern, if-chain)
    sinks = conv + [l for l, t in f.calls_to(lambda t: '::update' in (t.get('callee') or ''))]
    for c in conv:
        r.inst('conversion', f.where(c))
    reserved = reserved_values(r, facts)
    subj = lambda e: fam.last_field(e) == 'user_data'
    ndec = 0
    for v in sorted(reserved):
        if only is not None and v not in only:
            continue
        g, decided = specialise_value(f, subj, v, eb)
        ndec = max(ndec, len(decided))
        hit = g.forward_paths_hit([Loc(0, 0)], sinks)
        r.inst('user_data == %d: %d switch(es) decided, sinks %s' % (v, len(decided), 'unreachable' if hit is None else 'REACHABLE'), f.where())
        r.require(hit is None, 'Completion::process/reserved:%d' % v,
                  'a completion with the reserved user_data %d (%s) reaches the pointer conversion / State::update: a bookkeeping completion is treated as belonging to an operation' % (v, reserved[v]), f.where(hit[0]) if hit else '')
    r.require(ndec >= 1, 'Completion::process/reserved', 'no branch in process is decided by the completion user_data (unrecognised form)', f.where())
    # positive control: an operation tag (aligned pointer, with and without the multishot tag bit) does reach the conversion
    for v in (0x1000, 0x1002):
        g, decided = specialise_value(f, subj, v, eb)
        hit = g.forward_paths_hit([Loc(0, 0)], conv)
        r.require(hit is not None, 'Completion::process/ops-filtered', 'an operation completion (user_data %#x) never reaches the pointer conversion' % v, f.where())
    r.floor(3)
    return set(reserved)


def reserved_values(r, facts):
    """reserved user_data values -> who writes them (bookkeeping submitters; 0 = no user_data set)"""
    written = {0: 'no user_data set'}
    for g, loc, e in bookkeeping_user_data(facts):
        if e[0] == 'const' and e[1] is not None:
            written.setdefault(e[1], g.path.split('::{')[0].split('::')[-1])
            if r is not None:
                r.inst('%s writes user_data=%s' % (g.path, e), g.where(loc))
        elif r is not None:
            r.inst('%s writes user_data=<%s>' % (g.path, e[0]), g.where(loc))
    return written


def bookkeeping_user_data(facts):
    """(func, loc, value) for writes of a named/literal constant to io_uring_sqe.user_data"""
    out = []
    for f in facts.func_list:
        eb = None
        for loc, s in f.assigns():
            lhs = s['lhs']
            fl = [p for p in lhs['p'] if p['k'] == 'field']
            if not fl or fl[-1].get('name') != 'user_data' or not (fl[-1].get('adt') or '').endswith('io_uring_sqe'):
                continue
            eb = eb or ExprBuilder(f)
            e = eb.rvalue(s['rv'])
            out.append((f, loc, e))
    return out


def r5_reserved_table(r, facts):
    """the table side of R4: which values are reserved, who writes them, and that operation tags cannot collide"""
    f = facts.fn(PROCESS)
    written = reserved_values(r, facts)
    r.require(len(written) >= 4, 'reserved-table', 'expected the four reserved user_data values (none, wake, cancel, close) to be written by bookkeeping submitters, found %s' % sorted(written), f.where())
    # operation tags are pointer|tag with alignment >= 4: every reserved value must be below the smallest
    # address a state allocation can have and must not look like a tagged null pointer of an operation
    r.require(max(written) < 4096, 'reserved-table/range', 'reserved user_data %d is not below the first page: it may collide with an operation pointer' % max(written), f.where())
    r.floor(3, 'user_data writers')


def check(ctx):
    ctx.run('C05.R1', 'CTR: CQ head/tail values flow only into wrap-safe operations', r1_ctr)
    ctx.run('C05.R2', 'publish last: Release store of the head post-dominates all entry reads, none after it', r2_publish_last)
    ctx.run('C05.R3', 'exactly one process + one advance per iteration; index = head & (len-1); body only when head != tail', r3_once_per_slot)
    ctx.run('C05.R4', 'int->pointer conversion dominated by F_SKIP==0 and by the non-reserved arm; reserved arms return', r4_filter_first)
    ctx.run('C05.R5', 'reserved user_data table: bookkeeping writers (+0) == explicit arms of process', r5_reserved_table)
    from . import c18
    ctx.run('C05.R6', 'the lengths that give the index masks are the sizes the kernel granted: Completions.entries_len = params.cq_entries (=C18.R4)', lambda r, facts: c18.ring_lengths(r, facts, modes=False, sq=False, floor=1))
