"""C09 Interrupted or cancelled operations restart transparently."""
import re

from .kernel import (ExprBuilder, Loc, access_path, bool_call_switches, effective_edge, specialise,
                     subexprs, variant_edges)
from . import families as fam
from . import life

EXPLANATION = (
    'Decides on every CFG path of poll_inner: (R1) the restart arm is selected by exactly the errno set '
    '{EINTR, ECANCELED} (numbers from the system errno headers) of raw_os_error() on the Err edge of '
    'check_result, inside the Done arm; (R2) from the restart edge to the loop header there is no return, no '
    'call of get_resources/map_ok/fallback/drop_in_place, no write to tail.args/tail.resources, status = '
    'NotStarted is stored and the state lock stays held, and for single-shot operations no path from a '
    'get_resources call (which moves the resources out) reaches the restart; (R3) the only submit site is the '
    'NotStarted arm, which fills from the same data.tail places and stores a fresh O::empty() container '
    '(LIFE-6), so nothing of the earlier attempt is mixed in; (R4) a multishot stream restarts only behind the '
    '`!has_next()` assertion. Idempotence of each fill_submission on re-run and kernel behaviour are not '
    'decided. (R5) LIFE-4: the status only becomes Done on a completion without F_MORE, so a restart never '
    'overlaps a still-pending completion of the earlier attempt.'
)
NOT_DECIDED = "value-level idempotence of each fill_submission when run twice on the same resources; kernel behaviour"
ASSUMPTIONS = ["errno numbers from /usr/include/asm-generic/errno*.h match the target"]


def errno_values():
    vals = {}
    for p in ('/usr/include/asm-generic/errno-base.h', '/usr/include/asm-generic/errno.h'):
        try:
            for line in open(p):
                m = re.match(r'#define\s+(E[A-Z0-9]+)\s+(\d+)', line)
                if m:
                    vals[m.group(1)] = int(m.group(2))
        except OSError:
            pass
    vals.setdefault('EINTR', 4)
    vals.setdefault('ECANCELED', 125)
    return vals


def errno_site(f):
    """(location, dest local) of the raw_os_error() call that feeds the restart decision in the Done arm"""
    done = life.dispatch_edges(f, 'Done')
    out = []
    for loc, t in f.calls():
        if (t.get('callee') or '') == 'std::io::Error::raw_os_error' and not f.blocks[loc[0]]['cleanup'] and not t['dest']['p']:
            if not done or f.edge_dominates(done[0]['edge'], loc) or loc[0] in f.reachable_blocks(done[0]['edge'][1]):
                out.append((loc, t))
    return out


def restart_reach(f, loc, t, errno, header=None):
    """blocks reached behind the raw_os_error() call when it returned Some(errno) (None: when it returned None),
    not following the loop back to the status dispatch"""
    d = t['dest']['l']
    env0 = {('D', d): 0} if errno is None else {('D', d): 1, ('P', d): (1, errno)}
    if t['target'] is None:
        return set()
    return f.reach_blocks([Loc(t['target'], 0)], env0=env0, blockers=[header] if header else [])


def r1_errno_set(r, facts):
    """decided by value over the whole errno table: the restart (status = NotStarted) is reachable behind
    raw_os_error() == Some(e) exactly for e in {EINTR, ECANCELED} — `matches!`, `==` chains, a helper function
    or a lookup alike"""
    f = facts.fn(life.POLL_INNER)
    sites = errno_site(f)
    if not r.require(len(sites) == 1, 'poll_inner/errno-switch', 'expected one raw_os_error() test in the Done arm of poll_inner, found %d' % len(sites), f.where()):
        return None
    loc, t = sites[0]
    en = errno_values()
    want = {en['EINTR'], en['ECANCELED']}
    stores = {l[0] for l, v, e in life.status_stores(f, 'NotStarted')}
    r.require(bool(stores), 'poll_inner/restart-store', 'status = NotStarted is never stored (no restart)', f.where())
    disp = life.dispatch_edges(f, 'NotStarted')
    header = f.term_loc(disp[0]['si']['bb']) if disp else None
    got = set()
    for name, v in sorted(en.items(), key=lambda kv: kv[1]):
        if restart_reach(f, loc, t, v, header) & stores:
            got.add(v)
    none_restarts = bool(restart_reach(f, loc, t, None, header) & stores)
    r.inst('errno values that lead to a restart: %s (of %d probed)' % (sorted(got), len(en)), f.where(loc))
    r.require(got == want, 'poll_inner/errno-set', 'restart is selected by errno set %s, expected {EINTR=%d, ECANCELED=%d}' % (sorted(got), en['EINTR'], en['ECANCELED']), f.where(loc))
    r.require(not none_restarts, 'poll_inner/errno-set', 'an error without an OS error number restarts the operation', f.where(loc))
    # on the Err edge of check_result
    eb = ExprBuilder(f)
    e = eb.operand(t['args'][0])
    r.require(any(x[0] == 'call' and x[1] == 'io_uring::op::CompletionResult::check_result' for x in subexprs(e)),
              'poll_inner/errno-source', 'the errno tested is not the error of this completion (check_result): %s' % (e,), f.where(loc))
    r.floor(1)


def restart_edge(f, facts):
    """an edge into the blocks only reached when the errno selects a restart (EINTR) and not otherwise (EPIPE)"""
    sites = errno_site(f)
    if len(sites) != 1:
        return None
    loc, t = sites[0]
    en = errno_values()
    disp = life.dispatch_edges(f, 'NotStarted')
    header = f.term_loc(disp[0]['si']['bb']) if disp else None
    stores = [l for l, v, e in life.status_stores(f, 'NotStarted')]
    r_intr, r_canc = restart_reach(f, loc, t, en['EINTR'], header), restart_reach(f, loc, t, en['ECANCELED'], header)
    yes = r_intr & r_canc
    no = restart_reach(f, loc, t, en['EPIPE'], header) | restart_reach(f, loc, t, None, header)
    only = yes - no
    # the entry edge whose target reaches the NotStarted store
    cands = []
    for b in sorted(only):
        for p in f.pred[b]:
            # (the two errno values may arrive over separate edges: `e != EINTR && e != ECANCELED` branches twice)
            if p not in only and not f.blocks[p]['cleanup'] and p in (r_intr | r_canc):
                cands.append((p, b))
    for e in cands:
        if any(f.forward_paths_hit([Loc(e[1], 0)], [s_]) is not None for s_ in stores) or not stores:
            return e
    return cands[0] if cands else None


def r2_pure_restart(r, facts):
    f0 = facts.fn(life.POLL_INNER)
    re_ = restart_edge(f0, facts)
    if not r.require(re_ is not None, 'poll_inner/restart-edge', 'restart edge not found', f0.where()):
        return
    regs = fam.guard_regions(f0, 'shared')
    live = regs[0]['held'] if len(regs) == 1 else set()
    disp = life.dispatch_edges(f0, 'NotStarted')
    if not r.require(len(disp) == 1, 'poll_inner/dispatch', 'status dispatch not found', f0.where()):
        return
    header = f0.term_loc(disp[0]['si']['bb'])
    for ms in (False, True):
        f = specialise(f0, 'OpResult>::IS_MULTISHOT', ms)
        tag = 'multishot' if ms else 'singleshot'
        start = [Loc(re_[1], 0)]
        r.inst('restart edge bb%d->bb%d [%s]' % (re_[0], re_[1], tag), f.where(f.term_loc(re_[0])))
        hit = f.forward_paths_hit(start, f.returns(), blockers=[header])
        r.require(hit is None, 'poll_inner/restart-returns/%s' % tag, 'the restart arm can return to the caller (the interruption becomes visible)', f.where(hit[0]) if hit else '')
        stores = [loc for loc, v, e in life.status_stores(f, 'NotStarted')]
        hit = f.forward_paths_hit(start, [header], blockers=stores)
        r.require(hit is None and stores, 'poll_inner/restart-no-reset/%s' % tag, 'the restart arm reaches the loop header without storing Status::NotStarted (no resubmission / spins)', f.where())
        for s in stores:
            r.require(f.edge_dominates(re_, s) or s[0] in f.reachable_blocks(re_[1]), 'poll_inner/notstarted-elsewhere', 'Status::NotStarted is stored outside the restart arm', f.where(s))
        # path-sensitive: the arm may be entered through a flag (`matches!` / a helper's bool result)
        rblocks = f.reach_blocks(start, blockers=[header])
        region = {Loc(b, i) for b in rblocks for i in range(len(f.blocks[b]['stmts']) + 1)}
        if not ms:
            # single-shot: get_resources *moves* the resources out of the state (ptr::read); a path that has
            # read them out must hand them to map_ok/fallback and return, never go on to the restart
            for l, t in life.param_calls(f, 'get_resources'):
                tgt = f.at(l).get('target')
                hit = f.forward_paths_hit([Loc(tgt, 0)], stores) if tgt is not None else None
                r.require(hit is None, 'poll_inner/restart-after-readout', 'the resources are read out of the operation state (get_resources) on a path that goes on to restart the operation: they are dropped while the re-issued request still uses them, and dropped again later', f.where(l))
        bad_calls = [l for l, t in life.param_calls(f, 'get_resources') + life.param_calls(f, 'map_ok') + life.param_calls(f, 'fallback')]
        bad_calls += [l for l, t in f.calls() if (t.get('callee') or '').endswith('::drop_in_place')]
        for l in bad_calls:
            r.require(l not in region, 'poll_inner/restart-touches-resources/%s' % tag, 'the restart arm consumes or drops the resources before resubmitting', f.where(l))
        for loc in region:
            if f.is_term(loc):
                t = f.at(loc)
                if t['k'] == 'call' and t.get('callee') == 'std::mem::drop' and 'MutexGuard' in (t.get('callee_full') or ''):
                    r.bad('poll_inner/restart-unlocks/%s' % tag, 'the restart arm releases the state lock before the status is consistent', f.where(loc))
                continue
            s = f.at(loc)
            if s['k'] == 'assign':
                names = [p.get('name') for p in s['lhs']['p'] if p['k'] == 'field']
                if 'args' in names or 'resources' in names:
                    r.bad('poll_inner/restart-writes-tail/%s' % tag, 'the restart arm writes data.tail.%s' % names[-1], f.where(loc))
            if loc not in live and loc[0] in f.reachable_blocks(0):
                r.bad('poll_inner/restart-unlocked/%s' % tag, 'part of the restart arm runs without the state lock', f.where(loc))
                break
        if ms:
            hn = [(l, t) for l, t in f.calls() if (t.get('callee') or '').endswith('OpResult::has_next') and l in region]
            r.inst('has_next assertion sites: %d' % len(hn), f.where(hn[0][0]) if hn else '')
            ok = False
            for l, t in hn:
                for c in bool_call_switches(f, lambda t: (t.get('callee') or '').endswith('OpResult::has_next')):
                    if c['call_loc'] == l:
                        # true edge (results pending) must not reach the NotStarted store
                        hit = f.forward_paths_hit([Loc(c['true'], 0)], stores)
                        if hit is None:
                            ok = True
            r.require(ok, 'poll_inner/restart-drops-results', 'a multishot stream may restart while queued results remain (they would be lost)', f.where())
    r.floor(2)


def r3_same_submission(r, facts):
    f = facts.fn(life.POLL_INNER)
    adds = f.calls_to(life.ADD)
    disp = life.dispatch_edges(f, 'NotStarted')
    if not r.require(len(adds) == 1 and len(disp) == 1, 'poll_inner', 'single submit site / dispatch not found', f.where()):
        return
    al, at = adds[0]
    r.inst('single submit site', f.where(al))
    r.require(f.edge_dominates(disp[0]['edge'], al), 'poll_inner/submit-arm', 'the submission is not made from the NotStarted arm', f.where(al))
    # closure captures: resources and args of *this* state's tail, the caller's fill_submission, target and state
    eb = ExprBuilder(f)
    ce = eb.operand(at['args'][1])
    ok = ce[0] == 'agg' and 'closure' in ce[1]
    caps = []
    if ok:
        for a in ce[3]:
            ap = access_path(a)
            caps.append(ap[1] if ap else str(a))
    r.inst('captures %s' % caps, f.where(al))
    need = ['tail.resources', 'tail.args']
    for n in need:
        r.require(any(c.endswith(n) for c in caps), 'poll_inner/submit-captures', 'the submit closure does not capture data.%s of this state' % n, f.where(al))
    c = facts.fn(life.SUBMIT_CLOSURE)
    fills = [(loc, t) for loc, t in c.calls() if t.get('callee_trait') == 'std::ops::Fn']
    if r.require(len(fills) == 1, 'submit-closure/fill', 'fill_submission call not found in submit closure', c.where()):
        ec = ExprBuilder(c)
        t = fills[0][1]
        tup = ec.operand(t['args'][1])
        names = []
        if tup[0] == 'agg':
            for a in tup[3]:
                ap = access_path(a)
                names.append((ap[0][0], ap[1]) if ap else ('?', str(a)))
        r.inst('fill_submission(%s)' % names, c.where(fills[0][0]))
        # positions: target, resources (from capture 0 via get_mut/assume_init_mut), args (capture 1), submission (param 2)
        r.require(len(names) == 4 and names[3][0] == 'arg', 'submit-closure/fill-args', 'fill_submission is not passed (target, resources, args, submission)', c.where(fills[0][0]))
        from .sqe import upvar_names
        uv = upvar_names(c)
        if len(names) == 4:
            got = [uv.get(int(n[1]), n[1]) if n[1].isdigit() else n[1] for n in names[:3]]
            r.inst('fill_submission upvars %s' % got, c.where(fills[0][0]))
            r.require(got[1].endswith('tail__resources') and got[2].endswith('tail__args') and got[0] == 'target', 'submit-closure/fill-args',
                      'fill_submission does not receive (target, data.tail.resources, data.tail.args): %s' % got, c.where(fills[0][0]))
    r.floor(2)


def check(ctx):
    ctx.run('C09.R1', 'restart arm selected by exactly {EINTR, ECANCELED} of this completion\'s error', r1_errno_set)
    ctx.run('C09.R2', 'restart path: no return, no resource use, no tail writes, NotStarted stored, lock held; multishot only when !has_next()', r2_pure_restart)
    ctx.run('C09.R3', 'single submit site in the NotStarted arm over the same data.tail places', r3_same_submission)
    ctx.run('C09.R4', 'LIFE-6: resubmission stores a fresh O::empty() container under the lock', life.life6)
    from . import c13
    ctx.run('C09.R6', 're-issued requests carry the same target flags: every submit site applies OpTarget::set_flags after fill_submission (=C13.R4)', c13.r4_fixed_file)
    ctx.run('C09.R5', 'LIFE-4: the restart arm (Done) is only reachable after the final completion of the previous attempt, so no late completion of attempt k can be taken for attempt k+1', life.life4)
