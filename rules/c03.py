"""C03 No lost wake-ups for completions or for freed submission-queue space."""
from .kernel import (ExprBuilder, Loc, access_path, bool_call_switches, const_switches, specialise,
                     subexprs, variant_edges, callee_name)
from . import families as fam
from . import life

EXPLANATION = (
    "Decides the structural necessary conditions of wake-up delivery on every CFG path: (R1) every return of "
    "Poll::Pending from poll_inner is preceded by a waker registration (store to shared.waker / set_waker on it, "
    "both under the state lock, or wait_for_submission), set_waker leaves the slot holding a waker equivalent to the "
    "argument on all arms, wait_for_submission pushes its parameter under the blocked_futures mutex; (R2) LIFE-6: "
    "submission, waker and Running are published under one lock region; (R3) Shared::update takes the waker "
    "unconditionally on the (done || IS_MULTISHOT) edge and returns it as Wake, which process wakes; (R4b) "
    "every successful return of Completions::poll (Ring::poll) is preceded by wake_blocked_futures — directly, or through any crate function all of whose (Ok) returns pass it (least fixpoint over its callers); (R5) wake_blocked_futures conserves wakers (every one "
    "taken is woken or re-queued; loops exit only on exhaustion; no Vec<Waker> dropped/cleared); (R6) "
    "register-then-recheck: on the QueueFull path queue space is re-checked after the waker was registered. "
    "Liveness over all interleavings is not decided (these are necessary conditions)."
    ' Also decided: (R5 room-polarity) wake_blocked_futures returns early exactly when there is no room; (R8 = C11.R6) Shared::enter hands the timeout to the kernel (timespec, args.ts, EXT_ARG) on every path and wakes a sleeping kernel thread.'
)
NOT_DECIDED = "liveness over all interleavings and memory-ordering subtleties"
ASSUMPTIONS = ["Waker::wake / will_wake / clone_from behave as documented"]

WAIT = 'io_uring::sq::Submissions::wait_for_submission'
WBF = 'io_uring::Shared::wake_blocked_futures'
UNSUB = 'io_uring::Shared::unsubmitted_submissions'
SET_WAKER = 'io_uring::op::set_waker'
ENTER = 'io_uring::Shared::enter'


def waker_field_store(s):
    names = [p.get('name') for p in s['lhs']['p'] if p['k'] == 'field']
    return names[-1:] == ['waker']


def r1_pending_registered(r, facts):
    f = facts.fn(life.POLL_INNER)
    eb = ExprBuilder(f)
    regs = fam.guard_regions(f, 'shared')
    live = regs[0]['held'] if len(regs) == 1 else set()
    pend = []
    for loc, s in f.assigns():
        if s['lhs']['l'] == 0 and not s['lhs']['p'] and s['rv']['k'] == 'agg' and s['rv'].get('variant') == 'Pending' \
                and (s['rv'].get('adt') or '') == 'std::task::Poll':
            pend.append(loc)
    # (not a count of sites — arms may be merged —: each waiting state has a Pending exit)
    for arm in ('NotStarted', 'Running'):
        des = life.dispatch_edges(f, arm)
        reach = set()
        for de in des:
            reach |= f.reachable_blocks(de['edge'][1])
        r.require(bool(des) and any(p[0] in reach for p in pend), 'poll_inner/pending-sites', 'no Poll::Pending exit is reachable from the %s arm of poll_inner (found %d Pending sites in all)' % (arm, len(pend)), f.where())
    # registrations in the operation state: the exits of set_waker / register_waker (always inlined by the normaliser) or
    # a plain store, all under the state lock
    regsites = []
    for k, loc in life.waker_registrations(f):
        regsites.append((k, loc))
        r.require(loc in live, 'poll_inner/waker-store-unlocked', 'shared.waker is registered (%s) without the state lock' % k, f.where(loc))
    for loc, t in f.calls_to(WAIT):
        regsites.append(('wait_for_submission', loc))
    for k, loc in regsites:
        r.inst('%s' % k, f.where(loc))
    blockers = [loc for k, loc in regsites]
    for p in pend:
        # every path from entry to this Pending passes a registration
        hit = f.forward_paths_hit([Loc(0, 0)], [p], blockers=blockers)
        r.inst('Pending', f.where(p))
        r.require(hit is None, 'poll_inner/pending-unregistered', 'Poll::Pending is returned on a path that registered no waker (the task is never woken)', f.where(p))
    # nothing un-registers after registration on the way to Pending: no take()/None store of shared.waker in poll_inner
    for loc, s in f.assigns():
        if waker_field_store(s):
            e = eb.rvalue(s['rv'])
            if not (e[0] == 'agg' and e[1].endswith('Option::Some')):
                r.bad('poll_inner/waker-cleared', 'shared.waker is overwritten with %s in poll_inner' % (e,), f.where(loc))
    # (what used to be checked inside set_waker — the None arm stores, the !will_wake arm clone_from's — is covered by the
    # path condition above on the inlined code: an arm that registers nothing is a path to Pending without a registration)
    r.require(sum(1 for k, _ in regsites if k == 'will_wake') >= 1 and sum(1 for k, _ in regsites if k == 'clone_from') >= 1, 'set_waker/will_wake',
              'no registration keeps an already registered equivalent waker (will_wake) / replaces a stale one (clone_from)', f.where())
    # wait_for_submission pushes its parameter under the blocked_futures mutex
    w = facts.fn(WAIT)
    we = ExprBuilder(w)
    pushes = [(loc, t) for loc, t in w.calls() if (t.get('callee') or '') == 'std::vec::Vec::<T, A>::push']
    r.require(len(pushes) == 1, 'wait_for_submission/push', 'wait_for_submission does not push the waker', w.where())
    for loc, t in pushes:
        v = we.operand(t['args'][1])
        # the parameter itself, or a clone of it (`waker: &Waker` cloned by the callee instead of the caller)
        vv = v
        while vv[0] == 'call' and vv[1].endswith('Clone::clone') and len(vv[2]) == 1:
            vv = vv[2][0]
            while vv[0] == 'ref':
                vv = vv[1]
        r.require(vv[0] == 'arg' and vv[1] == 2, 'wait_for_submission/value', 'the pushed waker is not the parameter', w.where(loc))
        tgt = we.operand(t['args'][0])
        ok = any(x[0] == 'call' and x[1] == 'lock' and fam.last_field(x[2][0]) == 'blocked_futures' for x in subexprs(tgt))
        r.inst('push under lock(blocked_futures)', w.where(loc))
        r.require(ok, 'wait_for_submission/lock', 'the waker is not pushed into lock(&shared.blocked_futures)', w.where(loc))
        hit = w.forward_paths_hit([Loc(0, 0)], w.returns(), blockers=[loc])
        r.require(hit is None, 'wait_for_submission/skip', 'a path through wait_for_submission does not register the waker', w.where())
    r.floor(6)


def r3_handover(r, facts):
    f0 = facts.fn(life.UPDATE)
    cs = bool_call_switches(f0, life.COMPLETE)
    run_e = life.dispatch_edges(f0, 'Running')
    done_e = life.dispatch_edges(f0, 'Done')
    if not r.require(len(run_e) == 1 and len(done_e) == 1 and cs, 'Shared::update', 'Running/Done arms or complete() test not found', f0.where()):
        return
    for ms in (False, True):
        f = specialise(f0, 'OpResult>::IS_MULTISHOT', ms)
        takes = [(loc, t) for loc, t in f.calls() if (t.get('callee') or '') == 'std::option::Option::<T>::take'
                 and fam.last_field(ExprBuilder(f).operand(t['args'][0])) == 'waker']
        r.require(len(takes) == 1, 'Shared::update/take', 'expected one self.waker.take() in update, found %d' % len(takes), f.where())
        rets = f.returns()
        tl = [l for l, _ in takes]
        starts = []
        if ms:
            starts = [Loc(run_e[0]['edge'][1], 0), Loc(done_e[0]['edge'][1], 0)]
            what = 'any completion of a multishot operation'
        else:
            # the true edge of complete() inside the running/done arm
            for c in cs:
                if f.edge_dominates(run_e[0]['raw'], f.term_loc(c['bb'])) or c['bb'] in f.reachable_blocks(run_e[0]['raw'][1]):
                    if not f.edge_dominates(life.dispatch_edges(f0, 'Dropped')[0]['edge'], f.term_loc(c['bb'])):
                        starts.append(Loc(c['true'], 0))
            what = 'the final completion of a single-shot operation'
        r.require(bool(starts), 'Shared::update/start', 'could not locate the ready edge', f.where())
        # a path on which the waker slot is known to be empty has nothing to take (take() would return None there)
        def slot_empty(envd):
            return any(isinstance(k, tuple) and k[0] == 'D' and isinstance(k[1], tuple) and k[1][1].endswith('.%d' % waker_field) and v == 0 for k, v in envd.items())
        waker_field = None
        for loc_, s_ in f.assigns():
            if s_['rv']['k'] == 'discr':
                fl = [p_ for p_ in s_['rv']['place']['p'] if p_['k'] == 'field']
                if fl and fl[-1].get('name') == 'waker':
                    waker_field = fl[-1].get('i')
        hit = f.forward_paths_hit(starts, rets, blockers=tl, stop_env=slot_empty if waker_field is not None else None)
        r.inst('take() on %s' % what, f.where(tl[0]) if tl else '')
        r.require(hit is None, 'Shared::update/no-take:%s' % ('multi' if ms else 'single'), 'on %s a path returns without taking the waker (the task is not woken)' % what, f.where(hit[0]) if hit else '')
        # Some(waker) -> StatusUpdate::Wake(waker)
        for loc, t in takes:
            matched = [si for si in f.enum_switches('std::option::Option') if si['place']['l'] == t['dest']['l'] and not si['place']['p']]
            # or handed on as `.map_or(StatusUpdate::Ok, StatusUpdate::Wake)`: the constructor wraps the taken waker
            handed = []
            for l2, t2 in f.calls():
                if (t2.get('callee') or '') == 'std::option::Option::<T>::map_or' and len(t2['args']) == 3 and 'l' in t2['args'][0] and t2['args'][0]['l'] == t['dest']['l']:
                    ctor = t2['args'][2]
                    if ctor.get('k') == 'const' and (ctor.get('fn') or '').endswith('StatusUpdate::Wake') and t2['dest']['l'] == 0:
                        handed.append(l2)
            if handed:
                r.inst('take() result handed to map_or(StatusUpdate::Ok, StatusUpdate::Wake)', f.where(handed[0]))
                continue
            r.require(bool(matched), 'Shared::update/take-unmatched', 'how the result of self.waker.take() is used was not recognised (unrecognised form)', f.where(loc))
            for si in matched:
                if True:
                    se = f.variant_edge(si, 'Some')
                    wakes = [l for l, s in f.assigns() if s['rv']['k'] == 'agg' and s['rv'].get('adt') == 'io_uring::op::StatusUpdate' and s['rv'].get('variant') == 'Wake' and s['lhs']['l'] == 0]
                    hit = f.forward_paths_hit([Loc(se[1], 0)], rets, blockers=wakes)
                    r.require(hit is None and wakes, 'Shared::update/wake-dropped', 'a waker taken from the state is not returned as StatusUpdate::Wake', f.where(loc))
                    eb = ExprBuilder(f)
                    for wloc in wakes:
                        e = eb.rvalue(f.at(wloc)['rv'])
                        r.require(any(x[0] == 'proj' and '@Some' in x[2] for x in subexprs(e)), 'Shared::update/wake-value', 'StatusUpdate::Wake does not carry the waker that was taken', f.where(wloc))
    # process wakes it: LIFE-4 checks the Wake arm; here: every path on the Wake edge reaches Waker::wake
    p = facts.fn(life.PROCESS)
    ves_w = variant_edges(p, 'io_uring::op::StatusUpdate', 'Wake')
    if r.require(len(ves_w) == 1, 'process/Wake-arm', 'Wake arm not found in process', p.where()):
        wk = [loc for loc, t in p.calls_to('std::task::Waker::wake')]
        hit = p.forward_paths_hit([Loc(ves_w[0]['edge'][1], 0)], p.returns(), blockers=wk)
        r.inst('process Wake arm', p.where(wk[0]) if wk else '')
        r.require(hit is None, 'process/wake-skipped', 'the StatusUpdate::Wake arm can return without calling Waker::wake', p.where())
    r.floor(3)


def r4_enter_wakes(r, facts):
    f = facts.fn(ENTER)
    w = f.calls_to(WBF)
    r.require(len(w) >= 1, 'enter', 'Shared::enter never calls wake_blocked_futures', f.where())
    # the syscall result match: the Result local built from the io_uring_enter2 return value
    sys_calls = [(loc, t) for loc, t in f.calls() if (t.get('callee') or '').endswith('io_uring_enter2') or (t.get('callee') or '').endswith('io_uring_enter')]
    okedges = []
    if r.require(len(sys_calls) == 1, 'enter/syscall', 'io_uring_enter2 call not found in enter', f.where()):
        sl, st = sys_calls[0]
        eb = ExprBuilder(f, multi='phi')
        for si in f.enum_switches('std::result::Result'):
            if f.blocks[si['bb']]['cleanup'] or si['place']['p']:
                continue
            e = eb.local(si['place']['l'])
            if any(x[0] == 'call' and x[1].endswith('io_uring_enter2') for x in subexprs(e)) and f.dominates(sl, f.term_loc(si['bb'])):
                ed = f.variant_edge(si, 'Ok')
                if ed:
                    okedges.append(ed)
    if not r.require(len(okedges) >= 1, 'enter/result-match', 'match on the io_uring_enter result not found', f.where()):
        return
    wl = [l for l, _ in w]
    for e in okedges[:1]:
        r.inst('Ok edge -> wake_blocked_futures', f.where(f.term_loc(e[0])))
        hit = f.forward_paths_hit([Loc(e[1], 0)], f.returns(), blockers=wl)
        r.require(hit is None, 'enter/ok-without-wake', 'after a successful io_uring_enter a path returns without waking futures blocked on queue space', f.where())
    r.floor(1)


def always_wakes(facts):
    """paths of crate functions every successful return of which has passed wake_blocked_futures — directly or
    through another such function (least fixpoint over the callers of wake_blocked_futures).  For functions
    returning Result only the Ok returns count (a failed enter is an error return of poll as well)."""
    done = {WBF}
    changed = True
    while changed:
        changed = False
        cands = set()
        for w in list(done):
            for (g, loc, t) in facts.callers.get(w, []):
                if g.path not in done and g.kind != 'closure':
                    cands.add(g.path)
        for path in sorted(cands):
            g = facts.fn(path)
            wl = [l for l, t in g.calls() if (t.get('callee') or '') in done or (t.get('resolved') or '') in done]
            oks = [loc for loc, s in g.assigns() if s['lhs']['l'] == 0 and not s['lhs']['p'] and s['rv']['k'] == 'agg' and s['rv'].get('variant') == 'Ok']
            if oks:
                good = all(g.forward_paths_hit([], [o], blockers=wl, arm_at=Loc(0, 0)) is None for o in oks)
            else:
                good = g.forward_paths_hit([Loc(0, 0)], g.returns(), blockers=wl) is None
            if good:
                done.add(path)
                changed = True
    return done


def r4b_poll_wakes(r, facts):
    """every successful return of Completions::poll (Ring::poll) has given futures blocked on queue space a
    chance: a call of wake_blocked_futures lies on every path to `Ok(())` — directly in poll, or through a
    callee all of whose (Ok-)returning paths call it"""
    f = facts.fn('io_uring::cq::Completions::poll')
    aw = always_wakes(facts)
    r.inst('functions that wake blocked futures on every (Ok) return: %s' % sorted(x.split('::')[-1] for x in aw), f.where())
    wakes = [l for l, t in f.calls() if (t.get('callee') or '') in aw or (t.get('resolved') or '') in aw]
    okret = [loc for loc, s in f.assigns() if s['lhs']['l'] == 0 and s['rv']['k'] == 'agg' and s['rv'].get('variant') == 'Ok']
    r.require(bool(okret), 'Completions::poll/ok', 'Ok return of Completions::poll not found', f.where())
    for o in okret:
        hit = f.forward_paths_hit([Loc(0, 0)], [o], blockers=wakes)
        r.inst('Ok return of Completions::poll', f.where(o))
        r.require(hit is None, 'Completions::poll/ok-without-wake', 'a Ring::poll call can return successfully without waking futures that wait for submission-queue space (it found completions already queued, or its enter timed out): with more waiters than free slots, or a kernel-thread ring, a waiter stays parked although room is available and nothing else completes', f.where(o))
    r.floor(2)


def _children(e):
    from .kernel import Expr
    for x in e[1:]:
        if isinstance(x, Expr):
            yield x
        elif isinstance(x, tuple):
            for y in x:
                if isinstance(y, Expr):
                    yield y


def _room_rule(r, f, ebp):
    is_len = lambda x: x[0] == 'proj' and fam.last_field(x) == 'submissions_len'
    is_uns = lambda x: x[0] == 'call' and x[1] == 'io_uring::Shared::unsubmitted_submissions'
    has = lambda e, pr: any(pr(x) for x in subexprs(e))

    def strip(x):
        while x[0] == 'cast':
            x = x[4]
        return x
    SUBS = ('saturating_sub', 'wrapping_sub', 'checked_sub')
    seen = set()
    found = 0

    def visit(e, where):
        """returns True when e contains the room expression; reports arithmetic with a constant wrapped around it"""
        nonlocal found
        if not (has(e, is_len) and has(e, is_uns)):
            return False
        kids = list(_children(e))
        inner = [k for k in kids if has(k, is_len) and has(k, is_uns)]
        if inner:
            for k in inner:
                visit(k, where)
            # arithmetic on the room with a literal
            arith = (e[0] == 'bin' and e[1] in ('Add', 'Sub', 'AddWithOverflow', 'SubWithOverflow', 'Shr', 'Div', 'Mul')) or \
                    (e[0] == 'call' and e[1].rsplit('::', 1)[-1] in SUBS + ('saturating_add', 'wrapping_add'))
            if arith:
                lits = [strip(k) for k in kids if k not in inner and strip(k)[0] == 'const' and isinstance(strip(k)[1], int) and not isinstance(strip(k)[1], bool) and strip(k)[1] != 0]
                if lits and str(e) not in seen:
                    seen.add(str(e))
                    r.bad('wake_blocked_futures/room', 'the room for blocked futures is computed with a constant taken off / added (%s): with a slot held back a future waiting for the only free slot is never woken' % str(e)[:140], where)
            return True
        # e is the smallest expression holding both the queue length and the unsubmitted count
        found += 1
        ok = False
        if e[0] == 'call' and e[1].rsplit('::', 1)[-1] in SUBS and len(e[2]) == 2:
            ok = is_len(strip(e[2][0])) and is_uns(strip(e[2][1]))
        elif e[0] == 'bin' and e[1] in ('Sub', 'SubWithOverflow', 'SubUnchecked'):
            ok = is_len(strip(e[2])) and is_uns(strip(e[3]))
        elif e[0] == 'bin' and e[1] in ('Eq', 'Ne', 'Lt', 'Le', 'Gt', 'Ge'):
            ok = {True} == {is_len(strip(x)) or is_uns(strip(x)) for x in (e[2], e[3])}
        elif e[0] == 'call' and e[1].startswith('std::cmp::') and len(e[2]) == 2:
            a_, b_ = [strip(x[1]) if x[0] == 'ref' else strip(x) for x in e[2]]
            ok = (is_len(a_) and is_uns(b_)) or (is_len(b_) and is_uns(a_))
        if not ok and str(e) not in seen:
            seen.add(str(e))
            r.bad('wake_blocked_futures/room', 'the room for blocked futures is not submissions_len (-) unsubmitted_submissions(): %s' % str(e)[:160], where)
        return True
    for b, blk in enumerate(f.blocks):
        if blk['cleanup']:
            continue
        t = blk['term']
        if t['k'] == 'switch':
            visit(ebp.operand(t['discr']), f.where(f.term_loc(b)))
        elif t['k'] == 'call':
            for a in t['args']:
                visit(ebp.operand(a), f.where(f.term_loc(b)))
    # .. and tested the right way round: the early exit is taken when there is *no* room; with room the wake-ups are reached
    wakes = [l for l, t in f.calls() if (t.get('callee') or '').endswith('Waker::wake') or (t.get('callee') or '').endswith('Waker::wake_by_ref')]
    for b, blk in enumerate(f.blocks):
        t = blk['term']
        if blk['cleanup'] or t['k'] != 'switch':
            continue
        e = ebp.operand(t['discr'])
        if not (e[0] == 'bin' and e[1] in ('Eq', 'Ne', 'Lt', 'Le', 'Gt', 'Ge') and has(e, is_len) and has(e, is_uns)):
            continue
        vals = {int(v): tg for v, tg in t['targets']}
        t_true, t_false = vals.get(1, t['otherwise']), vals.get(0)
        a_, b_ = strip(e[2]), strip(e[3])
        zero = lambda x: x[0] == 'const' and x[1] == 0
        no_room = None     # the edge target on which there is no room
        if e[1] in ('Eq', 'Ne') and (zero(a_) or zero(b_)):
            no_room = t_true if e[1] == 'Eq' else t_false
            room = t_false if e[1] == 'Eq' else t_true
        elif e[1] in ('Gt', 'Lt') and (zero(a_) or zero(b_)):
            # room > 0 / 0 < room
            pos = (e[1] == 'Gt' and zero(b_)) or (e[1] == 'Lt' and zero(a_))
            if pos:
                no_room, room = t_false, t_true
        elif is_len(a_) and is_uns(b_) or is_len(b_) and is_uns(a_):
            # len <= unsubmitted (no room) and its spellings
            len_left = is_len(a_)
            op = e[1] if len_left else {'Lt': 'Gt', 'Le': 'Ge', 'Gt': 'Lt', 'Ge': 'Le', 'Eq': 'Eq', 'Ne': 'Ne'}[e[1]]
            if op in ('Le', 'Eq'):
                no_room, room = t_true, t_false
            elif op in ('Gt', 'Ne'):
                no_room, room = t_false, t_true
        if no_room is None or room is None or not wakes:
            continue
        bad1 = f.forward_paths_hit([Loc(no_room, 0)], wakes) is not None
        bad2 = f.forward_paths_hit([Loc(room, 0)], wakes) is None
        r.inst('room test: wake-ups only behind the edge with room: %s' % (not (bad1 or bad2)), f.where(f.term_loc(b)))
        r.require(not (bad1 or bad2), 'wake_blocked_futures/room-polarity', 'the test of the room is the wrong way round: with free slots the function returns without waking anybody (blocked futures stay parked), without free slots it goes on', f.where(f.term_loc(b)))
    r.inst('room = submissions_len (-) unsubmitted (%d uses)' % found, f.where())
    r.require(found >= 1, 'wake_blocked_futures/room', 'no use of submissions_len (-) unsubmitted_submissions() found (unrecognised form)', f.where())


def r5_conservation(r, facts):
    f = facts.fn(WBF)
    eb = ExprBuilder(f)
    takes = [(loc, t) for loc, t in f.calls() if (t.get('callee') or '') == 'std::mem::take' and 'Vec<std::task::Waker>' in (t.get('callee_full') or '')]
    if not r.require(len(takes) == 1, 'wake_blocked_futures/take', 'expected one mem::take of the blocked list, found %d' % len(takes), f.where()):
        return
    tloc, tt = takes[0]
    rets = f.returns()
    # no Vec<Waker> dropped / cleared on normal paths
    for b, blk in enumerate(f.blocks):
        t = blk['term']
        if blk['cleanup']:
            continue
        if t['k'] == 'drop' and t['place']['ty'].replace(' ', '') in ('std::vec::Vec<std::task::Waker>',):
            r.bad('wake_blocked_futures/vec-dropped', 'a Vec<Waker> is dropped (its wakers are never woken)', f.where(f.term_loc(b)))
        if t['k'] == 'call' and (t.get('callee') or '') in ('std::vec::Vec::<T, A>::clear', 'std::vec::Vec::<T, A>::truncate', 'std::mem::forget'):
            r.bad('wake_blocked_futures/vec-cleared', 'wakers are discarded via %s' % t.get('callee'), f.where(f.term_loc(b)))
    # a Drain removes its whole range when it is dropped, consumed or not: an adaptor that stops early (`take`, `take_while`,
    # `step_by`, `skip`, `filter`, `nth`, ..) between a drain and its consumer throws the remaining wakers away
    ebp = ExprBuilder(f, multi='phi')
    for loc, t in f.calls():
        if f.blocks[loc[0]]['cleanup'] or not t['args']:
            continue
        n_ = t.get('callee') or ''
        if n_ in ('std::iter::Iterator::next', 'std::iter::Extend::extend', 'std::iter::Iterator::for_each'):
            src = ebp.operand(t['args'][-1] if n_ == 'std::iter::Extend::extend' else t['args'][0])
            drains = [x for x in subexprs(src) if x[0] == 'call' and x[1] == 'std::vec::Vec::<T, A>::drain']
            if drains:
                between = [x[1] for x in subexprs(src) if x[0] == 'call' and x[1].startswith('std::iter::Iterator::') and x[1] != 'std::iter::Iterator::next'
                           and any(y is drains[0] or y == drains[0] for y in subexprs(x))]
                lossy = [b_ for b_ in between if b_.rsplit('::', 1)[-1] in ('take', 'take_while', 'step_by', 'skip', 'skip_while', 'filter', 'filter_map', 'nth', 'map_while', 'zip')]
                r.inst('drain consumed by %s%s' % (n_.rsplit('::', 1)[-1], ' through %s' % between if between else ''), f.where(loc))
                r.require(not lossy, 'wake_blocked_futures/drain-cut-short', 'wakers are drained through %s: the Drain removes its whole range from the list but only part of it is woken or re-queued, the rest is dropped un-woken' % lossy, f.where(loc))
    # the room the function works with — the test that lets it return without waking anybody and the bound on how many are
    # woken — is the whole room: submissions_len (-) unsubmitted, nothing held back (a blocked future is owed a wake-up as
    # soon as ONE slot is free; with a reserve a queue of that size never wakes anybody)
    _room_rule(r, f, ebp)
    # after the take: re-queue (swap or extend into the field) and wake-all (into_iter loop) are unavoidable
    after = [Loc(tt['target'], 0)]
    swaps = [loc for loc, t in f.calls() if (t.get('callee') or '') in ('std::mem::swap',) and 'Vec<std::task::Waker>' in (t.get('callee_full') or '')]
    into = [loc for loc, t in f.calls() if (t.get('callee') or '').endswith('IntoIterator::into_iter') and 'Vec<std::task::Waker>' in (t.get('callee_full') or '') and 'Drain' not in (t.get('callee_full') or '')]
    r.inst('take', f.where(tloc))
    hit = f.forward_paths_hit(after, rets, blockers=into)
    r.require(hit is None and into, 'wake_blocked_futures/leftover', 'after taking the list a path returns without consuming (waking) the remaining wakers', f.where())
    # loops: from the Some edge of each Iterator::next the only way on is back to that next or through Waker::wake
    nexts = [(loc, t) for loc, t in f.calls() if (t.get('callee') or '') == 'std::iter::Iterator::next']
    wakes = [loc for loc, t in f.calls_to('std::task::Waker::wake')]
    r.require(len(nexts) >= 2 and len(wakes) >= 2, 'wake_blocked_futures/loops', 'wake loops not found (next=%d wake=%d)' % (len(nexts), len(wakes)), f.where())
    for loc, t in nexts:
        matched = [si for si in f.enum_switches('std::option::Option') if si['place']['l'] == t['dest']['l'] and not si['place']['p']]
        r.require(bool(matched), 'wake_blocked_futures/loop-unmatched', 'loop over wakers not recognised (unrecognised form)', f.where(loc))
        for si in matched:
            if True:
                se = f.variant_edge(si, 'Some')
                r.inst('loop', f.where(loc))
                hit = f.forward_paths_hit([Loc(se[1], 0)], rets + [loc], blockers=wakes)
                r.require(hit is None, 'wake_blocked_futures/item-not-woken', 'a waker taken out of the list is neither woken nor re-queued (loop exits early / skips wake)', f.where(loc))
    # the lock is not held while waking (deadlock with wait_for_submission from a waker)
    for reg in fam.guard_regions(f, 'blocked_futures'):
        for wl in wakes:
            r.require(wl not in reg['live'], 'wake_blocked_futures/wake-under-lock', 'Waker::wake is called while the blocked_futures lock is held', f.where(wl))
    r.floor(3)


def r6_recheck(r, facts):
    """register-then-recheck on the QueueFull path"""
    f = facts.fn(life.POLL_INNER)
    waits = f.calls_to(WAIT)
    if not r.require(len(waits) == 1, 'poll_inner', 'wait_for_submission call not found', f.where()):
        return
    wl, wt = waits[0]
    # functions that (transitively, 2 levels) reach unsubmitted_submissions
    def reaches_recheck(g, depth=0):
        for loc, t in g.calls():
            n = t.get('callee') or ''
            if n == UNSUB:
                return True
            if depth < 2 and n.startswith('io_uring::') and n != g.path:
                h = facts.fn_opt(n)
                if h is not None and reaches_recheck(h, depth + 1):
                    return True
        return False
    ok = False
    # (a) inside wait_for_submission after the push
    w = facts.fn(WAIT)
    pushes = [loc for loc, t in w.calls() if (t.get('callee') or '') == 'std::vec::Vec::<T, A>::push']
    for p in pushes:
        for loc, t in w.calls():
            n = t.get('callee') or ''
            if w.dominates(p, loc) and loc != p:
                h = facts.fn_opt(n)
                if n == UNSUB or (h is not None and reaches_recheck(h)):
                    # must be unavoidable
                    hit = w.forward_paths_hit([Loc(w.at(p)['target'], 0)], w.returns(), blockers=[loc])
                    if hit is None:
                        ok = True
                        r.inst('recheck in wait_for_submission via %s' % n, w.where(loc))
    # (b) in poll_inner after the wait call, before Pending is returned
    if not ok:
        after = [Loc(wt['target'], 0)]
        for loc, t in f.calls():
            n = t.get('callee') or ''
            h = facts.fn_opt(n)
            if loc in f.reachable_locs(after) and (n == UNSUB or (h is not None and reaches_recheck(h))):
                hit = f.forward_paths_hit(after, f.returns(), blockers=[loc])
                if hit is None:
                    ok = True
                    r.inst('recheck in poll_inner via %s' % n, f.where(loc))
    r.require(ok, 'poll_inner/QueueFull', 'queue space is not re-checked after the waker was registered on the QueueFull path: an enter() that freed the queue between the failed add and the registration finds no waiter, and nothing wakes this future (lost wake-up)', f.where(wl))
    if not r.instances:
        r.inst('QueueFull path', f.where(wl))
    r.floor(1)


def check(ctx):
    ctx.run('C03.R1', 'Pending => a waker was registered (store/set_waker under the lock, or wait_for_submission); set_waker/wait_for_submission bodies', r1_pending_registered)
    ctx.run('C03.R2', 'LIFE-6: submission, waker and Running published in one lock region', life.life6)
    ctx.run('C03.R3', 'hand-over: update takes the waker on the ready edge and returns Wake; process wakes it', r3_handover)
    ctx.run('C03.R4b', 'every successful Ring::poll gives queue-space waiters a wake-up chance', r4b_poll_wakes)
    ctx.run('C03.R5', 'wake_blocked_futures conserves wakers (woken or re-queued; loops exit only on exhaustion)', r5_conservation)
    ctx.run('C03.R6', 'register-then-recheck on the QueueFull path', r6_recheck)
    from . import c04
    ctx.run('C03.R7', 'QueueFull => wait_for_submission on every path before Pending (a waker kept in the operation state is never woken for queue space) (=C04.R7)', c04.r7_full_waits)
    from . import c11
    ctx.run('C03.R8', 'the blocking enter honours its timeout and wakes the kernel thread (=C11.R6): a parked poll would otherwise sleep through a wake-up', c11.r6_enter_contract)
