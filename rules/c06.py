"""C06 Dropping an operation cancels exactly it and reclaims its state exactly once."""
from .kernel import guarded_by_variant, resolve_upvars, ExprBuilder, Loc, access_path, subexprs, variant_edges, is_local
from . import families as fam
from . import life
from . import sqe

EXPLANATION = (
    "Decides on every CFG path / for every operation type: (R1) in <State as OpState>::drop the cancel request "
    "is issued only on the Running edge and carries State::user_data(self) — the same function the submit closure "
    "uses; (R2) the cancel request's encoding (ASYNC_CANCEL, addr=target user_data, user_data=CANCEL_USER_DATA, no "
    "cancel flags, CQE_SKIP_SUCCESS) by SQE flow map; (R3) exactly-once free: single Box::from_raw site, who-may-call "
    "drop_state, deferred while Running, freed by the completion handler only on the final CQE, every state-owning type "
    "routes Drop through OpState::drop (LIFE-1..4,7); (R4) resources dropped in drop_state only when status != Complete, "
    "and Complete is stored before resources are read out; (R5) ReceiveSignals::into_inner wraps self in ManuallyDrop "
    "before its single OpState::drop; (R6) cancel acknowledgements are filtered by Completion::process. "
    "The outcome of the cancel race at run time and states whose final CQE never arrives are not decided."
)
NOT_DECIDED = "which side wins the cancel race; leak-freedom when the kernel never posts the final CQE"
ASSUMPTIONS = ["the kernel posts exactly one completion without IORING_CQE_F_MORE per submission"]


def r1_cancel_on_running(r, facts):
    f = facts.fn(life.STATE_DROP)
    ves = variant_edges(f, life.STATUS, 'Running', life.status_place)
    if not r.require(len(ves) == 1, 'State::drop', 'Running test not found', f.where()):
        return
    run_edge = ves[0]['edge']
    r.require(not ves[0]['shared_with'], 'State::drop/cancel-not-running', 'the cancel path is also taken for status %s (no cancellation request must be made for operations that are not in flight)' % ves[0]['shared_with'], f.where())
    cancels = f.calls_to(life.CANCEL)
    r.require(len(cancels) == 1, 'State::drop/cancel', 'expected exactly one Submissions::cancel call in State::drop, found %d' % len(cancels), f.where())
    eb = ExprBuilder(f)
    for loc, t in cancels:
        r.inst('cancel call', f.where(loc))
        r.require(guarded_by_variant(f, ves[0], loc), 'State::drop/cancel-not-running', 'a cancel request is issued for an operation that is not running', f.where(loc))
        e = eb.operand(t['args'][1])
        ok = e[0] == 'call' and e[1] == life.USER_DATA and e[2] and e[2][0][0] == 'arg' and e[2][0][1] == 1
        r.require(ok, 'State::drop/cancel-tag', 'the cancel target is not State::user_data(self): %s' % (e,), f.where(loc))
    # on the Running edge every path issues the cancel (whenever reached) before marking Dropped
    for loc, t in cancels:
        hit = f.forward_paths_hit([Loc(run_edge[1], 0)], f.returns(), blockers=[loc])
        r.require(hit is None, 'State::drop/no-cancel', 'a path on the Running edge returns without asking the kernel to cancel', f.where(hit[0]) if hit else '')
    # the submit closure uses the same function on the same state
    c = facts.fn(life.SUBMIT_CLOSURE)
    ebc = ExprBuilder(c)
    uds = [(loc, s) for loc, s in c.assigns() if [p.get('name') for p in s['lhs']['p'] if p['k'] == 'field'][-1:] == ['user_data']]
    r.require(len(uds) == 1, 'submit-closure/user_data', 'expected one user_data write in the submit closure, found %d' % len(uds), c.where())
    for loc, s in uds:
        e = resolve_upvars(facts, c, ebc.rvalue(s['rv']))
        r.inst('submit user_data = %s' % (e,), c.where(loc))
        r.require(e[0] == 'call' and e[1] == life.USER_DATA, 'submit-closure/user_data', 'submission user_data is not State::user_data(state): %s' % (e,), c.where(loc))
    r.floor(2)


def r2_cancel_shape(r, facts):
    c = facts.fn('io_uring::sq::Submissions::cancel::{closure#0}')
    fm = sqe.flowmap(c, facts)
    r.inst('cancel flow map', c.where(), sqe.fm_str(fm))
    op = facts.const('io_uring::libc::IORING_OP_ASYNC_CANCEL')
    sqe.expect_const(r, fm, 'cancel', 0, op, 'opcode ASYNC_CANCEL')
    sqe.expect_const(r, fm, 'cancel', 32, facts.const('io_uring::cq::CANCEL_USER_DATA'), 'user_data CANCEL_USER_DATA')
    # addr <- the closure's captured user_data parameter
    w = fm.get(16)
    ok = w is not None and any(x[0] == 'upvar' and x[1] == 'user_data' for x in w['roots'])
    if not ok and w is not None:
        # whatever the captured variable is called (`let target = sqe_addr { addr: user_data }`): what the creating
        # function captured there must come from its user_data parameter
        from .kernel import closure_captures
        parent, caps = closure_captures(facts, c)
        byname = {n: i for i, n in sqe.upvar_names(c).items()}
        for x in w['roots']:
            if x[0] == 'upvar' and x[1] in byname and byname[x[1]] < len(caps):
                cap = caps[byname[x[1]]]
                leaves = [y for y in subexprs(cap) if y[0] in ('arg', 'call', 'local')]
                if leaves and all(y[0] == 'arg' and y[2] == 'user_data' for y in leaves):
                    ok = True
    r.require(ok, 'cancel/addr', 'addr (offset 16) does not carry the target user_data: %s' % (w,), c.where())
    # cancel_flags (offset 28) untouched == 0 -> match by user_data, one request
    r.require(28 not in fm, 'cancel/flags', 'cancel_flags are set (%s): the request may match more than one operation' % (fm.get(28),), c.where())
    r.require(4 not in fm, 'cancel/fd', 'fd is set on a cancel-by-user_data request', c.where())
    # no success CQE
    nse = c.calls_to('io_uring::sq::Submission::no_success_event')
    r.require(len(nse) == 1, 'cancel/skip-success', 'cancel does not request IOSQE_CQE_SKIP_SUCCESS', c.where())
    g = facts.fn('io_uring::sq::Submission::no_success_event')
    fmg = sqe.flowmap(g, facts, sub_param=1)
    skip = facts.const('io_uring::libc::IOSQE_CQE_SKIP_SUCCESS')
    w = fmg.get(1)
    r.inst('no_success_event flow map', g.where(), sqe.fm_str(fmg))
    r.require(w is not None and skip in w['or_consts'], 'no_success_event', 'no_success_event does not OR IOSQE_CQE_SKIP_SUCCESS into sqe.flags: %s' % (w,), g.where())
    # cancel passes its parameter through
    f = facts.fn(life.CANCEL)
    adds = f.calls_to(life.ADD)
    r.require(len(adds) == 1, 'cancel/add', 'cancel does not submit through Submissions::add', f.where())
    r.floor(2)


def r4_resources_once(r, facts):
    f = facts.fn(life.DROP_STATE)
    ves = variant_edges(f, life.STATUS, 'Complete', life.status_place)
    if not r.require(len(ves) == 1, 'drop_state', 'status test for Complete not found in drop_state', f.where()):
        return
    comp_edge = ves[0]['edge']
    aid = [(loc, t) for loc, t in f.calls() if (t.get('callee') or '').endswith('::assume_init_drop')]
    r.require(len(aid) == 1, 'drop_state/assume_init_drop', 'expected exactly one assume_init_drop of the resources, found %d' % len(aid), f.where())
    frees = [loc for loc, t in f.calls() if (t.get('callee') or '').endswith('::from_raw')]
    for loc, t in aid:
        r.inst('assume_init_drop', f.where(loc))
        ok = any(f.edge_dominates(ce, loc) for ce in ves[0]['complement'])
        if not ok:
            # the test may be turned into a flag first (`let initialised = match status { Complete => false, _ => true }`):
            # every path to the drop passes the test, and none arrives over its Complete edge (value-driven)
            sw = f.term_loc(ves[0]['si']['bb'])
            ok = f.dominates(sw, loc) and f.forward_paths_hit([Loc(comp_edge[1], 0)], [loc], blockers=[sw]) is None
        r.require(ok, 'drop_state/guard', 'resources are dropped without the status != Complete test dominating it', f.where(loc))
        hit = f.forward_paths_hit([Loc(comp_edge[1], 0)], [loc])
        r.require(hit is None, 'drop_state/double-drop', 'resources dropped although the status is Complete (they were already moved out)', f.where(loc))
        # and on the not-Complete edge the drop is never skipped
        for ce in ves[0]['complement']:
            hit = f.forward_paths_hit([Loc(ce[1], 0)], frees + f.returns(), blockers=[loc])
            r.require(hit is None, 'drop_state/leak', 'a path with status != Complete frees the box without dropping the resources', f.where())
        # the resources are dropped before the box is freed
        for fr in frees:
            r.require(not f.forward_paths_hit([Loc(f.at(fr)['target'], 0)], [loc]), 'drop_state/order', 'resources dropped after the allocation was freed', f.where(loc))
    eb = ExprBuilder(f)
    for loc, t in aid:
        ap = access_path(eb.operand(t['args'][0]))
        r.require(ap is not None and ap[1].endswith('tail.resources'), 'drop_state/target', 'assume_init_drop is not applied to data.tail.resources', f.where(loc))
    r.floor(1)


def r5_into_inner(r, facts):
    f = facts.fn('process::ReceiveSignals::into_inner')
    eb = ExprBuilder(f)
    md = [(loc, t) for loc, t in f.calls() if (t.get('callee') or '') == 'std::mem::ManuallyDrop::<T>::new']
    calls = [(loc, t) for loc, t in f.calls() if t.get('callee') == life.OPSTATE_DROP_TRAIT]
    r.require(len(calls) == 1, 'into_inner/drop', 'expected exactly one OpState::drop in into_inner, found %d' % len(calls), f.where())
    ok = False
    for loc, t in md:
        e = eb.operand(t['args'][0])
        if e[0] == 'arg' and e[1] == 1:
            ok = True
            for l2, t2 in calls:
                r.require(f.dominates(loc, l2), 'into_inner/manually-drop', 'OpState::drop happens before self is wrapped in ManuallyDrop', f.where(l2))
    r.inst('ManuallyDrop::new(self)', f.where(md[0][0]) if md else '')
    r.require(ok, 'into_inner/manually-drop', 'self is not wrapped in ManuallyDrop (the Drop impl would cancel/free a second time)', f.where())
    # no Drop terminator for a ReceiveSignals-typed place on normal paths
    for b, blk in enumerate(f.blocks):
        t = blk['term']
        if not blk['cleanup'] and t['k'] == 'drop' and t['place']['ty'] in ('process::ReceiveSignals',):
            r.bad('into_inner/drop-glue', 'ReceiveSignals is dropped by glue inside into_inner', f.where(f.term_loc(b)))
    d = facts.fn('<process::ReceiveSignals as std::ops::Drop>::drop')
    n = len([1 for loc, t in d.calls() if t.get('callee') == life.OPSTATE_DROP_TRAIT])
    r.inst('ReceiveSignals::drop calls OpState::drop %d time(s)' % n, d.where())
    r.require(n == 1, 'ReceiveSignals::drop', 'Drop of ReceiveSignals calls OpState::drop %d times' % n, d.where())
    r.floor(2)


def check(ctx):
    from . import c05
    ctx.run('C06.R1', 'cancel only on the Running edge, target = State::user_data(self) (same function as the submit closure)', r1_cancel_on_running)
    ctx.run('C06.R2', 'cancel request shape vs ABI (ASYNC_CANCEL, addr=target, CANCEL_USER_DATA, no flags, skip success)', r2_cancel_shape)
    ctx.run('C06.R3a', 'LIFE-1 single deallocation site of the operation state', life.life1)
    ctx.run('C06.R3b', 'LIFE-2 who may free: drop_state referenced only from <State as OpState>::drop', life.life2)
    ctx.run('C06.R3c', 'LIFE-3 drop defers while Running, frees directly otherwise, exactly once', life.life3)
    ctx.run('C06.R3d', 'LIFE-4 handler frees / marks Done only on the final completion (no F_MORE)', life.life4)
    ctx.run('C06.R3e', 'LIFE-7 every state-owning type routes Drop through OpState::drop exactly once', life.life7)
    ctx.run('C06.R4', 'resources dropped exactly once: assume_init_drop iff status != Complete; Complete stored before read-out (LIFE-5)', r4_resources_once)
    ctx.run('C06.R4b', 'LIFE-5 resource access discipline in poll_inner', life.life5)
    ctx.run('C06.R5', 'ReceiveSignals::into_inner: ManuallyDrop before its single OpState::drop', r5_into_inner)
    ctx.run('C06.R6', 'cancel acknowledgements (CANCEL_USER_DATA) filtered before any pointer is formed (C05.R4)', lambda r, facts: c05.r4_filter_first(r, facts, only={facts.const('io_uring::cq::CANCEL_USER_DATA')}))
    from . import c12
    ctx.run('C06.R9', 'dropping the Ring reclaims abandoned operations: teardown always flushes, cancels and reaps (no early exit because the queues look empty) (=C12.R4)', c12.r4_ring_teardown)
