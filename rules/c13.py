"""C13 Each operation equals its POSIX call for all arguments and descriptor kinds."""
import json
import os
import re

from .kernel import (specialise_value, E, bool_call_switches, ExprBuilder, Loc, access_path, subexprs, variant_edges, is_local, AnchorMissing)
from . import families as fam
from . import life
from . import sqe
from . import addr
from . import api

HERE = os.path.dirname(os.path.dirname(os.path.abspath(__file__)))

EXPLANATION = (
    'Decides the request/response *encoding* of every operation as a dataflow statement (so for all argument '
    'values): (R1) end-to-end flow map — public API parameter -> constructor/builder -> resources/args '
    'component -> fill_submission -> SQE byte position — must equal the row of abi/sqe_table.json (written '
    'from io_uring_enter(2), positions are byte offsets so union-arm names do not matter), and every public '
    'parameter must reach the SQE unless listed as control-only; (R2) opcode/flag numbers in '
    'src/io_uring/libc.rs agree with <linux/io_uring.h>; (R3) each builder method writes one component '
    'obtained through args_mut()/resources_mut() from its parameter, and those accessors return Some only on '
    'the NotStarted edge; (R4) the submit closure applies OpTarget::set_flags after fill_submission and '
    '<AsyncFd as OpTarget>::set_flags marks IOSQE_FIXED_FILE iff the descriptor is Direct; (R4b) '
    "IOSQE_FIXED_FILE qualifies position 4 only: whenever the AsyncFd's own descriptor is placed elsewhere "
    '(splice_fd_in) the operation must mark that position itself — known finding K6 for splice_to; (R5) '
    'decoders take the count / buffer id from the OpReturn of this completion; (R6/R7) OpenOptions flag '
    'constants per builder, the access-mode builders decided per access mode by a bit-mask transfer function '
    '(determined bits must be exactly O_ACCMODE with the mode open(2) prescribes), and socket-option constants; (R8) returned socket addresses are decoded field by field the way they are '
    'encoded (C16.R1); (R9/R9b) returned metadata: accessor <-> statx field table, signed statx timestamps '
    'converted without losing the sign, FileType/Permissions/MetadataInterest bits vs <linux/stat.h>. That the '
    'kernel executes a request like the system call would is not decided.'
    ' (R5) the initialisation obligation is owed by every decoder of an operation generic over BufMut/BufMutSlice, whether or not a set_init call is present.'
)
NOT_DECIDED = "kernel-side semantics of each request; value conversions (timestamps etc.) for all inputs"
ASSUMPTIONS = ["abi/sqe_table.json transcribes io_uring_enter(2) correctly", "/usr/include/linux/io_uring.h matches the targeted kernel ABI for opcodes <= 48"]

TABLE = os.path.join(HERE, 'abi', 'sqe_table.json')
HEADER = '/usr/include/linux/io_uring.h'


def find_api(apis, op):
    """API of an operation type; generic instantiations (ToDirectOp<M> vs ToDirectOp<Signals>) are merged,
    deterministically"""
    base = op.split('<')[0]
    a = api.OpApi(op)
    for k in sorted(apis):
        if k == op or k.split('<')[0] == base:
            a.ctors += apis[k].ctors
            a.builders += apis[k].builders
    a.ctors.sort(key=lambda c: (c[0].path, c[1]))
    a.builders.sort(key=lambda b: (b[0].path, b[1], b[2]))
    return a


def available_labels(a):
    avail = set()
    for cf, loc, res, args in a.ctors:
        for e in (res, args):
            avail |= {l for l in api.labels_of_value(cf, e) if l.startswith('p:')}
    for bf, role, path, val, loc in a.builders:
        for l in api.labels_of_value(bf, val):
            if l.startswith('p:'):
                avail.add('b:%s.%s' % (api.short_method(bf.path), l[2:]))
    return avail


def r1_flow_vs_abi(r, facts):
    table = json.load(open(TABLE))['ops']
    apis = api.op_apis(facts)
    seen = set()
    for tr, i, f, roles in addr.fill_impls(facts):
        op = i['self']
        key = '%s:%s' % (tr.rsplit('::', 1)[1], op)
        if key in seen:
            continue
        seen.add(key)
        row = table.get(key)
        if not r.require(row is not None, key, 'operation %s has no row in abi/sqe_table.json (new operation: add its ABI row)' % key, f.where()):
            continue
        a = find_api(apis, op)
        r.require(bool(a.ctors), key + '/ctor', 'no public constructor found for %s' % op, f.where())
        pos = api.fill_labels(facts, f, roles, a)
        got = {str(off): sorted(l for l in d['labels'] if not l.startswith('k:')) for off, d in pos.items()}
        r.inst(key, f.where(), ' '.join('@%s=%s' % (k, ','.join(v)) for k, v in sorted(got.items(), key=lambda kv: int(kv[0]))))
        # path coverage: under which enum-match arms a position is written ([] = on every path)
        when = {}
        for off, d in pos.items():
            cs = []
            uncond = False
            for w in d['writes']:
                c = sorted({'%s::%s' % (x[0].split('::')[-1] if x[0] else '?', x[1]) for x in w.conds if x[0] and not x[0].startswith(('std::option::', 'std::result::', 'std::ops::'))})
                if not c:
                    uncond = True
                cs.append(c)
            when[str(off)] = [] if uncond else sorted({tuple(c) for c in cs})
            when[str(off)] = [list(x) for x in when[str(off)]]
        want_when = row.get('when', {})
        for off in sorted(set(when) | set(want_when), key=int):
            if when.get(off, []) != want_when.get(off, []):
                where = pos[int(off)]['writes'][0].where if int(off) in pos else f.where()
                r.bad('%s/@%s/paths' % (key, off), 'SQE position %s (%s) is written under %s, the ABI row expects %s (on some paths the request is sent without this argument)' % (
                    off, sqe.POS_NAMES.get(int(off), '?'), when.get(off, []) or 'every path', want_when.get(off, []) or 'every path'), where)
        for off in sorted(set(got) | set(row['positions']), key=int):
            g, w = got.get(off), row['positions'].get(off)
            if g != w:
                where = pos[int(off)]['writes'][0].where if int(off) in pos else f.where()
                r.bad('%s/@%s' % (key, off), 'SQE position %s (%s) receives %s, the ABI row expects %s' % (off, sqe.POS_NAMES.get(int(off), '?'), g, w), where)
        used = set()
        for v in got.values():
            used |= set(v)
        unused = sorted(available_labels(a) - used)
        r.require(unused == row.get('not_in_sqe', []), key + '/unused', 'public parameters that never reach the request: %s (expected only %s)' % (unused, row.get('not_in_sqe', [])), f.where())
    for key in table:
        r.require(key in seen, key + '/missing', 'operation %s listed in the ABI table no longer exists (anchor changed)' % key)
    r.floor(40, 'operations')


def parse_header():
    vals = {}
    txt = open(HEADER).read()
    txt = re.sub(r'/\*.*?\*/', '', txt, flags=re.S)
    # enums
    for m in re.finditer(r'enum\s*(\w*)\s*\{(.*?)\}', txt, flags=re.S):
        cur = -1
        for item in m.group(2).split(','):
            item = item.strip()
            if not item:
                continue
            mm = re.match(r'^(\w+)\s*=\s*(.+)$', item, flags=re.S)
            if mm:
                v = _ev(mm.group(2).strip(), vals)
                if v is None:
                    continue
                cur = v
                vals[mm.group(1)] = cur
            else:
                mm = re.match(r'^(\w+)$', item)
                if mm:
                    cur += 1
                    vals[mm.group(1)] = cur
    for m in re.finditer(r'^#define\s+(\w+)\s+(.+)$', txt, flags=re.M):
        v = _ev(m.group(2).strip(), vals)
        if v is not None:
            vals[m.group(1)] = v
    return vals


def _ev(s, vals):
    s = s.strip()
    s = re.sub(r'\b(0x[0-9a-fA-F]+|\d+)(ULL|UL|U|LL|L)\b', r'\1', s)
    if re.fullmatch(r'[\w\s()<|~+\-x0-9a-fA-F]+', s) is None:
        return None
    names = re.findall(r'[A-Za-z_]\w*', s)
    env = {}
    for n in names:
        if n.startswith('0x'):
            continue
        if n not in vals:
            return None
        env[n] = vals[n]
    try:
        v = eval(s, {'__builtins__': {}}, env)
    except Exception:
        return None
    if isinstance(v, int):
        return v & 0xffffffffffffffff if v < 0 else v
    return None


def r2_constants(r, facts):
    hv = parse_header()
    n = 0
    for path, c in facts.consts.items():
        if not path.startswith('io_uring::libc::') or 'val' not in c:
            continue
        name = path.rsplit('::', 1)[1]
        if name in hv and not name.endswith('_LAST'):
            n += 1
            got = int(c['bits']) if 'bits' in c else int(c['val'])
            want = hv[name]
            width = 64
            if (got & ((1 << width) - 1)) != (want & ((1 << width) - 1)) and (got & 0xffffffff) != (want & 0xffffffff):
                r.bad('const:' + name, '%s = %d in src/io_uring/libc.rs but %d in <linux/io_uring.h>' % (name, got, want), '%s:%s' % (c['span']['file'], c['span']['line']))
            if n <= 12 or name.startswith('IORING_OP_'):
                r.inst('%s=%d' % (name, got))
    # opcodes beyond the header: carried by DESIGN Appendix A
    extra = {'IORING_OP_READ_MULTISHOT': 49, 'IORING_OP_WAITID': 50, 'IORING_OP_FIXED_FD_INSTALL': 54, 'IORING_OP_FTRUNCATE': 55,
             'IORING_OP_BIND': 56, 'IORING_OP_LISTEN': 57, 'IORING_OP_PIPE': 62}
    for name, want in extra.items():
        if name in hv:
            continue
        c = facts.consts.get('io_uring::libc::' + name)
        if r.require(c is not None and 'val' in c, 'const:' + name, 'constant %s not found' % name):
            n += 1
            r.inst('%s=%s (table)' % (name, c['val']))
            r.require(int(c['val']) == want, 'const:' + name, '%s = %s, expected %d' % (name, c['val'], want))
    r.floor(60, 'constants cross-checked')


def r3_builders(r, facts):
    # accessors guarded by NotStarted
    for name in ('args_mut', 'resources_mut'):
        f = facts.fn('<io_uring::op::State<T, R, A> as op::OpState>::%s' % name)
        ves = variant_edges(f, life.STATUS, 'NotStarted', life.status_place)
        if not r.require(len(ves) == 1, 'State::%s' % name, 'status test for NotStarted not found', f.where()):
            continue
        e = ves[0]['edge']
        somes = [loc for loc, s in f.assigns() if s['lhs']['l'] == 0 and s['rv']['k'] == 'agg' and s['rv'].get('variant') == 'Some']
        r.inst('State::%s returns Some only when NotStarted' % name, f.where())
        r.require(len(somes) >= 1, 'State::%s' % name, 'never returns Some', f.where())
        for s in somes:
            r.require(f.edge_dominates(e, s), 'State::%s/unguarded' % name, '%s hands out mutable access to the arguments of a started operation (the kernel may already have read them)' % name, f.where(s))
    fut = api.futures_of_ops(facts)
    blds = api.builders(facts, fut)
    n = 0
    for op, lst in sorted(blds.items()):
        by_fn = {}
        for f, role, path, val, loc in lst:
            by_fn.setdefault(f.path, []).append((f, role, path, val, loc))
        for fp, ws in by_fn.items():
            f = ws[0][0]
            n += 1
            r.inst('%s writes %s' % (fp, [(w[1], w[2]) for w in ws]), f.where())
            for _, role, path, val, loc in ws:
                roots = sqe.roots_of(f, val)
                ok = any(rt[0] == 'param' and rt[1] != 'self' for rt in roots) or all(rt[0] == 'const' for rt in roots)
                r.require(ok, 'builder:%s' % fp, 'builder writes a value not derived from its parameter: %s' % (val,), f.where(loc))
            r.require(len({(w[1], w[2]) for w in ws}) == len(ws), 'builder:%s/dup' % fp, 'builder writes the same component twice', f.where())
    r.floor(20, 'builder methods')


def _labels_for_operand(g, loc, op):
    """per-variant constants of a whole-local operand used at loc (api.match_labels works on `x = use local` statements)"""
    from .kernel import place_key, def_expr
    eb = ExprBuilder(g, multi='phi')
    out = set()
    for dl, s_ in g.assigns():
        r2 = s_['rv']
        if r2['k'] == 'discr' and r2.get('variants') and len(r2['variants']) > 1 and (r2.get('adt') or '').endswith('Kind'):
            key = r2['place']['l'] if not r2['place']['p'] else place_key(r2['place'])
            for vidx, vname in r2['variants']:
                defs = g.reaching_defs([dl], loc, op['l'], env0={('D', key): int(vidx)})
                vals = set()
                for d in defs:
                    e = def_expr(g, d, eb) if d != 'entry' else None
                    cs = [x for x in subexprs(e)] if e is not None else []
                    cs = [x for x in cs if x[0] == 'const']
                    if len(cs) == 1:
                        nm = cs[0][2]
                        vals.add(str(nm).rsplit('::', 1)[1] if nm is not None and '::' in str(nm) else str(cs[0][1]))
                    else:
                        vals.add(None)
                if len(vals) == 1 and None not in vals:
                    out.add('m:%s=%s' % (vname, next(iter(vals))))
    return out


def r4_fixed_file(r, facts):
    f = facts.fn('<fd::AsyncFd as io_uring::op::OpTarget>::set_flags')
    eb = ExprBuilder(f, multi='phi')
    # by effect, through whatever helper: the only write of set_flags ORs IOSQE_FIXED_FILE into sqe.flags, on the
    # Direct arm of a match on self.kind() (Kind::use_flags today; the same written out in set_flags is equivalent)
    kinds = [(loc, t) for loc, t in f.calls() if (t.get('callee') or '') == 'fd::AsyncFd::kind']
    made = [loc for loc, s_ in f.assigns() if s_['rv']['k'] == 'agg' and s_['rv'].get('adt') == 'fd::Kind']
    if r.require(len(kinds) == 1 and not made, 'AsyncFd::set_flags', 'set_flags does not decide on self.kind() (kind() calls: %d, kinds built locally: %d)' % (len(kinds), len(made)), f.where()):
        e = eb.operand(kinds[0][1]['args'][0])
        r.inst('set_flags decides on kind(%s)' % (e,), f.where(kinds[0][0]))
        r.require(e[0] == 'arg' and e[1] == 1, 'AsyncFd::set_flags', 'the kind tested is not that of the descriptor the request is for: %s' % (e,), f.where(kinds[0][0]))
    ws = sqe.collect_writes(f, facts, sub_param=2)
    fixed = facts.const('io_uring::libc::IOSQE_FIXED_FILE')
    ok = len(ws) == 1 and ws[0].off == 1 and ws[0].or_const is not None and any(rt[0] == 'const' and rt[1] == fixed for rt in ws[0].roots) \
        and len(ws[0].conds) == 1 and ws[0].conds[0][1] == 'Direct' and ws[0].conds[0][0].endswith('fd::Kind')
    if not ok and len(ws) == 1 and ws[0].off == 1 and ws[0].or_const is not None:
        # `flags |= match kind { File => 0, Direct => IOSQE_FIXED_FILE }`: an unconditional OR of a per-variant value —
        # OR-ing 0 changes nothing, so this is the same effect
        for g2 in [f] + [facts.fn_opt(t.get('resolved') or t.get('callee') or '') for _, t in f.calls()]:
            if g2 is None:
                continue
            for loc2, s2 in g2.assigns():
                fl2 = [p_ for p_ in s2['lhs']['p'] if p_['k'] == 'field']
                if fl2 and fl2[-1].get('name') == 'flags' and s2['rv']['k'] == 'bin' and s2['rv']['op'] == 'BitOr':
                    for o_ in (s2['rv']['a'], s2['rv']['b']):
                        if 'l' in o_ and not o_['p']:
                            labs = _labels_for_operand(g2, loc2, o_)
                            if labs == {'m:File=0', 'm:Direct=IOSQE_FIXED_FILE'}:
                                ok = True
    r.inst('set_flags: %s' % ws, f.where())
    r.require(ok, 'Kind::use_flags', 'set_flags does not OR IOSQE_FIXED_FILE into sqe.flags exactly on the Direct arm: %s' % ws, f.where())
    # a queue target sets nothing: its own set_flags, or the trait's provided default when it has none
    s = facts.fn_opt('<SubmissionQueue as io_uring::op::OpTarget>::set_flags') or facts.fn('io_uring::op::OpTarget::set_flags')
    r.require(not sqe.collect_writes(s, facts, sub_param=2), 'SubmissionQueue::set_flags', 'set_flags of a queue target writes to the submission', s.where())
    # every closure of poll_inner that fills a submission (a second submit site, e.g. a "resubmit straight away" path,
    # included) applies the target's flags afterwards
    for c2 in facts.func_list:
        if c2.kind == 'closure' and c2.path.startswith(life.POLL_INNER + '::{closure') and c2.path != life.SUBMIT_CLOSURE:
            fills2 = [(loc, t) for loc, t in c2.calls() if t.get('callee_trait') == 'std::ops::Fn']
            setf2 = [(loc, t) for loc, t in c2.calls() if (t.get('callee') or '').endswith('OpTarget::set_flags')]
            if fills2:
                r.inst('further submit closure %s' % c2.path, c2.where())
                ok2 = len(setf2) == 1 and c2.dominates(fills2[0][0], setf2[0][0]) and c2.forward_paths_hit([Loc(0, 0)], c2.returns(), blockers=[setf2[0][0]]) is None
                r.require(ok2, 'submit-closure/other:%s' % c2.path.rsplit('::', 1)[-1], 'a second submit site fills a submission without applying OpTarget::set_flags: a request re-issued there loses IOSQE_FIXED_FILE and addresses the regular descriptor with the same number', c2.where())
    c = facts.fn(life.SUBMIT_CLOSURE)
    fills = [(loc, t) for loc, t in c.calls() if t.get('callee_trait') == 'std::ops::Fn']
    setf = [(loc, t) for loc, t in c.calls() if (t.get('callee') or '').endswith('OpTarget::set_flags')]
    if r.require(len(fills) == 1 and len(setf) == 1, 'submit-closure', 'fill/set_flags not found', c.where()):
        r.inst('set_flags after fill_submission', c.where(setf[0][0]))
        r.require(c.dominates(fills[0][0], setf[0][0]), 'submit-closure/order', 'set_flags runs before fill_submission (a fill that assigns sqe.flags would clear FIXED_FILE)', c.where(setf[0][0]))
        hit = c.forward_paths_hit([Loc(0, 0)], c.returns(), blockers=[setf[0][0]])
        r.require(hit is None, 'submit-closure/skipped', 'a path through the submit closure skips set_flags', c.where())
    # no fill_submission assigns (rather than ORs) sqe.flags
    for tr, i, ff, roles in addr.fill_impls(facts):
        for w in sqe.collect_writes(ff, facts, sub_param=roles['submission']):
            if w.off == 1 and w.or_const is None:
                r.bad('flags-assigned:%s' % i['self'], 'fill_submission assigns sqe.flags instead of OR-ing into it', w.where)
    r.floor(3)


def fd_alternatives(f, facts, roles):
    """For a fill_submission: list of alternatives {cond, pos4: expr, others: {off: expr}} where the
    descriptor positions are resolved per definition of a multi-def (match-assigned) local."""
    ws = sqe.collect_writes(f, facts, sub_param=roles['submission'])
    eb_leaf = ExprBuilder(f, multi='leaf')
    fdpos = {}
    for loc, s in f.assigns():
        pass
    out = []
    # locate writes at descriptor positions 4 and 44 with their leaf expressions
    leaf = {}
    for w in ws:
        if w.off in (4, 44):
            s = f.at(w.loc) if not f.is_term(w.loc) else None
            if s is not None and s['k'] == 'assign':
                rv = s['rv']
                if rv['k'] == 'agg' and rv.get('union'):
                    leaf[w.off] = eb_leaf.operand(rv['ops'][0])
                else:
                    leaf[w.off] = eb_leaf.rvalue(rv)
    # find multi-def locals feeding them
    multi = set()
    for off, e in leaf.items():
        for x in subexprs(e):
            if x[0] == 'local':
                multi.add(x[1])
    # operations that choose descriptor positions by an enum argument (SpliceDirection): one alternative per variant,
    # computed on feasible paths (so `match dir {..}`, `matches!` kept in a flag, or two separate `if`s agree)
    from .kernel import place_key
    discrs = []
    for loc, s_ in f.assigns():
        rv = s_['rv']
        if rv['k'] == 'discr' and rv.get('variants') and len(rv['variants']) > 1 and (rv.get('adt') or '').startswith(('io::', 'net::', 'fs::', 'process::', 'mem::')):
            key = rv['place']['l'] if not rv['place']['p'] else place_key(rv['place'])
            if key not in [d[0] for d in discrs]:
                discrs.append((key, rv['adt'], rv['variants'], loc))
    if len(discrs) == 1 and leaf and multi:
        key, adt, variants, dloc = discrs[0]
        alts = []
        for vidx, vname in variants:
            pos = {}
            for w in ws:
                if w.off not in (4, 44) or f.is_term(w.loc):
                    continue
                st = f.at(w.loc)
                rv = st['rv']
                opnd = rv['ops'][0] if (rv['k'] == 'agg' and rv.get('union')) else (rv.get('op') if rv['k'] == 'use' else None)
                if opnd is None or 'l' not in opnd or opnd['p']:
                    pos[w.off] = leaf.get(w.off)
                    continue
                # (from the first read of the discriminant on: the reference it is read through is set up before)
                defs = f.reaching_defs([dloc], w.loc, opnd['l'], env0={('D', key): int(vidx)})
                exprs = []
                for d in defs:
                    if d == 'entry':
                        continue
                    exprs.append(ebp_def(f, d))
                if len(exprs) == 1:
                    pos[w.off] = exprs[0]
                elif exprs:
                    pos[w.off] = E('phi', tuple(exprs))
                else:
                    pos[w.off] = leaf.get(w.off)
            alts.append({'cond': ((adt, vname),), 'pos': pos})
        return alts
    if not multi and leaf:
        return [{'cond': (), 'pos': {off: e for off, e in leaf.items()}}]
    alts = []
    if not leaf:
        # descriptor written by a helper that receives the submission: use the mapped roots
        pos = {}
        for w in ws:
            if w.off in (4, 44):
                pos[w.off] = E_roots(w)
        return [{'cond': (), 'pos': pos}]
    m = sorted(multi)[0]
    ebp = ExprBuilder(f, multi='phi')
    for loc, kind, payload in f.defs.get(m, []):
        if f.blocks[loc[0]]['cleanup']:
            continue
        val = ebp.definition((loc, kind, payload), 0, (m,))
        conds = sqe.dominating_variants(f, loc)
        pos = {}
        for off, e in leaf.items():
            pos[off] = _subst_local(e, m, val)
        alts.append({'cond': tuple(conds), 'pos': pos})
    return alts


def ebp_def(f, d):
    from .kernel import def_expr
    return def_expr(f, d)


def E_roots(w):
    from .kernel import E
    calls = tuple(E('call', rt[1], (), None) for rt in w.roots if rt[0] == 'call')
    return E('agg', 'roots', (), calls)


def _subst_local(e, n, val):
    from .kernel import simplify_proj, E
    k = e[0]
    if k == 'local' and e[1] == n:
        return val
    if k == 'proj':
        base = _subst_local(e[1], n, val)
        return simplify_proj(base, e[2], e[3] if len(e) > 3 else None)
    if k == 'cast':
        return E('cast', e[1], e[2], e[3], _subst_local(e[4], n, val))
    if k == 'call':
        return E('call', e[1], tuple(_subst_local(a, n, val) for a in e[2]), *e[3:])
    if k == 'agg':
        return E('agg', e[1], e[2], tuple(_subst_local(a, n, val) for a in e[3]))
    return e


def r4b_fd_position(r, facts):
    n = 0
    for tr, i, f, roles in addr.fill_impls(facts):
        if 'fd' not in roles:
            continue
        op = i['self']
        name = op.split('::')[-1].split('<')[0]
        uses_fd = any((t.get('callee') or '') == 'fd::AsyncFd::fd' for loc, t in f.calls())
        if not uses_fd:
            continue
        n += 1
        alts = fd_alternatives(f, facts, roles)
        for a in alts:
            own = lambda e: any(x[0] == 'call' and x[1] == 'fd::AsyncFd::fd' for x in subexprs(e))
            p4 = a['pos'].get(4)
            cond = ','.join(c[1] for c in a['cond'] if c[0] and 'Direction' in c[0]) or ','.join(c[1] for c in a['cond']) or '-'
            if p4 is not None and own(p4):
                r.inst('%s [%s]: own descriptor at position 4' % (name, cond), f.where())
                continue
            elsewhere = [off for off, e in a['pos'].items() if off != 4 and own(e)]
            r.inst('%s [%s]: own descriptor at %s, position 4 = %s' % (name, cond, elsewhere, p4), f.where())
            # the operation must then mark the other position itself, from fd.kind()
            marks = any((t.get('callee') or '') in ('fd::AsyncFd::kind',) for loc, t in f.calls())
            r.require(bool(elsewhere) and marks, '%s/%s' % (name, cond),
                      'the AsyncFd\'s own descriptor is placed at SQE position %s while IOSQE_FIXED_FILE (set from this AsyncFd\'s kind) qualifies position 4 (%s): for a direct descriptor the request names two wrong files' % (elsewhere, p4), f.where())
    r.floor(25, 'descriptor-using fill_submission impls')


def r5_decoders(r, facts):
    n = 0
    decoder_paths = set()
    for tr, meth in (('io_uring::op::Op', 'map_ok'), ('io_uring::op::FdOp', 'map_ok'), ('io_uring::op::FdIter', 'map_next'),
                     ('io_uring::op::OpExtract', 'map_ok_extract'), ('io_uring::op::FdOpExtract', 'map_ok_extract')):
        for i, f in facts.impl_fns(tr, meth):
            decoder_paths.add(f.path)
    for tr, meth in (('io_uring::op::Op', 'map_ok'), ('io_uring::op::FdOp', 'map_ok'), ('io_uring::op::FdIter', 'map_next'),
                     ('io_uring::op::OpExtract', 'map_ok_extract'), ('io_uring::op::FdOpExtract', 'map_ok_extract')):
        for i, f in facts.impl_fns(tr, meth):
            eb = ExprBuilder(f, multi='phi')
            for loc, t in f.calls():
                c = t.get('callee') or ''
                short = c.rsplit('::', 1)[-1]
                if short in ('set_init',) and (t.get('callee_trait') or '').startswith('io::traits::BufMut'):
                    e = eb.operand(t['args'][1])
                    ok = _from_op_return(f, e, '1')
                    n += 1
                    r.inst('%s: set_init(%s)' % (i['self'], e), f.where(loc))
                    r.require(ok, 'decoder:%s/set_init' % i['self'], 'bytes marked initialised do not come from this completion\'s result: %s' % (e,), f.where(loc))
                if short in ('buffer_init', 'new_buffer'):
                    ide, ne = eb.operand(t['args'][1]), eb.operand(t['args'][2])
                    okid = any(x[0] == 'call' and x[1] == 'io_uring::op::CompletionFlags::buf_id' for x in subexprs(ide)) and _from_op_return(f, ide, '0')
                    okn = _from_op_return(f, ne, '1')
                    n += 1
                    r.inst('%s: %s(id=%s.., n=%s)' % (i['self'], short, str(ide)[:50], ne), f.where(loc))
                    r.require(okid, 'decoder:%s/%s-id' % (i['self'], short), 'pool buffer id does not come from this completion\'s flags', f.where(loc))
                    r.require(okn, 'decoder:%s/%s-n' % (i['self'], short), 'pool buffer length does not come from this completion\'s result', f.where(loc))
            # a decoder that hands its completion to a sibling decoder (`RecvOp::map_ok` = `ReadOp::map_ok`) hands over what
            # it received: the sibling's verdict (set_init from the result) then holds for this one too
            for loc, t in f.calls():
                tgt = t.get('resolved') or ''
                if tgt in decoder_paths and tgt != f.path and not f.blocks[loc[0]]['cleanup']:
                    from .kernel import not_passed_through
                    bad = [x_ for x_ in not_passed_through(f, t) if x_[0] > 0]        # (the first argument is the fd / the queue)
                    n += 1
                    r.inst('%s delegates to %s' % (i['self'], tgt), f.where(loc))
                    r.require(not bad, 'decoder:%s/delegation-args' % i['self'], 'the decoder delegated to is handed %s instead of the completion this decoder received: sizes and buffer ids are decoded from something else' % ', '.join('argument %d = %s' % (i_, str(e_)[:60]) for i_, e_ in bad), f.where(loc))
            # ... and on every path: a decoder that initialises its buffer from the completion does so for every result,
            # also for n == 0 (wrappers such as the read_n / recv_n counter learn the size of the transfer from this call:
            # a skipped call leaves the previous size in place)
            inits = [loc for loc, t in f.calls() if ((t.get('callee') or '').rsplit('::', 1)[-1] == 'set_init' and (t.get('callee_trait') or '').startswith('io::traits::BufMut'))
                     or (t.get('callee') or '').rsplit('::', 1)[-1] in ('buffer_init', 'new_buffer')]
            # (decoders that hand out a fresh pool buffer have an empty buffer as their legitimate other exit)
            # (which decoders owe it: those that call it, and every decoder of an operation that is generic over a BufMut /
            # BufMutSlice buffer — deleting the only call must not make the obligation go away; a decoder that only hands its
            # completion to a sibling decoder passes the obligation on)
            owes = 'BufMut' in (str(f.j.get('preds')) + str(i.get('preds')) + str(f.j.get('generics')))
            delegates = any((t.get('resolved') or '') in decoder_paths and (t.get('resolved') or '') != f.path for loc, t in f.calls())
            if owes and not delegates and not inits:
                n += 1
                r.bad('decoder:%s/init-skipped' % i['self'], 'the decoder of an operation that reads into a caller-supplied buffer never tells the buffer how many bytes the kernel wrote (no set_init / buffer_init): the data never becomes part of the buffer', f.where())
            if (inits and any((f.at(l).get('callee') or '').rsplit('::', 1)[-1] == 'set_init' for l in inits)) or (owes and inits and not delegates):
                hit = f.forward_paths_hit([Loc(0, 0)], f.returns(), blockers=inits)
                n += 1
                r.inst('%s: every path initialises the buffer from the completion' % i['self'], f.where(inits[0]))
                r.require(hit is None, 'decoder:%s/init-skipped' % i['self'], 'a path through the decoder returns the buffer without telling it how many bytes the kernel wrote (set_init / buffer_init skipped, e.g. for a zero-byte result): counting wrappers (read_n, recv_n) keep the size of the previous transfer', f.where(hit[0]) if hit else '')
            # count-returning decoders
            rty = f.local_ty(0)
            if rty == 'usize' or re.fullmatch(r'\(\w+, usize\)', rty):
                rets = []
                for loc, s in f.assigns():
                    if s['lhs']['l'] == 0 and not s['lhs']['p']:
                        rets.append(eb.rvalue(s['rv']))
                for loc, t in f.calls():
                    if is_local(t['dest'], 0):
                        rets.append(eb.call(t))
                for e in rets:
                    val = e[3][-1] if e[0] == 'agg' and e[1] == 'tuple' else e
                    if val[0] == 'proj' and val[1][0] == 'call':
                        continue  # delegates to map_ok_extract
                    if val[0] == 'call' and val[1].endswith('map_ok_extract'):
                        continue
                    n += 1
                    r.inst('%s returns count %s' % (i['self'], val), f.where())
                    r.require(_from_op_return(f, val, '1'), 'decoder:%s/count' % i['self'], 'returned count is not the kernel result of this completion: %s' % (val,), f.where())
    r.floor(15, 'decoder obligations')


def _from_op_return(f, e, comp):
    roots = sqe.roots_of(f, e)
    ps = [rt for rt in roots if rt[0] == 'param']
    if not ps:
        return False
    for rt in ps:
        # op_return is parameter 3
        if rt[1] not in (f.local_name(3), 'arg3', '_3'):
            return False
        if rt[2].split('.')[0] != comp:
            return False
    return True


OPEN_OPTIONS = {
    'new': {'O_RDONLY'},
    'read': {'O_ACCMODE', 'O_WRONLY', 'O_RDWR'},
    'write': {'O_ACCMODE', 'O_RDONLY', 'O_RDWR'},
    'write_only': {'O_ACCMODE', 'O_WRONLY'},
    'append': {'O_APPEND'},
    'truncate': {'O_TRUNC'},
    'create': {'O_CREAT'},
    'create_new': {'O_CREAT', 'O_EXCL'},
    'data_sync': {'O_DSYNC'},
    'sync': {'O_SYNC'},
    'direct': {'O_DIRECT'},
    'open_temp_file': {'O_TMPFILE'},
}


def _flags_transfer(g, limit=200):
    """{(determined mask, value)} of the `flags` field of the OpenOptions returned by builder g, as a function of the
    flags it was called with, over every path of (the possibly specialised) g; None when something is not understood"""
    M = 0xffffffff
    results = set()
    n = [0]

    def val(env, st, op):
        if op.get('k') == 'const':
            c = g.cval(op)
            return None if c is None else c & M
        if 'l' not in op:
            return None
        if not op['p']:
            return env.get(op['l'])
        names = [p_.get('name') for p_ in op['p'] if p_['k'] == 'field']
        if len(op['p']) == 1 and names == ['flags']:
            return st.get(op['l'])
        return None

    def step(env, st, s_):
        lhs, rv = s_['lhs'], s_['rv']
        v = None
        k = rv['k']
        if k == 'use':
            if 'l' in rv['op'] and not rv['op']['p'] and rv['op']['l'] in st and not lhs['p']:
                st[lhs['l']] = st[rv['op']['l']]        # the whole struct moves
                return True
            v = val(env, st, rv['op'])
        elif k == 'bin' and rv['op'] in ('BitAnd', 'BitOr'):
            a, b = val(env, st, rv['a']), val(env, st, rv['b'])
            if a is None or b is None:
                v = None
            elif isinstance(a, int) and isinstance(b, int):
                v = (a & b) if rv['op'] == 'BitAnd' else (a | b)
            elif isinstance(a, tuple) != isinstance(b, tuple):
                fv, c = (a, b) if isinstance(a, tuple) else (b, a)
                d, x = fv
                v = ((d | (~c & M)), x & c) if rv['op'] == 'BitAnd' else ((d | c), x | c)
        elif k == 'un' and rv['op'] == 'Not':
            a = val(env, st, rv['a'])
            v = (~a & M) if isinstance(a, int) else None
        elif k == 'agg' and (rv.get('adt') or '') == 'fs::OpenOptions' and not lhs['p']:
            i = rv['fields'].index('flags')
            fv = val(env, st, rv['ops'][i])
            if not isinstance(fv, tuple):
                return False
            st[lhs['l']] = fv
            return True
        names = [p_.get('name') for p_ in lhs['p'] if p_['k'] == 'field']
        if not lhs['p']:
            if v is None:
                env.pop(lhs['l'], None)
            else:
                env[lhs['l']] = v
            return True
        if len(lhs['p']) == 1 and names == ['flags']:
            if not isinstance(v, tuple):
                return False
            st[lhs['l']] = v
            return True
        return True     # stores to other fields

    def walk(bb, env, st, depth):
        n[0] += 1
        if n[0] > limit or depth > 60:
            return False
        blk = g.blocks[bb]
        env, st = dict(env), dict(st)
        for s_ in blk['stmts']:
            if s_['k'] == 'assign' and not step(env, st, s_):
                return False
        t = blk['term']
        if t['k'] == 'return':
            if 0 not in st:
                return False
            results.add(st[0])
            return True
        if t['k'] == 'call':
            return False
        return all(walk(s2, env, st, depth + 1) for s2 in g.succ[bb])
    ok = walk(0, {}, {1: (0, 0)}, 0)
    return results if ok else None


def r6_open_options(r, facts):
    """each OpenOptions builder ORs exactly the open(2) flag(s) of its name into `flags` (table from open(2))"""
    n = 0
    for meth, want in sorted(OPEN_OPTIONS.items()):
        f = facts.fn_opt('fs::OpenOptions::' + meth)
        if not r.require(f is not None, 'OpenOptions::' + meth, 'builder method OpenOptions::%s not found' % meth):
            continue
        eb = ExprBuilder(f, multi='phi')
        got = set()
        cleared = set()
        for loc, s in f.assigns():
            names = [p.get('name') for p in s['lhs']['p'] if p['k'] == 'field']
            if names[-1:] == ['flags'] or (s['rv']['k'] == 'agg' and (s['rv'].get('adt') or '') == 'fs::OpenOptions'):
                e = eb.rvalue(s['rv'])
                for x in subexprs(e):
                    if x[0] == 'const' and x[2] and re.match(r'^libc::O_\w+$', str(x[2])):
                        got.add(str(x[2])[6:])
        # constants compared against (accmode tests) count as used
        for b, blk in enumerate(f.blocks):
            if blk['term']['k'] == 'switch' and not blk['cleanup']:
                e = eb.operand(blk['term']['discr'])
                for x in subexprs(e):
                    if x[0] == 'const' and x[2] and re.match(r'^libc::O_\w+$', str(x[2])):
                        got.add(str(x[2])[6:])
        n += 1
        r.inst('OpenOptions::%s -> %s' % (meth, sorted(got)), f.where())
        if meth in ('read', 'write', 'write_only'):
            continue    # decided by value below (a `match` on the mode leaves no constant names in the code)
        r.require(got == want, 'OpenOptions::' + meth, 'OpenOptions::%s uses open flags %s, open(2) semantics of its name need %s' % (meth, sorted(got), sorted(want)), f.where())
    # access-mode builders, by value: for each access mode the flags may hold, the bits the method determines
    # (a bit-mask transfer function over the feasible path: new = (old & !determined) | value) must be exactly the
    # access-mode bits with the mode open(2) prescribes, or nothing at all
    # (values from <asm-generic/fcntl.h>, octal there)
    fc = {}
    try:
        for m_ in re.finditer(r'^#define\s+(O_ACCMODE|O_RDONLY|O_WRONLY|O_RDWR)\s+([0-7]+)\b', open('/usr/include/asm-generic/fcntl.h').read(), flags=re.M):
            fc[m_.group(1)] = int(m_.group(2), 8)
    except OSError:
        pass
    if not r.require(len(fc) == 4, 'fcntl.h', 'access mode constants not found in /usr/include/asm-generic/fcntl.h'):
        return
    RD, WR, RW, ACC = fc['O_RDONLY'], fc['O_WRONLY'], fc['O_RDWR'], fc['O_ACCMODE']
    table = {'read': {RD: None, WR: RW, RW: None}, 'write': {RD: RW, WR: None, RW: None}, 'write_only': {RD: WR, WR: WR, RW: WR}}
    for meth in ('read', 'write', 'write_only'):
        f = facts.fn_opt('fs::OpenOptions::' + meth)
        if f is None:
            continue

        def subj(e):
            return e[0] == 'bin' and e[1] == 'BitAnd' and any(fam.last_field(y) == 'flags' for y in (e[2], e[3])) and any(y[0] == 'const' and y[1] == ACC for y in (e[2], e[3]))
        ok = True
        for v, want in sorted(table[meth].items()):
            g, decided = specialise_value(f, subj, v, ExprBuilder(f), bits=32)
            res = _flags_transfer(g)
            exp = {(0, 0)} if want is None else {(ACC, want)}
            # (storing back the mode that is already there is the same as leaving it)
            same = {(ACC, v)} if (want is None or want == v) else set()
            r.inst('OpenOptions::%s with access mode %d: determines %s' % (meth, v, sorted(res) if res is not None else None), f.where())
            if res is None or not res or not all(x in exp or x in same for x in res):
                ok = False
                r.bad('OpenOptions::%s/accmode' % meth, 'with access mode %d OpenOptions::%s determines the flag bits %s (mask, value), expected %s: the access mode is wrong or other flags are lost' % (
                    v, meth, sorted(res) if res else res, sorted(exp)), f.where())
    # mode(): writes self.mode from the parameter; default 0o666
    f = facts.fn_opt('fs::OpenOptions::mode')
    if r.require(f is not None, 'OpenOptions::mode', 'OpenOptions::mode not found'):
        eb = ExprBuilder(f, multi='phi')
        ok = False
        for loc, s in f.assigns():
            names = [p.get('name') for p in s['lhs']['p'] if p['k'] == 'field']
            if names[-1:] == ['mode']:
                e = eb.rvalue(s['rv'])
                ok = any(x[0] == 'arg' and x[2] == 'mode' for x in subexprs(e))
        r.require(ok, 'OpenOptions::mode', 'mode() does not store its parameter', f.where())
    r.floor(12, 'OpenOptions builders')


SOCKET_OPTIONS = {
    'Accept': ('SOL_SOCKET', 'SO_ACCEPTCONN'), 'Domain': ('SOL_SOCKET', 'SO_DOMAIN'), 'Error': ('SOL_SOCKET', 'SO_ERROR'),
    'IncomingCpu': ('SOL_SOCKET', 'SO_INCOMING_CPU'), 'KeepAlive': ('SOL_SOCKET', 'SO_KEEPALIVE'), 'Linger': ('SOL_SOCKET', 'SO_LINGER'),
    'Protocol': ('SOL_SOCKET', 'SO_PROTOCOL'), 'RecvBuf': ('SOL_SOCKET', 'SO_RCVBUF'), 'RecvLowWater': ('SOL_SOCKET', 'SO_RCVLOWAT'),
    'ReuseAddress': ('SOL_SOCKET', 'SO_REUSEADDR'), 'ReusePort': ('SOL_SOCKET', 'SO_REUSEPORT'), 'SendBuf': ('SOL_SOCKET', 'SO_SNDBUF'),
    'SendLowWater': ('SOL_SOCKET', 'SO_SNDLOWAT'), 'Type': ('SOL_SOCKET', 'SO_TYPE'),
    'TcpCork': ('IPPROTO_TCP', 'TCP_CORK'), 'TcpKeepAliveCount': ('IPPROTO_TCP', 'TCP_KEEPCNT'), 'TcpKeepAliveIdle': ('IPPROTO_TCP', 'TCP_KEEPIDLE'),
    'TcpKeepAliveInterval': ('IPPROTO_TCP', 'TCP_KEEPINTVL'), 'TcpNoDelay': ('IPPROTO_TCP', 'TCP_NODELAY'),
}


def header_defines(paths):
    vals = {}
    for p in paths:
        try:
            txt = open(p).read()
        except OSError:
            continue
        for m in re.finditer(r'^#define\s+(\w+)\s+(0x[0-9a-fA-F]+|\d+)\b', txt, flags=re.M):
            vals.setdefault(m.group(1), int(m.group(2), 0))
        for m in re.finditer(r'^\s*(IPPROTO_\w+)\s*=\s*(\d+)', txt, flags=re.M):
            vals.setdefault(m.group(1), int(m.group(2)))
    return vals


def r7_socket_options(r, facts):
    """each socket option type names the level/option of its socket(7)/tcp(7) counterpart (values from the system headers)"""
    hv = header_defines(['/usr/include/asm-generic/socket.h', '/usr/include/linux/tcp.h', '/usr/include/netinet/tcp.h', '/usr/include/linux/in.h'])
    seen = set()
    for path, c in sorted(facts.consts.items()):
        m = re.match(r'^<net::option::(\w+) as net::option::(Get|Set)>::(LEVEL|OPT)$', path)
        if not m:
            continue
        ty, tr, which = m.groups()
        seen.add(ty)
        row = SOCKET_OPTIONS.get(ty)
        if not r.require(row is not None, 'option:%s' % ty, 'socket option type %s has no row in the option table (new option: add it)' % ty):
            continue
        name = row[0] if which == 'LEVEL' else row[1]
        want = hv.get(name)
        if not r.require(want is not None, 'header:%s' % name, 'constant %s not found in the system headers' % name):
            continue
        got = int(c['val']) if 'val' in c else None
        r.inst('%s %s::%s = %s (%s=%d)' % (ty, tr, which, got, name, want), '%s:%s' % (c['span']['file'], c['span']['line']))
        r.require(got == want, 'option:%s/%s/%s' % (ty, tr, which), '%s as %s uses %s = %s, but %s is %d' % (ty, tr, which, got, name, want), '%s:%s' % (c['span']['file'], c['span']['line']))
    for ty in SOCKET_OPTIONS:
        r.require(ty in seen, 'option-missing:%s' % ty, 'socket option %s listed in the table no longer exists' % ty)
    r.floor(60, 'option constants')


# sys::fs accessor -> statx(2) field it must decode
STATX_FIELDS = {'filled': 'stx_mask', 'file_type': 'stx_mode', 'len': 'stx_size', 'block_size': 'stx_blksize', 'permissions': 'stx_mode',
                'modified': 'stx_mtime', 'accessed': 'stx_atime', 'created': 'stx_btime'}


def r9_metadata(r, facts):
    """returned metadata: each accessor decodes the statx(2) field of its name; statx timestamps (signed seconds,
    nanoseconds counting forward) are converted without losing the sign"""
    n = 0
    for name, field in sorted(STATX_FIELDS.items()):
        pub = facts.fn_opt('fs::Metadata::%s' % name)
        sysf = facts.fn_opt('io_uring::fs::%s' % name)
        if not r.require(pub is not None and sysf is not None, 'metadata:%s' % name, 'Metadata::%s / its sys::fs decoder not found' % name):
            continue
        fw = [t for l, t in pub.calls() if (t.get('callee') or '') == 'io_uring::fs::%s' % name]
        r.require(len(fw) == 1, 'metadata:%s' % name, 'Metadata::%s does not forward to the decoder of the same name' % name, pub.where())
        eb = ExprBuilder(sysf, multi='phi')
        fields = set()
        for loc, s_ in sysf.assigns():
            for x in subexprs(eb.rvalue(s_['rv'])):
                lf = fam.last_field(x)
                if lf and lf.startswith('stx_'):
                    fields.add(lf)
        for loc, t in sysf.calls():
            for a in t['args']:
                for x in subexprs(eb.operand(a)):
                    lf = fam.last_field(x)
                    if lf and lf.startswith('stx_'):
                        fields.add(lf)
        n += 1
        r.inst('Metadata::%s <- statx.%s' % (name, sorted(fields)), sysf.where())
        r.require(fields == {field}, 'metadata:%s' % name, 'Metadata::%s decodes statx field(s) %s, expected %s' % (name, sorted(fields), field), sysf.where())
    f = facts.fn_opt('io_uring::fs::timestamp')
    if r.require(f is not None, 'timestamp', 'statx timestamp conversion not found'):
        eb = ExprBuilder(f, multi='phi')
        # sign test: is_negative(), `tv_sec < 0`, `tv_sec >= 0`, ... -> (switch bb, target when negative, target when not)
        neg = []
        for c in bool_call_switches(f, lambda t: (t.get('callee') or '').endswith('::is_negative')):
            neg.append({'bb': c['bb'], 'true': c['true'], 'false': c['false']})
        for b, blk in enumerate(f.blocks):
            t = blk['term']
            if blk['cleanup'] or t['k'] != 'switch':
                continue
            e = eb.operand(t['discr'])
            if e[0] == 'bin' and e[1] in ('Lt', 'Ge', 'Gt', 'Le') and any(fam.last_field(x) == 'tv_sec' for x in (e[2], e[3])) and any(x[0] == 'const' and x[1] == 0 for x in (e[2], e[3])):
                sec_left = fam.last_field(e[2]) == 'tv_sec'
                vals = {int(v): tg for v, tg in t['targets']}
                t_true, t_false = vals.get(1, t['otherwise']), vals.get(0)
                # does "true" mean negative?  tv_sec < 0 / 0 > tv_sec: yes; tv_sec >= 0 / 0 <= tv_sec: no
                op = e[1] if sec_left else {'Lt': 'Gt', 'Gt': 'Lt', 'Le': 'Ge', 'Ge': 'Le'}[e[1]]
                if op == 'Lt':
                    neg.append({'bb': b, 'true': t_true, 'false': t_false})
                elif op == 'Ge':
                    neg.append({'bb': b, 'true': t_false, 'false': t_true})
        for loc, s_ in f.assigns():
            rv = s_['rv']
            if rv['k'] == 'cast' and rv.get('ck') == 'IntToInt' and rv.get('from') == 'i64' and rv.get('to') == 'u64':
                e = eb.rvalue(rv)
                if not any(fam.last_field(x) == 'tv_sec' for x in subexprs(e)):
                    continue
                guarded = any(f.edge_dominates((c['bb'], c['false']), loc) for c in neg)
                r.inst('tv_sec as u64 (guarded by a non-negative edge: %s)' % guarded, f.where(loc))
                r.require(guarded, 'timestamp/sign-lost', 'tv_sec (signed) is cast to u64 without a dominating non-negative test: a time before 1970 becomes a huge duration and `UNIX_EPOCH - dur` panics (overflow) instead of returning the time stat(2) reports', f.where(loc))
        # on the negative edge the nanoseconds count forward: they must not be part of the subtracted duration
        for loc, t in f.calls():
            if (t.get('callee') or '').startswith('<std::time::SystemTime as std::ops::Sub<std::time::Duration>>::sub'):
                d = eb.operand(t['args'][1])
                r.inst('UNIX_EPOCH - %s' % (str(d)[:80],), f.where(loc))
                r.require(not any(fam.last_field(x) == 'tv_nsec' for x in subexprs(d)), 'timestamp/nsec-subtracted', 'for times before 1970 tv_nsec is subtracted together with the seconds; statx nanoseconds always count forward from tv_sec (-1.25 s is tv_sec=-2, tv_nsec=750000000)', f.where(loc))
                r.require(any(c for c in neg if f.edge_dominates((c['bb'], c['true']), loc)), 'timestamp/sub-unguarded', 'a duration is subtracted from UNIX_EPOCH outside the negative-seconds edge', f.where(loc))
        r.require(bool(neg), 'timestamp/no-sign-test', 'statx tv_sec is signed but the conversion has no sign test (times before 1970)', f.where())
    r.floor(8)


STAT_H = '/usr/include/linux/stat.h'
FILETYPE_BITS = {'is_dir': 'S_IFDIR', 'is_file': 'S_IFREG', 'is_symlink': 'S_IFLNK', 'is_socket': 'S_IFSOCK', 'is_block_device': 'S_IFBLK',
                 'is_character_device': 'S_IFCHR', 'is_named_pipe': 'S_IFIFO'}
PERMISSION_BITS = {'owner_can_read': 'S_IRUSR', 'owner_can_write': 'S_IWUSR', 'owner_can_execute': 'S_IXUSR', 'group_can_read': 'S_IRGRP',
                   'group_can_write': 'S_IWGRP', 'group_can_execute': 'S_IXGRP', 'others_can_read': 'S_IROTH', 'others_can_write': 'S_IWOTH',
                   'others_can_execute': 'S_IXOTH'}


def _consts_in(e):
    return [x[1] for x in subexprs(e) if x[0] == 'const' and x[1] is not None]


def r9b_mode_bits(r, facts):
    """FileType / Permissions accessors test the stat(2) mode bits of their name (values from <linux/stat.h>)"""
    hv = {}
    try:
        for m in re.finditer(r'^#define\s+(S_I\w+)\s+(0[0-7]+)\s*$', open(STAT_H).read(), flags=re.M):
            hv[m.group(1)] = int(m.group(2), 8)
    except OSError:
        pass
    if not r.require(len(hv) >= 20, 'stat.h', 'could not read the S_I* constants from %s' % STAT_H):
        return
    n = 0
    for name, bit in sorted(FILETYPE_BITS.items()):
        f = facts.fn_opt('fs::FileType::%s' % name)
        if not r.require(f is not None, 'filetype:%s' % name, 'FileType::%s not found' % name):
            continue
        eb = ExprBuilder(f, multi='phi')
        es = [eb.rvalue(s_['rv']) for loc, s_ in f.assigns() if s_['lhs']['l'] == 0 and not s_['lhs']['p']]
        ok = False
        for e in es:
            if e[0] == 'bin' and e[1] == 'Eq' and e[2][0] == 'bin' and e[2][1] == 'BitAnd':
                ok = hv['S_IFMT'] in _consts_in(e[2]) and _consts_in(e[3]) == [hv[bit]]
        n += 1
        r.inst('FileType::%s == (mode & S_IFMT == %s)' % (name, bit), f.where())
        r.require(ok, 'filetype:%s' % name, 'FileType::%s is not `mode & S_IFMT == %s` (%#o): %s' % (name, bit, hv[bit], [str(e)[:100] for e in es]), f.where())
    for name, bit in sorted(PERMISSION_BITS.items()):
        f = facts.fn_opt('fs::Permissions::%s' % name)
        if not r.require(f is not None, 'permission:%s' % name, 'Permissions::%s not found' % name):
            continue
        eb = ExprBuilder(f, multi='phi')
        es = [eb.rvalue(s_['rv']) for loc, s_ in f.assigns() if s_['lhs']['l'] == 0 and not s_['lhs']['p']]
        ok = False
        for e in es:
            if e[0] == 'bin' and e[1] == 'Ne' and e[2][0] == 'bin' and e[2][1] == 'BitAnd':
                ok = _consts_in(e[2]) == [hv[bit]] and _consts_in(e[3]) == [0]
        n += 1
        r.inst('Permissions::%s tests %s' % (name, bit), f.where())
        r.require(ok, 'permission:%s' % name, 'Permissions::%s is not `mode & %s != 0` (%#o): %s' % (name, bit, hv[bit], [str(e)[:100] for e in es]), f.where())
    # statx request mask: MetadataInterest constants
    sx = {}
    for m in re.finditer(r'^#define\s+(STATX_\w+)\s+(0x[0-9a-fA-F]+)U?\b', open(STAT_H).read(), flags=re.M):
        sx[m.group(1)] = int(m.group(2), 16)
    table = {'TYPE': 'STATX_TYPE', 'MODE': 'STATX_MODE', 'ACCESSED_TIME': 'STATX_ATIME', 'MODIFIED_TIME': 'STATX_MTIME', 'SIZE': 'STATX_SIZE',
             'BLOCKS': 'STATX_BLOCKS', 'CREATED_TIME': 'STATX_BTIME'}
    k = 0
    for path, c in sorted(facts.consts.items()):
        m = re.match(r'^fs::MetadataInterest::([A-Z_]+)$', path)
        if not m or m.group(1) == 'ALL_VALUES':
            continue
        where = '%s:%s' % (c['span']['file'], c['span']['line']) if c.get('span') else ''
        row = table.get(m.group(1))
        if not r.require(row is not None, 'statx-interest:%s' % m.group(1), 'MetadataInterest::%s has no row in the statx mask table' % m.group(1), where):
            continue
        got = int(c['val']) if 'val' in c else None
        k += 1
        r.inst('MetadataInterest::%s = %s (%s = %#x)' % (m.group(1), got, row, sx.get(row, -1)), where)
        r.require(got == sx.get(row), 'statx-interest:%s' % m.group(1), 'MetadataInterest::%s requests statx mask %s but %s is %#x' % (m.group(1), got, row, sx.get(row, -1)), where)
    r.require(k >= len(table), 'statx-interest-table', 'only %d of %d MetadataInterest constants found' % (k, len(table)))
    r.floor(23)


def check(ctx):
    ctx.run('C13.R1', 'end-to-end argument placement (public parameter -> SQE byte position) vs the io_uring ABI table', r1_flow_vs_abi)
    ctx.run('C13.R2', 'opcode / flag constants vs <linux/io_uring.h>', r2_constants)
    ctx.run('C13.R3', 'builders write one component from their parameter; args_mut/resources_mut only before start', r3_builders)
    ctx.run('C13.R4', 'IOSQE_FIXED_FILE iff the AsyncFd is a direct descriptor, applied after fill_submission', r4_fixed_file)
    ctx.run('C13.R4b', 'the AsyncFd\'s own descriptor sits at SQE position 4 (the one IOSQE_FIXED_FILE qualifies)', r4b_fd_position)
    ctx.run('C13.R5', 'decoders take count / buffer id from this completion\'s OpReturn', r5_decoders)
    ctx.run('C13.R6', 'OpenOptions builders set exactly the open(2) flags of their name', r6_open_options)
    ctx.run('C13.R7', 'socket option types carry the level/option numbers of their socket(7)/tcp(7) counterpart', r7_socket_options)
    ctx.run('C13.R9', 'returned metadata: accessor <-> statx field table; signed statx timestamps converted without losing the sign', r9_metadata)
    ctx.run('C13.R9b', 'returned metadata: FileType / Permissions accessors vs the stat(2) mode bits of <linux/stat.h>', r9b_mode_bits)
    from . import c16
    ctx.run('C13.R8', 'addresses returned by accept/recv_from/local_addr/peer_addr are decoded field by field the way they are encoded (C16.R1: same fields, same byte order, constructor argument order)', c16.r1_field_agreement)
    from . import c14
    ctx.run('C13.R10', 'vectored requests carry every buffer of an array/tuple exactly once and in order (=C14.R2)', c14.r2_order_coverage)
