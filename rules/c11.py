"""C11 SubmissionQueue::wake never loses a wake-up."""
from .kernel import (ExprBuilder, Loc, access_path, bool_call_switches, subexprs, variant_edges, is_local)
from . import families as fam
from . import life
from . import sqe
from . import c10

EXPLANATION = (
    'Decides: (R1) PollingState::set_polling and ::wake each perform exactly one atomic read-modify-write '
    '(swap / fetch_or, AcqRel) and no separate load/store; the two flag constants are distinct single bits; '
    'the stored value and the returned boolean are evaluated symbolically for all 4 old states x argument '
    'values and compared with the protocol truth table (constant folding over a 2-bit domain, not execution of '
    'a10); (R2) in Completions::poll the blocking enter is dominated by set_polling(true), on its `true` '
    '(already awoken) edge the timeout is Some(Duration::ZERO), set_polling(false) follows the enter on every '
    'path before any return, including the error path, and before any completion is processed or waker run (it '
    'also clears the awoken flag), and is never reached without set_polling(true) before it; (R3) '
    'Submissions::wake: `false` from polling.wake() returns without a request; otherwise the request is '
    "MSG_RING to the ring's own fd with WAKE_USER_DATA, every path from a successful add to Ok passes through "
    'Shared::enter, and the single-issuer path uses io_uring_register(SEND_MSG_RING); (R4) wake only touches '
    'Arc<Shared>-owned state, so it is harmless after the Ring is dropped. Completeness of the two-flag '
    'handshake over all interleavings is a model-checking question and is not decided.'
    ' Also decided: (R6) Shared::enter: Some(timeout) => timespec filled from as_secs/subsec_nanos, args.ts its address, IORING_ENTER_EXT_ARG and &args passed, on every path to io_uring_enter2 (store form or one-expression form); NEED_WAKEUP set => SQ_WAKEUP; (R7 = C18.R4) mode flags read the right way round.'
)
NOT_DECIDED = "completeness of the two-flag handshake over all interleavings (model checking, outside this family)"
ASSUMPTIONS = ["a MSG_RING completion posted to the ring makes io_uring_enter(GETEVENTS) return"]

SET_POLLING = 'PollingState::set_polling'
WAKE = 'PollingState::wake'
CQ_POLL = 'io_uring::cq::Completions::poll'
SQ_WAKE = 'io_uring::sq::Submissions::wake'
ENTER = 'io_uring::Shared::enter'


def ev(e, env):
    """evaluate expression over small integers; atomics' results are env['old']"""
    k = e[0]
    if k == 'const':
        if e[1] is None:
            raise ValueError('unevaluated constant %s' % (e[2],))
        return e[1]
    if k in ('arg', 'local'):
        if e[2] in env:
            return env[e[2]]
        raise ValueError('free variable %s' % (e,))
    if k == 'cast':
        return int(ev(e[4], env))
    if k == 'call':
        if e[1].startswith('std::sync::atomic::Atomic::<u8>::'):
            return env['old']
        raise ValueError('call %s' % e[1])
    if k == 'un':
        v = ev(e[2], env)
        if e[1] == 'Not':
            return (not v) if isinstance(v, bool) else (~v) & 0xff
        raise ValueError('unop')
    if k == 'bin':
        a, b = ev(e[2], env), ev(e[3], env)
        op = e[1]
        if op == 'BitOr':
            return a | b
        if op == 'BitAnd':
            return a & b
        if op == 'BitXor':
            return a ^ b
        if op == 'Eq':
            return a == b
        if op == 'Ne':
            return a != b
        raise ValueError('binop %s' % op)
    raise ValueError('expr %s' % (e,))


def interp(f, args, old):
    """Evaluate one of the two tiny PollingState methods over its MIR for concrete argument values and a concrete
    old value of the atomic word (finite domain: 4 states x 2 arguments).  Understands integer/bool locals,
    constants, bit operations, comparisons, casts, switches and the single atomic read-modify-write (which yields
    `old` and whose operand is recorded).  Returns (return value, [(method, operand)])."""
    env = dict(args)
    ops = []

    def opv(op):
        if op.get('k') == 'const':
            v = f.cval(op)
            if v is None:
                raise ValueError('constant %s' % (op.get('text') or op.get('def')))
            return v
        if 'l' in op and not op['p']:
            if op['l'] not in env:
                raise ValueError('local _%d has no value' % op['l'])
            return env[op['l']]
        raise ValueError('operand %s' % (op,))

    def rv(x):
        k = x['k']
        if k == 'use':
            return opv(x['op'])
        if k == 'cast':
            return int(opv(x['op']))
        if k == 'bin':
            a, b = opv(x['a']), opv(x['b'])
            o = x['op']
            fn = {'BitOr': lambda: a | b, 'BitAnd': lambda: a & b, 'BitXor': lambda: a ^ b, 'Eq': lambda: int(a == b), 'Ne': lambda: int(a != b),
                  'Lt': lambda: int(a < b), 'Le': lambda: int(a <= b), 'Gt': lambda: int(a > b), 'Ge': lambda: int(a >= b)}.get(o)
            if fn is None:
                raise ValueError('binop %s' % o)
            return fn()
        if k == 'un' and x['op'] == 'Not':
            a = opv(x['a'])
            return (1 - a) if (x['a'].get('ty') == 'bool') else (~a) & 0xff
        raise ValueError('rvalue %s' % k)
    bb = 0
    for _ in range(400):
        blk = f.blocks[bb]
        for s_ in blk['stmts']:
            if s_['k'] == 'assign' and not s_['lhs']['p']:
                if s_['rv']['k'] in ('ref', 'rawptr', 'agg'):
                    env.pop(s_['lhs']['l'], None)  # not a scalar the protocol depends on (e.g. the Ordering argument)
                    continue
                env[s_['lhs']['l']] = rv(s_['rv'])
        t = blk['term']
        if t['k'] == 'return':
            if 0 not in env:
                raise ValueError('no return value')
            return env[0], ops
        if t['k'] == 'goto':
            bb = t['target']
        elif t['k'] == 'switch':
            v = opv(t['discr'])
            bb = {int(x): tgt for x, tgt in t['targets']}.get(v, t['otherwise'])
        elif t['k'] == 'call' and (t.get('callee') or '').startswith('std::sync::atomic::Atomic::<u8>::'):
            meth = t['callee'].rsplit('::', 1)[1]
            ops.append((meth, opv(t['args'][1]) if len(t['args']) > 2 else None))
            env[t['dest']['l']] = old
            bb = t['target']
        else:
            raise ValueError('terminator %s %s' % (t['k'], t.get('callee') or ''))
    raise ValueError('did not terminate')


def r1_truth_table(r, facts):
    POLLING = facts.const('IS_POLLING')
    AWOKEN = facts.const('IS_AWOKEN')
    r.inst('IS_POLLING=%d IS_AWOKEN=%d' % (POLLING, AWOKEN))
    r.require(POLLING != AWOKEN and bin(POLLING).count('1') == 1 and bin(AWOKEN).count('1') == 1, 'constants', 'flag constants are not two distinct single bits')
    states = [0, POLLING, AWOKEN, POLLING | AWOKEN]
    for name, method in ((SET_POLLING, 'swap'), (WAKE, 'fetch_or')):
        f = facts.fn(name)
        eb = ExprBuilder(f, multi='phi')
        ats = fam.atomic_sites(f)
        if not r.require(len(ats) == 1, name + '/rmw', 'expected exactly one atomic operation in %s, found %s (a separate load/store makes the handshake racy)' % (name, [m for _, _, m in ats]), f.where()):
            continue
        loc, t, m = ats[0]
        r.require(fam.atomic_kind(m) == 'rmw', name + '/rmw', '%s uses %s instead of a read-modify-write' % (name, m), f.where(loc))
        o = fam.ordering_of(f, t['args'][-1])
        r.require(fam.ord_ok('rmw', o), name + '/ORD', '%s uses Ordering::%s (needs AcqRel)' % (name, o), f.where(loc))
        try:
            if name == SET_POLLING:
                for old in states:
                    for p in (False, True):
                        got, ops = interp(f, {2: int(p)}, old)
                        new = ops[0][1] if len(ops) == 1 and ops[0][0] == 'swap' else None
                        want_new = POLLING if p else 0
                        want_ret = (old & AWOKEN) != 0
                        r.inst('set_polling(%s) old=%d -> new=%s ret=%s' % (p, old, new, got), f.where(loc))
                        r.require(m == 'swap' and new == want_new, name + '/table-new', 'set_polling(%s) with old=%d stores %s, expected %d' % (p, old, new, want_new), f.where(loc))
                        r.require(bool(got) == want_ret, name + '/table-ret', 'set_polling(%s) with old=%d returns %s, expected %s (was-awoken)' % (p, old, got, want_ret), f.where(loc))
            else:
                for old in states:
                    got, ops = interp(f, {}, old)
                    mask = ops[0][1] if len(ops) == 1 else None
                    new = (old | mask) if m == 'fetch_or' and mask is not None else None
                    want_new = old | AWOKEN
                    want_ret = old == POLLING
                    r.inst('wake() old=%d -> new=%s ret=%s' % (old, new, got), f.where(loc))
                    r.require(new == want_new, name + '/table-new', 'wake() with old=%d leaves %s, expected %d' % (old, new, want_new), f.where(loc))
                    r.require(bool(got) == want_ret, name + '/table-ret', 'wake() with old=%d returns %s, expected %s (must send a ring message iff polling and not yet awoken)' % (old, got, want_ret), f.where(loc))
        except ValueError as e:
            r.bad(name + '/unrecognised', 'cannot evaluate %s symbolically: %s' % (name, e), f.where(loc))
    # nobody else touches the word (except Debug)
    for g in facts.func_list:
        if g.path in (SET_POLLING, WAKE, 'PollingState::new', '<PollingState as std::fmt::Debug>::fmt'):
            continue
        for loc, t, m in fam.atomic_sites(g):
            if 'Atomic::<u8>' in (t.get('callee') or ''):
                r.bad('other-writer:%s' % g.path, 'the polling word is accessed outside PollingState (%s)' % m, g.where(loc))
    r.floor(12, 'truth-table rows')


def r2_bracketing(r, facts):
    f = facts.fn(CQ_POLL)
    eb = ExprBuilder(f, multi='phi')
    enters = f.calls_to(ENTER)
    sps = f.calls_to(SET_POLLING)
    if not r.require(len(enters) == 1 and len(sps) >= 2, 'Completions::poll', 'expected one enter bracketed by set_polling calls (found %d enter / %d set_polling)' % (len(enters), len(sps)), f.where()):
        return
    el, et = enters[0]
    on = [(l, t) for l, t in sps if eb.operand(t['args'][1])[1] == 1]
    off = [(l, t) for l, t in sps if eb.operand(t['args'][1])[1] == 0]
    if not r.require(len(on) == 1 and len(off) >= 1 and len(on) + len(off) == len(sps), 'Completions::poll/set_polling', 'set_polling(true)/(false) bracket not found (true: %d, false: %d of %d calls)' % (len(on), len(off), len(sps)), f.where()):
        return
    offl = [l for l, t in off]
    r.inst('set_polling(true) -> enter -> set_polling(false) [%d clearing site(s)]' % len(off), f.where(el))
    r.require(f.dominates(on[0][0], el), 'Completions::poll/not-announced', 'the blocking enter is not dominated by set_polling(true): a concurrent wake() sends no ring message', f.where(el))
    hit = f.forward_paths_hit([Loc(et['target'], 0)], f.returns(), blockers=offl)
    r.require(hit is None, 'Completions::poll/not-cleared', 'a path after enter returns without set_polling(false) (e.g. the error path): later wakes would send ring messages nobody reads', f.where(hit[0]) if hit else '')
    # the flag reset happens right after the enter, before any completion is processed: set_polling(false) also
    # clears the awoken flag, so a wake() that arrives while wakers run must find the state already reset
    procs = [l for l, t in f.calls() if (t.get('callee') or '').endswith('Completion::process') or (t.get('callee') or '').endswith('wake_blocked_futures')]
    r.require(bool(procs), 'Completions::poll/process', 'Completion::process call not found in poll (unrecognised form)', f.where())
    hit = f.forward_paths_hit([Loc(et['target'], 0)], procs, blockers=offl)
    r.require(hit is None, 'Completions::poll/cleared-late', 'completions are processed (wakers run) between the enter and set_polling(false): a wake() arriving in that window only sets the awoken flag, which the late set_polling(false) then wipes — the next Ring::poll blocks although it was woken', f.where(hit[0]) if hit else '')
    # and on the path that does not enter at all (completions already queued) the state was never set to polling
    for l in offl:
        h2 = f.forward_paths_hit([Loc(0, 0)], [l], blockers=[on[0][0]])
        r.require(h2 is None, 'Completions::poll/clear-without-set', 'set_polling(false) is reachable without set_polling(true) before it: it wipes the awoken flag of a wake() that arrived while this poll was processing already queued completions', f.where(l))
    # a wake that arrived before this poll: when set_polling(true) returns true the enter must not block.  Decided
    # on paths: with the call's result fixed to true, every definition of the timeout that reaches the enter is
    # Some(Duration::ZERO) — `if`, `match (awoken, timeout)`, a flag local, or a helper alike
    ot = on[0][1]
    tl = et['args'][3]
    if r.require(ot['target'] is not None and not ot['dest']['p'] and 'l' in tl and not tl['p'], 'Completions::poll/awoken-test', 'the result of set_polling(true) / the timeout operand of enter was not recognised', f.where(on[0][0])):
        lead = ExprBuilder(f, multi='leaf')
        for val, want_zero in ((1, True), (0, False)):
            defs = f.reaching_defs([Loc(ot['target'], 0)], el, tl['l'], env0={ot['dest']['l']: val})
            descr = []
            allzero = bool(defs)
            for d in defs:
                if d == 'entry':
                    descr.append('the caller\'s timeout')
                    allzero = False
                    continue
                from .kernel import def_expr
                e = def_expr(f, d, lead)
                z = e[0] == 'agg' and e[1].endswith('Option::Some') and e[3] and e[3][0][0] == 'const' and str(e[3][0][2]).endswith('Duration::ZERO')
                descr.append('Some(Duration::ZERO)' if z else str(e)[:60])
                allzero = allzero and z
            r.inst('set_polling(true) == %s: timeout of enter <- %s' % (bool(val), sorted(set(descr))), f.where(el))
            if want_zero:
                r.require(allzero, 'Completions::poll/awoken-blocks', 'when set_polling(true) reports a pending wake the enter does not use a zero timeout (the earlier wake is lost): timeout comes from %s' % sorted(set(descr)), f.where(on[0][0]))
            else:
                r.require(not allzero, 'Completions::poll/always-zero', 'the enter never blocks (zero timeout even without a pending wake): Ring::poll ignores its timeout', f.where(on[0][0]))
    r.floor(2)


def r3_sq_wake(r, facts):
    f = facts.fn(SQ_WAKE)
    eb = ExprBuilder(f, multi='phi')
    # decided by value: with polling.wake() == false no message is sent, with true every path to a return sends one
    # (`if !wake() { return }`, a flag, or `match (is_blocked, single_issuer) {..}` alike)
    wk = [(l, t) for l, t in f.calls_to(WAKE)]
    if not r.require(len(wk) == 1 and wk[0][1].get('target') is not None and not wk[0][1]['dest']['p'], 'Submissions::wake', 'polling.wake() call not found', f.where()):
        return
    wl, wt = wk[0]
    start = [Loc(wt['target'], 0)]
    adds = f.calls_to(life.ADD)
    regs = [(l, t) for l, t in f.calls() if (t.get('callee') or '').endswith('io_uring_register')]
    enters = f.calls_to(ENTER)
    r.require(len(adds) == 1 and len(regs) == 1 and len(enters) >= 1, 'Submissions::wake/sites', 'add/io_uring_register/enter sites not found (%d/%d/%d)' % (len(adds), len(regs), len(enters)), f.where())
    sends = [l for l, _ in adds] + [l for l, _ in regs]
    d = wt['dest']['l']
    hit = f.forward_paths_hit(start, sends, env0={d: 0})
    r.inst('not polling => no message', f.where(wl))
    r.require(hit is None, 'Submissions::wake/needless', 'a ring message is sent although the ring is not polling', f.where())
    hit = f.forward_paths_hit(start, f.returns(), blockers=sends, env0={d: 1})
    r.require(hit is None, 'Submissions::wake/skipped', 'polling.wake() said a message is needed but a path returns without sending one', f.where(hit[0]) if hit else '')
    # and the answer is looked at at all: with false some return is reachable without a send
    r.require(f.forward_paths_hit(start, f.returns(), blockers=sends, env0={d: 0}) is not None, 'Submissions::wake', 'polling.wake() result not tested', f.where())

    # request shape
    cl = facts.fn(SQ_WAKE + '::{closure#0}')
    fm = sqe.flowmap(cl, facts)
    r.inst('wake request', cl.where(), sqe.fm_str(fm))
    sqe.expect_const(r, fm, 'Submissions::wake/request', 0, facts.const('io_uring::libc::IORING_OP_MSG_RING'), 'opcode MSG_RING')
    sqe.expect_const(r, fm, 'Submissions::wake/request', 32, facts.const('io_uring::cq::WAKE_USER_DATA'), 'user_data WAKE_USER_DATA')
    sqe.expect_const(r, fm, 'Submissions::wake/request', 8, facts.const('io_uring::cq::WAKE_USER_DATA'), 'target CQE user_data (off) = WAKE_USER_DATA')
    sqe.expect_const(r, fm, 'Submissions::wake/request', 16, facts.const('io_uring::libc::IORING_MSG_DATA'), 'addr = IORING_MSG_DATA')
    d = fm.get(4)
    own_fd = d is not None and any(rt[0] == 'call' and rt[1].endswith('ring_fd') for rt in d['roots'])
    if d is not None and not own_fd:
        # the descriptor may have been read into a local that the closure captures
        from .kernel import closure_captures
        parent, caps = closure_captures(facts, cl)
        names = sqe.upvar_names(cl)
        for rt in d['roots']:
            if rt[0] == 'upvar':
                for idx, nm in names.items():
                    if nm == rt[1] and idx < len(caps) and any(x[0] == 'call' and x[1].endswith('ring_fd') for x in subexprs(caps[idx])):
                        own_fd = True
    r.require(own_fd, 'Submissions::wake/request/@4', 'the message is not addressed to the ring\'s own fd: %s' % (d and sorted(map(str, d['roots']))), cl.where())
    # flush: every path from a successful add to return passes enter; a full queue is retried, never given up
    if adds:
        from .kernel import result_edges
        al, at = adds[0]
        # decided on paths, whatever the spelling (match, `?`, is_ok(), a `queued` flag): starting behind an add
        # that returned Err(QueueFull), no successful return of wake() is reachable without another add
        # (returning the kernel's error of the flushing enter is the one legitimate way out; an error made from the
        # QueueFull itself is swallowed by SubmissionQueue::wake and loses the wake-up just the same)
        from .kernel import result_edges
        enter_err = []
        for el_, et_ in enters:
            re_ = result_edges(f, et_)
            if re_ is not None and re_[1] is not None:
                enter_err.append(Loc(re_[1][1], 0))
            else:
                r.bad('Submissions::wake/enter-result', 'how the result of the flushing enter is handled was not recognised', f.where(el_))
        if at['target'] is not None and not at['dest']['p'] and at['dest']['l'] in f._frozen_enums():
            hit = f.forward_paths_hit([Loc(at['target'], 0)], f.returns(), blockers=[al] + enter_err, env0={('D', at['dest']['l']): 1})
            r.inst('QueueFull => retry', f.where(al))
            r.require(hit is None, 'Submissions::wake/full-gives-up', 'when the submission queue is full wake() returns without having queued the wake message (the polling thread is already marked awoken, so later wakes are skipped too: the wake-up is lost)', f.where(hit[0]) if hit else f.where(al))
        else:
            r.bad('Submissions::wake/add-result', 'how the result of add is handled was not recognised (its discriminant cannot be tracked)', f.where(al))
        hit = f.forward_paths_hit([Loc(at['target'], 0)], f.returns(), blockers=[l for l, _ in enters])
        r.require(hit is None, 'Submissions::wake/not-flushed', 'a path from add to return skips Shared::enter: the message stays in the queue until somebody else submits', f.where(al))
    # single issuer edge
    if regs:
        rl, rt = regs[0]
        e = eb.operand(rt['args'][1])
        r.require(e[0] == 'const' and e[1] == facts.const('io_uring::libc::IORING_REGISTER_SEND_MSG_RING'), 'Submissions::wake/single-issuer-op', 'single-issuer wake does not use IORING_REGISTER_SEND_MSG_RING', f.where(rl))
        # guarded by shared.single_issuer
        ok = False
        for b, blk in enumerate(f.blocks):
            t = blk['term']
            if t['k'] == 'switch' and not blk['cleanup']:
                de = eb.operand(t['discr'])
                if fam.last_field(de) == 'single_issuer':
                    vals = {int(v): tg for v, tg in t['targets']}
                    ok = f.edge_dominates((b, vals.get(1, t['otherwise'])), rl) and all(f.edge_dominates((b, vals.get(0)), l) for l, _ in adds)
        r.inst('single-issuer => io_uring_register(SEND_MSG_RING)', f.where(rl))
        r.require(ok, 'Submissions::wake/single-issuer-edge', 'the synchronous message path is not selected exactly by shared.single_issuer', f.where(rl))
    r.floor(3)


def r4_after_ring(r, facts):
    sq = facts.adt('SubmissionQueue')
    fl = sq['variants'][0]['fields']
    r.inst('SubmissionQueue(%s)' % fl[0]['ty'])
    r.require(len(fl) == 1 and fl[0]['ty'] == 'io_uring::sq::Submissions', 'SubmissionQueue', 'SubmissionQueue does not wrap Submissions')
    sub = facts.adt('io_uring::sq::Submissions')
    sf = sub['variants'][0]['fields']
    r.inst('Submissions{%s: %s}' % (sf[0]['name'], sf[0]['ty']))
    r.require(len(sf) == 1 and sf[0]['ty'] == 'std::sync::Arc<io_uring::Shared>', 'Submissions', 'Submissions does not hold Arc<Shared>')
    f = facts.fn(SQ_WAKE)
    # wake does not touch Completions / ring-owned pointers: all field accesses are on io_uring::Shared or Submissions
    bad = set()
    for loc, s in f.assigns():
        for pl in [s['lhs']] + [x for x in [s['rv'].get('place')] if x]:
            for p in pl['p']:
                if p['k'] == 'field' and (p.get('adt') or '').startswith('io_uring::cq::'):
                    bad.add(p.get('adt'))
    r.require(not bad, 'Submissions::wake/cq-access', 'wake touches completion-queue state owned by the Ring: %s' % sorted(bad), f.where())
    sh = facts.adt('io_uring::Shared')
    names = [x['name'] for x in sh['variants'][0]['fields']]
    r.require('polling' in names and 'rfd' in names, 'Shared', 'Shared no longer owns the polling word and the ring fd')
    r.floor(2)


def r5_enter_submits_all(r, facts):
    """io_uring_enter's to_submit: everything queued (the wake message sits behind whatever else is queued, the kernel takes
    entries in order), or 0 where the kernel thread takes the entries itself"""
    f = facts.fn(ENTER)
    eb = ExprBuilder(f, multi='phi')
    calls = [(loc, t) for loc, t in f.calls() if (t.get('callee') or '').endswith('io_uring_enter2') or (t.get('callee') or '').endswith('io_uring_enter')]
    if not r.require(len(calls) == 1 and len(calls[0][1]['args']) >= 2, 'enter/syscall', 'io_uring_enter2 call not found in Shared::enter', f.where()):
        return
    loc, t = calls[0]
    e = eb.operand(t['args'][1])
    alts = list(e[1]) if e[0] == 'phi' else [e]
    r.inst('to_submit = %s' % (e,), f.where(loc))
    seen_all = False
    for a in alts:
        x = a
        while x[0] == 'cast':
            x = x[4]
        if x[0] == 'const' and x[1] == 0:
            continue
        if x[0] == 'call' and x[1] == 'io_uring::Shared::unsubmitted_submissions' and x[2] and x[2][0][0] == 'arg':
            seen_all = True
            continue
        r.bad('enter/to_submit', 'io_uring_enter is asked to submit %s instead of all unsubmitted entries: entries queued behind the cut-off (such as the wake-up message of Submissions::wake, or a cancel request) stay unsubmitted' % (a,), f.where(loc))
    r.require(seen_all, 'enter/to_submit', 'io_uring_enter never submits the unsubmitted entries', f.where(loc))
    # 0 only on the kernel-thread edge
    kt = [si for si in (dict(bb=b, term=blk['term']) for b, blk in enumerate(f.blocks) if blk['term']['k'] == 'switch' and not blk['cleanup'])
          if fam.last_field(eb.operand(si['term']['discr'])) == 'kernel_thread']
    if r.require(len(kt) == 1, 'enter/kernel-thread', 'test of self.kernel_thread not found in Shared::enter', f.where()):
        tt = kt[0]['term']
        vals = {int(v): tg for v, tg in tt['targets']}
        t_false = vals.get(0)
        t_true = vals.get(1, tt['otherwise'])
        uns = [l for l, t2 in f.calls() if (t2.get('callee') or '') == 'io_uring::Shared::unsubmitted_submissions']
        # without a kernel thread every path to the syscall asks how much is queued
        if t_false is not None:
            hit = f.forward_paths_hit([Loc(t_false, 0)], [loc], blockers=uns)
            r.require(hit is None, 'enter/to_submit-skipped', 'without a kernel thread a path reaches io_uring_enter without counting the unsubmitted entries', f.where(loc))
    r.floor(1)


def r6_enter_contract(r, facts):
    """Shared::enter — the one place that blocks in the kernel — passes on what its callers decided.  C11 (a pending wake-up
    turns the wait into `Some(ZERO)`), C03 and C04 (the kernel thread is woken for new submissions) rest on it:
      * with `Some(timeout)` a timespec holding the timeout's seconds and nanoseconds is filled in and `args.ts` is its address,
        on every path to the system call; the call gets `&args`, its size and IORING_ENTER_EXT_ARG (without which the kernel
        ignores the argument and waits without limit);
      * in kernel-thread mode IORING_ENTER_SQ_WAKEUP is added exactly on the edge where the shared flags word has
        IORING_SQ_NEED_WAKEUP set (a sleeping poll thread is never told about new submissions otherwise)."""
    f = facts.fn('io_uring::Shared::enter')
    eb = ExprBuilder(f, multi='phi')
    calls = [(loc, t) for loc, t in f.calls() if (t.get('callee') or '').endswith('io_uring_enter2') and not f.blocks[loc[0]]['cleanup']]
    if not r.require(len(calls) == 1, 'enter/syscall', 'expected one io_uring_enter2 call in Shared::enter, found %d' % len(calls), f.where()):
        return
    cl, ct = calls[0]
    # --- the timeout (the parameter of type Option<Duration>, wherever it stands)
    tparams = {l for l in range(1, f.nargs + 1) if (f.locals[l]['ty'] or '').startswith('std::option::Option<std::time::Duration')}
    some = [v for v in variant_edges(f, 'std::option::Option', 'Some') if not f.blocks[v['edge'][0]]['cleanup'] and v['si']['place']['l'] in tparams and not v['si']['place']['p']]
    # the same in one expression: `args = io_uring_getevents_arg { ts: <address of Some(timespec {tv_sec: secs, tv_nsec: nanos})> or 0, .. }`
    a0 = [eb.operand(x) for x in ct['args']]
    arg_aggs = [x for y in a0 for x in subexprs(y) if x[0] == 'agg' and x[1].endswith('io_uring_getevents_arg') and 'ts' in x[2]]
    agg_form = False
    if arg_aggs:
        e_ts = arg_aggs[0][3][list(arg_aggs[0][2]).index('ts')]
        tss = [x for x in subexprs(e_ts) if x[0] == 'agg' and x[1].endswith('timespec') and set(x[2]) >= {'tv_sec', 'tv_nsec'}]
        addr_of = any(x[0] == 'ref' or (x[0] == 'call' and x[1].endswith('from_ref')) for x in subexprs(e_ts))
        if tss and addr_of:
            agg_form = True
            ts_ = tss[0]
            fsec, fns = ts_[3][list(ts_[2]).index('tv_sec')], ts_[3][list(ts_[2]).index('tv_nsec')]
            ok_s = any(x[0] == 'call' and x[1].endswith('Duration::as_secs') for x in subexprs(fsec))
            ok_n = any(x[0] == 'call' and x[1].endswith('Duration::subsec_nanos') for x in subexprs(fns))
            for nm_ in ('tv_sec', 'tv_nsec', 'ts'):
                r.inst('timeout: %s set on every path from Some(timeout) to the system call: True (args.ts is the address of a timespec built from the timeout, 0 without one)' % nm_, f.where(cl))
            r.require(ok_s, 'enter/timeout-value:tv_sec', 'timespec.tv_sec is filled with %s, not the timeout\'s as_secs()' % (str(fsec)[:100],), f.where(cl))
            r.require(ok_n, 'enter/timeout-value:tv_nsec', 'timespec.tv_nsec is filled with %s, not the timeout\'s subsec_nanos()' % (str(fns)[:100],), f.where(cl))
            r.require(any(x[0] == 'arg' and x[1] in tparams for x in subexprs(e_ts)), 'enter/timeout:ts', 'args.ts does not depend on the timeout parameter', f.where(cl))
    if not agg_form and r.require(len(some) >= 1, 'enter/timeout-test', 'the test of the timeout parameter was not found (unrecognised form)', f.where()):
        start = [Loc(some[0]['edge'][1], 0)]
        want = {'tv_sec': 'as_secs', 'tv_nsec': 'subsec_nanos'}
        stores = {'tv_sec': [], 'tv_nsec': [], 'ts': []}
        ts_locals = set()
        for loc, s_ in f.assigns():
            fl = [p_ for p_ in s_['lhs']['p'] if p_['k'] == 'field']
            if not fl or f.blocks[loc[0]]['cleanup']:
                continue
            nm = fl[-1].get('name')
            if nm in want and (fl[-1].get('adt') or '').endswith('timespec'):
                e = eb.rvalue(s_['rv'])
                ok = any(x[0] == 'call' and x[1].endswith('Duration::' + want[nm]) for x in subexprs(e))
                r.require(ok, 'enter/timeout-value:%s' % nm, 'timespec.%s is filled with %s, not the timeout\'s %s()' % (nm, str(e)[:100], want[nm]), f.where(loc))
                if ok:
                    stores[nm].append(loc)
                    ts_locals.add(s_['lhs']['l'])
            elif nm == 'ts' and (fl[-1].get('adt') or '').endswith('io_uring_getevents_arg'):
                e = eb.rvalue(s_['rv'])
                refs = [x for x in subexprs(e) if x[0] == 'ref' and x[1][0] == 'local']
                stores['ts'].append((loc, {x[1][1] for x in refs}))
        ts_ok = [loc for loc, ls in stores['ts'] if ls & ts_locals]
        for loc, ls in stores['ts']:
            r.require(bool(ls & ts_locals), 'enter/timeout-pointer', 'args.ts is not the address of the timespec that holds the timeout', f.where(loc))
        for nm, locs in (('tv_sec', stores['tv_sec']), ('tv_nsec', stores['tv_nsec']), ('ts', ts_ok)):
            hit = f.forward_paths_hit(start, [cl], blockers=locs)
            r.inst('timeout: %s set on every path from Some(timeout) to the system call: %s' % (nm, hit is None), f.where(cl))
            r.require(hit is None, 'enter/timeout:%s' % nm, 'with a timeout the system call can be reached without %s set: the kernel waits without the limit the caller (or a pending wake-up) asked for' % ('args.ts' if nm == 'ts' else 'timespec.' + nm), f.where(cl))
    # --- the call gets the argument
    a = [eb.operand(x) for x in ct['args']]
    ext = facts.const('io_uring::libc::IORING_ENTER_EXT_ARG')
    has_ext = any(x[0] == 'const' and isinstance(x[1], int) and ext and x[1] & ext for y in a for x in subexprs(y))
    r.inst('io_uring_enter2(.., flags | EXT_ARG: %s, &args, size)' % has_ext, f.where(cl))
    r.require(has_ext, 'enter/ext-arg', 'IORING_ENTER_EXT_ARG is not passed: the kernel ignores the argument block (timeout) and waits without limit', f.where(cl))
    arg_refs = [x for y in a for x in subexprs(y) if x[0] == 'ref' and ((x[1][0] == 'local' and (f.locals[x[1][1]]['ty'] or '').endswith('io_uring_getevents_arg'))
                                                                         or (x[1][0] == 'agg' and x[1][1].endswith('io_uring_getevents_arg')))]
    r.require(bool(arg_refs), 'enter/arg-pointer', 'the address of the io_uring_getevents_arg block is not passed to io_uring_enter2', f.where(cl))
    # --- waking the kernel thread
    need = facts.const('io_uring::libc::IORING_SQ_NEED_WAKEUP')
    wake = facts.const('io_uring::libc::IORING_ENTER_SQ_WAKEUP')
    tests = []
    for b, blk in enumerate(f.blocks):
        t = blk['term']
        if blk['cleanup'] or t['k'] != 'switch':
            continue
        e = eb.operand(t['discr'])
        if e[0] == 'bin' and e[1] in ('Ne', 'Eq') and e[2][0] == 'bin' and e[2][1] == 'BitAnd' and any(y[0] == 'const' and y[1] == need for y in (e[2][2], e[2][3])) \
                and any(x[0] == 'call' and x[1] == 'io_uring::load_kernel_shared' for x in subexprs(e)):
            vals = {int(v): tg for v, tg in t['targets']}
            set_e = vals.get(1, t['otherwise']) if e[1] == 'Ne' else vals.get(0)
            clr_e = vals.get(0) if e[1] == 'Ne' else vals.get(1, t['otherwise'])
            tests.append((b, set_e, clr_e))
    ors = [loc for loc, s_ in f.assigns() if s_['rv']['k'] == 'bin' and s_['rv'].get('op') == 'BitOr' and any(o.get('k') == 'const' and f.cval(o) == wake for o in (s_['rv']['a'], s_['rv']['b']))]
    if r.require(len(tests) == 1 and ors, 'enter/sq-wakeup', 'the IORING_SQ_NEED_WAKEUP test / the IORING_ENTER_SQ_WAKEUP flag was not found in Shared::enter: a sleeping kernel poll thread is never woken for new submissions', f.where()):
        b, set_e, clr_e = tests[0]
        miss = f.forward_paths_hit([Loc(set_e, 0)], [cl], blockers=ors) if set_e is not None else (cl,)
        r.inst('NEED_WAKEUP set => SQ_WAKEUP passed: %s' % (miss is None), f.where(f.term_loc(b)))
        r.require(miss is None, 'enter/sq-wakeup', 'on the edge where the kernel thread asked to be woken (IORING_SQ_NEED_WAKEUP set) the system call is reached without IORING_ENTER_SQ_WAKEUP', f.where(f.term_loc(b)))
        # the flag word tested is reached in kernel-thread mode
        r.require(any(fam.last_field(eb.operand(f.term(b2)['discr'])) == 'kernel_thread' and f.edge_dominates((b2, tg), f.term_loc(b))
                      for b2, tg in c10.controlling_switches(f, f.term_loc(b))), 'enter/sq-wakeup-mode', 'the wake-up test is not made in kernel-thread mode', f.where(f.term_loc(b)))
    r.floor(5)



def check(ctx):
    ctx.run('C11.R1', 'PollingState: one RMW each, truth table of set_polling/wake over the 2-bit state', r1_truth_table)
    ctx.run('C11.R2', 'Completions::poll brackets the blocking enter with set_polling(true/false); pending wake => zero timeout', r2_bracketing)
    ctx.run('C11.R3', 'Submissions::wake: message iff polling.wake(); MSG_RING to own fd; flushed by enter; single-issuer path', r3_sq_wake)
    ctx.run('C11.R4', 'wake only needs Arc<Shared>-owned state (harmless after the Ring is dropped)', r4_after_ring)
    ctx.run('C11.R5', 'Shared::enter submits everything queued (the wake message is not left behind other entries)', r5_enter_submits_all)
    ctx.run('C11.R6', 'Shared::enter hands the timeout (timespec, args.ts, EXT_ARG) to the kernel on every path and wakes a sleeping kernel thread', r6_enter_contract)
    from . import c18
    ctx.run('C11.R7', 'Shared.single_issuer / kernel_thread are true exactly when the echoed flag is set (=C18.R4): wake() picks its path by them', lambda r, facts: c18.ring_lengths(r, facts, modes=True, floor=2, sq=False, cq=False))
