"""Result collection: rules, instances, violations, evidence."""
import traceback

from .kernel import AnchorMissing


class Rule:
    def __init__(self, ctx, rid, text):
        self.ctx = ctx
        self.id = rid
        self.text = text
        self.instances = []   # dicts: name, where, detail
        self.violations = []  # dicts: key, msg, where
        self.floor_n = None
        self.idioms = {}
        self.exceptions = []
        self.notes = []

    def inst(self, name, where='', detail=''):
        self.instances.append({'name': name, 'where': where, 'detail': detail})

    def idiom(self, name):
        self.idioms[name] = self.idioms.get(name, 0) + 1

    def exception(self, symbol, reason):
        self.exceptions.append({'symbol': symbol, 'reason': reason})

    def note(self, text):
        self.notes.append(text)

    def bad(self, instance, msg, where=''):
        """report a violation of this rule for `instance` (key has no line)."""
        key = '%s:%s' % (self.id, instance)
        self.violations.append({'key': key, 'msg': msg, 'where': where})

    def floor(self, n, what='instances'):
        self.floor_n = n
        if len(self.instances) < n:
            self.bad('floor', 'only %d %s found, floor is %d (rule would pass vacuously)' % (len(self.instances), what, n))

    def require(self, cond, instance, msg, where=''):
        if not cond:
            self.bad(instance, msg, where)
        return cond


class Ctx:
    def __init__(self, prop, facts, tier, cfg_name='default'):
        self.prop = prop
        self.facts = facts
        self.tier = tier
        self.cfg_name = cfg_name
        self.rules = []
        self.internal_errors = []

    def rule(self, rid, text):
        r = Rule(self, rid, text)
        self.rules.append(r)
        return r

    def run(self, rid, text, fn):
        """run one rule function fn(rule, facts) fail-closed."""
        r = self.rule(rid, text)
        try:
            fn(r, self.facts)
        except AnchorMissing as e:
            r.bad('anchor-missing', 'anchor missing: %s' % e)
        except Exception as e:  # bug in a rule: fail closed, but visibly
            r.bad('internal-error', 'rule crashed: %r' % (e,))
            self.internal_errors.append(traceback.format_exc())
        return r
