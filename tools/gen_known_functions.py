#!/usr/bin/env python3
"""Regenerate abi/known_functions.json (the function paths of the tree the rules were written against) from a
fact file of /repo.  Run only when the rules have been reviewed against the current tree.
usage: python3 tools/gen_known_functions.py <facts.json>"""
import json, os, sys
HERE = os.path.dirname(os.path.dirname(os.path.abspath(__file__)))
j = json.load(open(sys.argv[1]))
out = sorted(({'path': f['path'], 'kind': f['kind'], 'arg_count': f['arg_count']} for f in j['functions']), key=lambda x: x['path'])
json.dump(out, open(os.path.join(HERE, 'abi', 'known_functions.json'), 'w'), indent=0)
print(len(out), 'functions')
