#!/bin/bash
# Run the pinned a10 suite (guard off) without hanging on leaked `sleep` children
# (tests spawn `sleep 1000` which keep a pipe open; never pipe cargo test directly).
REPO=${1:-/repo}
LOG=$(mktemp)
cd "$REPO" && timeout 900 cargo test --workspace --no-fail-fast --offline >"$LOG" 2>&1 </dev/null
rc=$?
pkill -x sleep 2>/dev/null
grep -E "^test result|FAILED|panicked|^error" "$LOG" | head -40
echo "exit=$rc log=$LOG"
exit $rc
