//! a10-facts: dumps the resolved program (MIR, types, traits, constants) of the
//! `a10` crate as one JSON fact file. Used as RUSTC_WORKSPACE_WRAPPER.
//!
//! Deciding nothing itself; all rules live in /verif/rules (Python).
#![feature(rustc_private)]
#![allow(clippy::all)]

extern crate rustc_abi;
extern crate rustc_driver;
extern crate rustc_hir;
extern crate rustc_interface;
extern crate rustc_middle;
extern crate rustc_session;
extern crate rustc_span;

mod json;

use json::J;
use rustc_hir::def::DefKind;
use rustc_hir::def_id::{DefId, LOCAL_CRATE};
use rustc_middle::mir::{
    self, AggregateKind, BinOp, Body, CastKind, Const, Operand, Place, PlaceElem, Rvalue,
    StatementKind, TerminatorKind, UnOp,
};
use rustc_middle::ty::print::with_no_trimmed_paths;
use rustc_middle::ty::{self, Instance, TyCtxt, TypingEnv};
use rustc_span::Span;
use std::collections::BTreeMap;

struct Cb;

impl rustc_driver::Callbacks for Cb {
    fn after_analysis<'tcx>(
        &mut self,
        _c: &rustc_interface::interface::Compiler,
        tcx: TyCtxt<'tcx>,
    ) -> rustc_driver::Compilation {
        let name = tcx.crate_name(LOCAL_CRATE);
        if name.as_str() == "a10" {
            if let Ok(out) = std::env::var("A10_FACTS_OUT") {
                let j = with_no_trimmed_paths!(dump(tcx));
                let mut s = String::with_capacity(64 << 20);
                j.write(&mut s);
                std::fs::write(&out, s).expect("write facts");
            }
        }
        rustc_driver::Compilation::Continue
    }
}

fn main() {
    let mut args: Vec<String> = std::env::args().collect();
    // As RUSTC_WORKSPACE_WRAPPER argv[1] is the path of the real rustc.
    if args.len() > 1 && (args[1].ends_with("rustc") || args[1].contains("/rustc")) {
        args.remove(1);
    }
    rustc_driver::run_compiler(&args, &mut Cb);
}

struct Cx<'tcx> {
    tcx: TyCtxt<'tcx>,
    foreign_adts: BTreeMap<String, DefId>,
    layouts: BTreeMap<String, (u64, u64)>,
}

fn dump<'tcx>(tcx: TyCtxt<'tcx>) -> J {
    let mut cx = Cx { tcx, foreign_adts: BTreeMap::new(), layouts: BTreeMap::new() };
    let mut functions = Vec::new();
    for ldid in tcx.hir_body_owners() {
        let did = ldid.to_def_id();
        let kind = tcx.def_kind(did);
        match kind {
            DefKind::Fn | DefKind::AssocFn | DefKind::Closure => {}
            _ => continue,
        }
        if !tcx.is_mir_available(did) {
            continue;
        }
        functions.push(cx.function(did, kind));
    }
    let mut adts = Vec::new();
    let mut traits = Vec::new();
    let mut impls = Vec::new();
    let mut consts = Vec::new();
    for ldid in tcx.hir_crate_items(()).definitions() {
        let did = ldid.to_def_id();
        match tcx.def_kind(did) {
            DefKind::Struct | DefKind::Enum | DefKind::Union => adts.push(cx.adt(did, true)),
            DefKind::Trait => traits.push(cx.trait_(did)),
            DefKind::Impl { .. } => impls.push(cx.impl_(did)),
            DefKind::Const { .. } | DefKind::AssocConst { .. } | DefKind::Static { .. } => {
                if let Some(c) = cx.const_item(did) {
                    consts.push(c)
                } else if !matches!(tcx.def_kind(did), DefKind::Static { .. }) && tcx.hir_maybe_body_owned_by(ldid).is_some() {
                    let ty = tcx.type_of(did).instantiate_identity().skip_norm_wip();
                    if ty.is_integral() || ty.is_bool() {
                        functions.push(cx.function(did, tcx.def_kind(did)));
                    }
                }
            }
            _ => {}
        }
    }
    let foreign: Vec<DefId> = cx.foreign_adts.values().copied().collect();
    let mut foreign_adts = Vec::new();
    for did in foreign {
        foreign_adts.push(cx.adt(did, false));
    }
    let layouts: Vec<J> = cx
        .layouts
        .iter()
        .map(|(k, (s, a))| J::Arr(vec![J::Str(k.clone()), J::Int(*s as i128), J::Int(*a as i128)]))
        .collect();
    J::obj(vec![
        ("crate", J::s("a10")),
        ("layouts", J::Arr(layouts)),
        ("functions", J::Arr(functions)),
        ("adts", J::Arr(adts)),
        ("foreign_adts", J::Arr(foreign_adts)),
        ("traits", J::Arr(traits)),
        ("impls", J::Arr(impls)),
        ("consts", J::Arr(consts)),
    ])
}

impl<'tcx> Cx<'tcx> {
    fn path(&self, did: DefId) -> String {
        self.tcx.def_path_str(did)
    }

    fn span(&self, sp: Span) -> J {
        let sm = self.tcx.sess.source_map();
        // Outermost call site (in the crate's own source) and innermost position.
        let outer = sp.source_callsite();
        let lo = sm.lookup_char_pos(outer.lo());
        let hi = sm.lookup_char_pos(outer.hi());
        let file = format!("{}", lo.file.name.prefer_local_unconditionally());
        let mut v = vec![
            ("file", J::Str(file)),
            ("line", J::Int(lo.line as i128)),
            ("line_hi", J::Int(hi.line as i128)),
        ];
        if sp.from_expansion() {
            let inner = sm.lookup_char_pos(sp.lo());
            v.push(("inner_file", J::Str(format!("{}", inner.file.name.prefer_local_unconditionally()))));
            v.push(("inner_line", J::Int(inner.line as i128)));
            let mut macros = Vec::new();
            for ex in sp.macro_backtrace() {
                let n = match ex.macro_def_id {
                    Some(d) => self.path(d),
                    None => format!("{:?}", ex.kind),
                };
                macros.push(J::Str(n));
            }
            v.push(("macros", J::Arr(macros)));
        }
        J::obj(v)
    }

    fn function(&mut self, did: DefId, kind: DefKind) -> J {
        let tcx = self.tcx;
        // generic constants (`const TAG: usize = if Self::IS_MULTISHOT { .. } else { .. }` in a trait) cannot be
        // evaluated here; their initialiser is dumped like a function body so it can be specialised by value
        let is_const = matches!(kind, DefKind::Const { .. } | DefKind::AssocConst { .. });
        let body: &Body<'tcx> = if is_const { tcx.mir_for_ctfe(did.expect_local()) } else { tcx.optimized_mir(did) };
        let tenv = TypingEnv::post_analysis(tcx, did);
        let mut v: Vec<(&'static str, J)> = Vec::new();
        v.push(("path", J::Str(self.path(did))));
        v.push(("kind", J::s(match kind {
            DefKind::Fn => "fn",
            DefKind::AssocFn => "assoc",
            DefKind::Closure => "closure",
            DefKind::Const { .. } | DefKind::AssocConst { .. } => "const",
            _ => "?",
        })));
        v.push(("span", self.span(tcx.def_span(did))));
        v.push(("body_span", self.span(body.span)));
        if is_const {
            v.push(("unsafe", J::Bool(false)));
        } else if !matches!(kind, DefKind::Closure) {
            let sig = tcx.fn_sig(did).instantiate_identity().skip_binder();
            v.push(("unsafe", J::Bool(!sig.safety().is_safe())));
            v.push(("vis", J::Str(format!("{:?}", tcx.visibility(did)))));
            v.push(("sig", J::Str(format!("{}", sig))));
            let generics = tcx.generics_of(did);
            let mut gs = Vec::new();
            let mut g = Some(generics);
            while let Some(gg) = g {
                for p in &gg.own_params {
                    gs.push(J::Str(p.name.to_string()));
                }
                g = gg.parent.map(|p| tcx.generics_of(p));
            }
            v.push(("generics", J::Arr(gs)));
            // where clauses (for `'static` and trait bounds on type params)
            let preds = tcx.predicates_of(did).instantiate_identity(tcx);
            let ps: Vec<J> = preds.predicates.iter().map(|p| J::Str(format!("{}", p.skip_norm_wip()))).collect();
            v.push(("preds", J::Arr(ps)));
            if let Some(assoc) = tcx.opt_associated_item(did) {
                let cont = assoc.container_id(tcx);
                v.push(("container", J::Str(self.path(cont))));
                let is_impl = matches!(tcx.def_kind(cont), DefKind::Impl { .. });
                if !is_impl {
                    v.push(("in_trait", J::Bool(true)));
                } else if let Some(timpl) = tcx.impl_opt_trait_ref(cont_if_impl(tcx, cont)) {
                    let tr = timpl.instantiate_identity().skip_norm_wip();
                    v.push(("impl_trait", J::Str(self.path(tr.def_id))));
                    v.push(("impl_trait_full", J::Str(format!("{}", tr))));
                    v.push(("impl_self", J::Str(format!("{}", tr.self_ty()))));
                } else {
                    let st = tcx.type_of(cont).instantiate_identity().skip_norm_wip();
                    v.push(("impl_self", J::Str(format!("{}", st))));
                }
            }
        } else {
            v.push(("parent", J::Str(self.path(tcx.typeck_root_def_id(did)))));
            v.push(("direct_parent", J::Str(self.path(tcx.parent(did)))));
        }
        v.push(("arg_count", J::Int(body.arg_count as i128)));
        let mut locals = Vec::new();
        for (_l, decl) in body.local_decls.iter_enumerated() {
            self.note_layout(decl.ty);
            locals.push(J::obj(vec![
                ("ty", J::Str(format!("{}", decl.ty))),
                ("mut", J::Bool(decl.mutability.is_mut())),
            ]));
        }
        v.push(("locals", J::Arr(locals)));
        let mut dbg = Vec::new();
        for vdi in &body.var_debug_info {
            let val = match &vdi.value {
                mir::VarDebugInfoContents::Place(p) => self.place(body, *p),
                mir::VarDebugInfoContents::Const(c) => self.constant(&c.const_, tenv, c.span),
            };
            dbg.push(J::obj(vec![
                ("name", J::Str(vdi.name.to_string())),
                ("arg", match vdi.argument_index { Some(i) => J::Int(i as i128), None => J::Null }),
                ("val", val),
            ]));
        }
        v.push(("debug", J::Arr(dbg)));
        let mut blocks = Vec::new();
        for (_bb, data) in body.basic_blocks.iter_enumerated() {
            let mut stmts = Vec::new();
            for st in &data.statements {
                if let Some(j) = self.statement(body, st, tenv) {
                    stmts.push(j);
                }
            }
            let term = self.terminator(body, data.terminator(), tenv, did);
            blocks.push(J::obj(vec![
                ("cleanup", J::Bool(data.is_cleanup)),
                ("stmts", J::Arr(stmts)),
                ("term", term),
            ]));
        }
        v.push(("blocks", J::Arr(blocks)));
        // promoted constants (`&Some(libc::EINTR)`, `&[..]`): their tiny bodies, so that a constant of a generic
        // function (which cannot be evaluated without substitutions) can still be read structurally
        let mut proms = Vec::new();
        for (_pi, pbody) in tcx.promoted_mir(did).iter_enumerated() {
            let mut pst = Vec::new();
            for data in pbody.basic_blocks.iter() {
                for st in &data.statements {
                    if let Some(j) = self.statement(pbody, st, tenv) {
                        pst.push(j);
                    }
                }
            }
            proms.push(J::Arr(pst));
        }
        if !proms.is_empty() {
            v.push(("promoted", J::Arr(proms)));
        }
        J::obj(v)
    }

    /// Record size/align of fully concrete types (and of the pointee of
    /// references / raw pointers to them).
    fn note_layout(&mut self, ty: ty::Ty<'tcx>) {
        use rustc_middle::ty::TypeVisitableExt;
        let tcx = self.tcx;
        let mut t = ty;
        loop {
            if !t.has_non_region_param() && !t.has_escaping_bound_vars() {
                let te = tcx.erase_and_anonymize_regions(t);
                let key = format!("{}", te);
                if !self.layouts.contains_key(&key) {
                    if let Ok(l) = tcx.layout_of(TypingEnv::fully_monomorphized().as_query_input(te)) {
                        if l.is_sized() {
                            self.layouts.insert(key, (l.size.bytes(), l.align.abi.bytes()));
                        }
                    }
                }
            }
            match t.kind() {
                ty::Ref(_, inner, _) => t = *inner,
                ty::RawPtr(inner, _) => t = *inner,
                _ => break,
            }
        }
    }

    fn place(&mut self, body: &Body<'tcx>, p: Place<'tcx>) -> J {
        let tcx = self.tcx;
        let mut proj = Vec::new();
        let mut pty = mir::PlaceTy::from_ty(body.local_decls[p.local].ty);
        for elem in p.projection.iter() {
            let j = match elem {
                PlaceElem::Deref => J::obj(vec![("k", J::s("deref"))]),
                PlaceElem::Field(f, fty) => {
                    let mut v = vec![("k", J::s("field")), ("i", J::Int(f.as_usize() as i128)), ("ty", J::Str(format!("{}", fty)))];
                    match pty.ty.kind() {
                        ty::Adt(adt, _) => {
                            let vidx = pty.variant_index.unwrap_or(rustc_abi::FIRST_VARIANT);
                            let var = adt.variant(vidx);
                            v.push(("name", J::Str(var.fields[f].name.to_string())));
                            v.push(("adt", J::Str(self.path(adt.did()))));
                            if adt.is_enum() {
                                v.push(("variant", J::Str(var.name.to_string())));
                            }
                            if !adt.did().is_local() {
                                self.foreign_adts.insert(self.path(adt.did()), adt.did());
                            }
                        }
                        ty::Closure(..) => {
                            v.push(("adt", J::s("{closure}")));
                        }
                        ty::Tuple(..) => {
                            v.push(("adt", J::s("{tuple}")));
                        }
                        _ => {}
                    }
                    J::obj(v)
                }
                PlaceElem::Index(l) => J::obj(vec![("k", J::s("index")), ("local", J::Int(l.as_usize() as i128))]),
                PlaceElem::ConstantIndex { offset, from_end, .. } => J::obj(vec![
                    ("k", J::s("cindex")),
                    ("offset", J::Int(offset as i128)),
                    ("from_end", J::Bool(from_end)),
                ]),
                PlaceElem::Subslice { from, to, from_end } => J::obj(vec![
                    ("k", J::s("subslice")),
                    ("from", J::Int(from as i128)),
                    ("to", J::Int(to as i128)),
                    ("from_end", J::Bool(from_end)),
                ]),
                PlaceElem::Downcast(name, vidx) => J::obj(vec![
                    ("k", J::s("downcast")),
                    ("variant", match name { Some(n) => J::Str(n.to_string()), None => J::Null }),
                    ("vidx", J::Int(vidx.as_usize() as i128)),
                ]),
                PlaceElem::OpaqueCast(_) => J::obj(vec![("k", J::s("opaque"))]),
                PlaceElem::UnwrapUnsafeBinder(_) => J::obj(vec![("k", J::s("unwrap_binder"))]),
            };
            proj.push(j);
            pty = pty.projection_ty(tcx, elem);
        }
        J::obj(vec![
            ("l", J::Int(p.local.as_usize() as i128)),
            ("p", J::Arr(proj)),
            ("ty", J::Str(format!("{}", pty.ty))),
        ])
    }

    fn constant(&mut self, c: &Const<'tcx>, tenv: TypingEnv<'tcx>, span: Span) -> J {
        let tcx = self.tcx;
        let ty = c.ty();
        let mut v = vec![("k", J::s("const")), ("ty", J::Str(format!("{}", ty))), ("text", J::Str(format!("{}", c)))];
        match ty.kind() {
            ty::FnDef(did, args) => {
                v.push(("fn", J::Str(self.path(*did))));
                v.push(("fn_full", J::Str(tcx.def_path_str_with_args(*did, args))));
            }
            _ => {}
        }
        if let Const::Unevaluated(uv, _) = c {
            v.push(("def", J::Str(tcx.def_path_str_with_args(uv.def, uv.args))));
            v.push(("def_path", J::Str(self.path(uv.def))));
            if uv.promoted.is_some() {
                v.push(("promoted", J::Bool(true)));
            }
        }
        let scalar_ok = ty.is_integral() || ty.is_bool() || ty.is_char() || matches!(ty.kind(), ty::RawPtr(..));
        if scalar_ok {
            let needs_subst = match c {
                Const::Unevaluated(uv, _) => uv.args.iter().any(|a| format!("{:?}", a).contains("/#")),
                Const::Ty(..) => true,
                Const::Val(..) => false,
            };
            if !needs_subst {
                if let Some(si) = c.try_eval_scalar_int(tcx, tenv) {
                    let size = si.size();
                    let bits = si.to_bits(size);
                    v.push(("bits", J::Str(bits.to_string())));
                    let signed = if ty.is_signed() { size.sign_extend(bits) as i128 } else { bits as i128 };
                    v.push(("val", J::Str(signed.to_string())));
                }
            }
        }
        // small by-reference constants (promoted `&[-1]`, `&5`): dump the bytes
        if let ty::Ref(_, inner, _) = ty.kind() {
            let small = match inner.kind() {
                ty::Array(elem, _) => elem.is_integral(),
                // `&Some(&0)` and friends: Option of an integer or of a reference to one
                ty::Adt(def, args) if tcx.def_path_str(def.did()).ends_with("option::Option") => {
                    args.types().next().map_or(false, |t| t.is_integral() || matches!(t.kind(), ty::Ref(_, i2, _) if i2.is_integral()))
                }
                _ => inner.is_integral(),
            };
            if small && !format!("{:?}", c).contains("/#") {
                if let Ok(val) = c.eval(tcx, tenv, span) {
                    if let mir::ConstValue::Scalar(rustc_middle::mir::interpret::Scalar::Ptr(ptr, _)) = val {
                        let (prov, off) = ptr.prov_and_relative_offset();
                        // a promoted constant lives in an anonymous allocation, a `static` in its own: both are read
                        let galloc = match tcx.try_get_global_alloc(prov.alloc_id()) {
                            Some(rustc_middle::mir::interpret::GlobalAlloc::Memory(alloc)) => Some(alloc),
                            Some(rustc_middle::mir::interpret::GlobalAlloc::Static(sdid)) if !tcx.is_foreign_item(sdid) => tcx.eval_static_initializer(sdid).ok(),
                            _ => None,
                        };
                        if let Some(alloc) = galloc {
                            let a = alloc.inner();
                            let start = off.bytes() as usize;
                            let len = a.len();
                            if len >= start && len - start <= 64 {
                                let bytes = a.inspect_with_uninit_and_ptr_outside_interpreter(start..len);
                                let bj: Vec<J> = bytes.iter().map(|b| J::Int(*b as i128)).collect();
                                v.push(("ref_bytes", J::Arr(bj)));
                                // pointers stored inside the constant: the bytes they point to (one level)
                                let mut inner_j: Vec<J> = Vec::new();
                                for (poff, prov2) in a.provenance().ptrs().iter() {
                                    if let Some(rustc_middle::mir::interpret::GlobalAlloc::Memory(alloc2)) = tcx.try_get_global_alloc(prov2.alloc_id()) {
                                        let a2 = alloc2.inner();
                                        if a2.len() <= 64 {
                                            let b2 = a2.inspect_with_uninit_and_ptr_outside_interpreter(0..a2.len());
                                            inner_j.push(J::Arr(vec![J::Int(poff.bytes() as i128), J::Arr(b2.iter().map(|b| J::Int(*b as i128)).collect())]));
                                        }
                                    }
                                }
                                if !inner_j.is_empty() {
                                    v.push(("ref_inner", J::Arr(inner_j)));
                                }
                            }
                        }
                    }
                }
            }
        }
        J::obj(v)
    }

    fn operand(&mut self, body: &Body<'tcx>, op: &Operand<'tcx>, tenv: TypingEnv<'tcx>) -> J {
        match op {
            Operand::Copy(p) => {
                let mut j = self.place(body, *p);
                j.push("k", J::s("copy"));
                j
            }
            Operand::Move(p) => {
                let mut j = self.place(body, *p);
                j.push("k", J::s("move"));
                j
            }
            Operand::Constant(c) => self.constant(&c.const_, tenv, c.span),
            #[allow(unreachable_patterns)]
            _ => J::obj(vec![("k", J::s("other")), ("text", J::Str(format!("{:?}", op)))]),
        }
    }

    fn rvalue(&mut self, body: &Body<'tcx>, rv: &Rvalue<'tcx>, tenv: TypingEnv<'tcx>) -> J {
        let tcx = self.tcx;
        match rv {
            Rvalue::Use(op, ..) => J::obj(vec![("k", J::s("use")), ("op", self.operand(body, op, tenv))]),
            Rvalue::Repeat(op, n) => J::obj(vec![
                ("k", J::s("repeat")),
                ("op", self.operand(body, op, tenv)),
                ("n", J::Str(format!("{}", n))),
            ]),
            Rvalue::Ref(_, bk, p) => J::obj(vec![
                ("k", J::s("ref")),
                ("mut", J::Bool(matches!(bk, mir::BorrowKind::Mut { .. }))),
                ("place", self.place(body, *p)),
            ]),
            Rvalue::RawPtr(kind, p) => J::obj(vec![
                ("k", J::s("rawptr")),
                ("mut", J::Bool(format!("{:?}", kind).contains("Mut"))),
                ("place", self.place(body, *p)),
            ]),
            Rvalue::ThreadLocalRef(d) => J::obj(vec![("k", J::s("tls")), ("def", J::Str(self.path(*d)))]),
            Rvalue::Cast(ck, op, ty) => {
                let from = op.ty(&body.local_decls, tcx);
                let ckn = match ck {
                    CastKind::PointerExposeProvenance => "PointerExposeProvenance".to_string(),
                    CastKind::PointerWithExposedProvenance => "PointerWithExposedProvenance".to_string(),
                    CastKind::IntToInt => "IntToInt".to_string(),
                    CastKind::PtrToPtr => "PtrToPtr".to_string(),
                    CastKind::FnPtrToPtr => "FnPtrToPtr".to_string(),
                    CastKind::Transmute => "Transmute".to_string(),
                    other => format!("{:?}", other),
                };
                J::obj(vec![
                    ("k", J::s("cast")),
                    ("ck", J::Str(ckn)),
                    ("op", self.operand(body, op, tenv)),
                    ("from", J::Str(format!("{}", from))),
                    ("to", J::Str(format!("{}", ty))),
                ])
            }
            Rvalue::BinaryOp(op, ab) => {
                let (a, b) = &**ab;
                J::obj(vec![
                    ("k", J::s("bin")),
                    ("op", J::Str(binop(*op).to_string())),
                    ("a", self.operand(body, a, tenv)),
                    ("b", self.operand(body, b, tenv)),
                ])
            }
            Rvalue::UnaryOp(op, a) => J::obj(vec![
                ("k", J::s("un")),
                ("op", J::Str(match op {
                    UnOp::Not => "Not".to_string(),
                    UnOp::Neg => "Neg".to_string(),
                    UnOp::PtrMetadata => "PtrMetadata".to_string(),
                })),
                ("a", self.operand(body, a, tenv)),
            ]),
            Rvalue::Discriminant(p) => {
                let pj = self.place(body, *p);
                let pty = p.ty(&body.local_decls, tcx).ty;
                let mut v = vec![("k", J::s("discr")), ("place", pj)];
                if let ty::Adt(adt, _) = pty.kind() {
                    if adt.is_enum() {
                        v.push(("adt", J::Str(self.path(adt.did()))));
                        let mut vs = Vec::new();
                        for (vi, d) in adt.discriminants(tcx) {
                            vs.push(J::Arr(vec![J::Str(d.val.to_string()), J::Str(adt.variant(vi).name.to_string())]));
                        }
                        v.push(("variants", J::Arr(vs)));
                    }
                }
                J::obj(v)
            }
            Rvalue::Aggregate(kind, ops) => {
                let mut v = vec![("k", J::s("agg"))];
                match &**kind {
                    AggregateKind::Array(t) => {
                        v.push(("ak", J::s("array")));
                        v.push(("elem", J::Str(format!("{}", t))));
                    }
                    AggregateKind::Tuple => v.push(("ak", J::s("tuple"))),
                    AggregateKind::Adt(did, vidx, args, _, active) => {
                        v.push(("ak", J::s("adt")));
                        v.push(("adt", J::Str(self.path(*did))));
                        v.push(("adt_full", J::Str(tcx.def_path_str_with_args(*did, args))));
                        let adt = tcx.adt_def(*did);
                        let var = adt.variant(*vidx);
                        v.push(("variant", J::Str(var.name.to_string())));
                        v.push(("vidx", J::Int(vidx.as_usize() as i128)));
                        let names: Vec<J> = match active {
                            Some(f) => vec![J::Str(var.fields[*f].name.to_string())],
                            None => var.fields.iter().map(|f| J::Str(f.name.to_string())).collect(),
                        };
                        v.push(("fields", J::Arr(names)));
                        if active.is_some() {
                            v.push(("union", J::Bool(true)));
                        }
                        if !did.is_local() {
                            self.foreign_adts.insert(self.path(*did), *did);
                        }
                    }
                    AggregateKind::Closure(did, _) => {
                        v.push(("ak", J::s("closure")));
                        v.push(("closure", J::Str(self.path(*did))));
                    }
                    AggregateKind::RawPtr(t, m) => {
                        v.push(("ak", J::s("rawptr")));
                        v.push(("elem", J::Str(format!("{}", t))));
                        v.push(("mut", J::Bool(m.is_mut())));
                    }
                    other => {
                        v.push(("ak", J::s("other")));
                        v.push(("text", J::Str(format!("{:?}", other))));
                    }
                }
                let os: Vec<J> = ops.iter().map(|o| self.operand(body, o, tenv)).collect();
                v.push(("ops", J::Arr(os)));
                J::obj(v)
            }
            Rvalue::CopyForDeref(p) => {
                let mut j = self.place(body, *p);
                j.push("k", J::s("copy"));
                J::obj(vec![("k", J::s("use")), ("op", j)])
            }
            other => J::obj(vec![("k", J::s("other")), ("text", J::Str(format!("{:?}", other)))]),
        }
    }

    fn statement(&mut self, body: &Body<'tcx>, st: &mir::Statement<'tcx>, tenv: TypingEnv<'tcx>) -> Option<J> {
        let mut v = match &st.kind {
            StatementKind::Assign(b) => {
                let (p, rv) = &**b;
                vec![
                    ("k", J::s("assign")),
                    ("lhs", self.place(body, *p)),
                    ("rv", self.rvalue(body, rv, tenv)),
                ]
            }
            StatementKind::SetDiscriminant { place, variant_index } => {
                let pty = place.ty(&body.local_decls, self.tcx).ty;
                let name = match pty.kind() {
                    ty::Adt(adt, _) => adt.variant(*variant_index).name.to_string(),
                    _ => String::new(),
                };
                vec![
                    ("k", J::s("setdiscr")),
                    ("place", self.place(body, **place)),
                    ("variant", J::Str(name)),
                ]
            }
            StatementKind::Intrinsic(i) => vec![("k", J::s("intrinsic")), ("text", J::Str(format!("{:?}", i)))],
            _ => return None,
        };
        v.push(("span", self.span(st.source_info.span)));
        v.push(("text", J::Str(format!("{:?}", st))));
        Some(J::obj(v))
    }

    fn terminator(&mut self, body: &Body<'tcx>, t: &mir::Terminator<'tcx>, tenv: TypingEnv<'tcx>, owner: DefId) -> J {
        let tcx = self.tcx;
        let bb = |b: mir::BasicBlock| J::Int(b.as_usize() as i128);
        let unwind = |u: &mir::UnwindAction| match u {
            mir::UnwindAction::Cleanup(b) => J::Int(b.as_usize() as i128),
            _ => J::Null,
        };
        let mut v = match &t.kind {
            TerminatorKind::Goto { target } => vec![("k", J::s("goto")), ("target", bb(*target))],
            TerminatorKind::SwitchInt { discr, targets } => {
                let mut ts = Vec::new();
                for (val, tgt) in targets.iter() {
                    ts.push(J::Arr(vec![J::Str(val.to_string()), bb(tgt)]));
                }
                vec![
                    ("k", J::s("switch")),
                    ("discr", self.operand(body, discr, tenv)),
                    ("discr_ty", J::Str(format!("{}", discr.ty(&body.local_decls, tcx)))),
                    ("targets", J::Arr(ts)),
                    ("otherwise", bb(targets.otherwise())),
                ]
            }
            TerminatorKind::Return => vec![("k", J::s("return"))],
            TerminatorKind::Unreachable => vec![("k", J::s("unreachable"))],
            TerminatorKind::UnwindResume => vec![("k", J::s("resume"))],
            TerminatorKind::UnwindTerminate(_) => vec![("k", J::s("terminate"))],
            TerminatorKind::Drop { place, target, unwind: u, .. } => vec![
                ("k", J::s("drop")),
                ("place", self.place(body, *place)),
                ("target", bb(*target)),
                ("unwind", unwind(u)),
            ],
            TerminatorKind::Assert { cond, expected, msg, target, unwind: u } => vec![
                ("k", J::s("assert")),
                ("cond", self.operand(body, cond, tenv)),
                ("expected", J::Bool(*expected)),
                ("msg", J::Str(assert_kind(msg))),
                ("target", bb(*target)),
                ("unwind", unwind(u)),
            ],
            TerminatorKind::Call { func, args, destination, target, unwind: u, .. } => {
                let mut v = vec![("k", J::s("call"))];
                v.push(("func", self.operand(body, func, tenv)));
                let fty = func.ty(&body.local_decls, tcx);
                if let ty::FnDef(cdid, cargs) = fty.kind() {
                    v.push(("callee", J::Str(self.path(*cdid))));
                    v.push(("callee_full", J::Str(tcx.def_path_str_with_args(*cdid, cargs))));
                    let gs: Vec<J> = cargs.iter().map(|a| J::Str(format!("{}", a))).collect();
                    v.push(("gargs", J::Arr(gs)));
                    if let Some(tr) = tcx.trait_of_assoc(*cdid) {
                        v.push(("callee_trait", J::Str(self.path(tr))));
                    }
                    if let Ok(Some(inst)) = Instance::try_resolve(tcx, tenv, *cdid, cargs) {
                        let rdid = inst.def_id();
                        let kind = match inst.def {
                            ty::InstanceKind::Item(_) => "item",
                            ty::InstanceKind::Virtual(..) => "virtual",
                            ty::InstanceKind::Intrinsic(_) => "intrinsic",
                            ty::InstanceKind::FnPtrShim(..) => "fnptr_shim",
                            ty::InstanceKind::ClosureOnceShim { .. } => "closure_once_shim",
                            ty::InstanceKind::DropGlue(..) => "drop_glue",
                            ty::InstanceKind::CloneShim(..) => "clone_shim",
                            _ => "other",
                        };
                        v.push(("resolved", J::Str(self.path(rdid))));
                        v.push(("resolved_full", J::Str(tcx.def_path_str_with_args(rdid, inst.args))));
                        v.push(("resolved_kind", J::s(kind)));
                        if let ty::InstanceKind::DropGlue(_, Some(t)) = inst.def {
                            v.push(("drop_ty", J::Str(format!("{}", t))));
                        }
                    }
                } else {
                    v.push(("indirect", J::Bool(true)));
                    v.push(("func_ty", J::Str(format!("{}", fty))));
                }
                let aj: Vec<J> = args.iter().map(|a| self.operand(body, &a.node, tenv)).collect();
                v.push(("args", J::Arr(aj)));
                v.push(("dest", self.place(body, *destination)));
                v.push(("target", match target { Some(t) => bb(*t), None => J::Null }));
                v.push(("unwind", unwind(u)));
                v
            }
            TerminatorKind::TailCall { func, args, .. } => {
                let aj: Vec<J> = args.iter().map(|a| self.operand(body, &a.node, tenv)).collect();
                vec![("k", J::s("tailcall")), ("func", self.operand(body, func, tenv)), ("args", J::Arr(aj))]
            }
            TerminatorKind::InlineAsm { targets, .. } => {
                let ts: Vec<J> = targets.iter().map(|t| bb(*t)).collect();
                vec![("k", J::s("asm")), ("targets", J::Arr(ts))]
            }
            other => vec![("k", J::s("other")), ("text", J::Str(format!("{:?}", other)))],
        };
        let _ = owner;
        v.push(("span", self.span(t.source_info.span)));
        J::obj(v)
    }

    fn adt(&mut self, did: DefId, local: bool) -> J {
        let tcx = self.tcx;
        let adt = tcx.adt_def(did);
        let mut v = vec![
            ("path", J::Str(self.path(did))),
            ("kind", J::s(if adt.is_enum() { "enum" } else if adt.is_union() { "union" } else { "struct" })),
            ("local", J::Bool(local)),
        ];
        let repr = adt.repr();
        v.push(("repr_c", J::Bool(repr.c())));
        v.push(("repr_transparent", J::Bool(repr.transparent())));
        v.push(("repr_packed", J::Bool(repr.packed())));
        v.push(("has_dtor", J::Bool(adt.has_dtor(tcx))));
        let generics = tcx.generics_of(did);
        let gs: Vec<J> = generics.own_params.iter().map(|p| J::Str(p.name.to_string())).collect();
        v.push(("generics", J::Arr(gs)));
        if local {
            v.push(("span", self.span(tcx.def_span(did))));
            v.push(("vis", J::Str(format!("{:?}", tcx.visibility(did)))));
        }
        let mut vars = Vec::new();
        let discrs: Vec<(rustc_abi::VariantIdx, u128)> = if adt.is_enum() {
            adt.discriminants(tcx).map(|(i, d)| (i, d.val)).collect()
        } else {
            Vec::new()
        };
        for (vi, var) in adt.variants().iter_enumerated() {
            let mut fields = Vec::new();
            for f in var.fields.iter() {
                let fty = tcx.type_of(f.did).instantiate_identity().skip_norm_wip();
                fields.push(J::obj(vec![
                    ("name", J::Str(f.name.to_string())),
                    ("ty", J::Str(format!("{}", fty))),
                    ("vis", J::Str(format!("{:?}", f.vis))),
                ]));
            }
            let d = discrs.iter().find(|(i, _)| *i == vi).map(|(_, d)| *d);
            vars.push(J::obj(vec![
                ("name", J::Str(var.name.to_string())),
                ("discr", match d { Some(d) => J::Str(d.to_string()), None => J::Null }),
                ("fields", J::Arr(fields)),
            ]));
        }
        v.push(("variants", J::Arr(vars)));
        // Layout for non-generic ADTs.
        if generics.own_params.iter().all(|p| matches!(p.kind, ty::GenericParamDefKind::Lifetime)) && generics.parent.is_none() {
            let ty = tcx.type_of(did).instantiate_identity().skip_norm_wip();
            let tenv = TypingEnv::fully_monomorphized();
            let ty = tcx.erase_and_anonymize_regions(ty);
            if let Ok(layout) = tcx.layout_of(tenv.as_query_input(ty)) {
                v.push(("size", J::Int(layout.size.bytes() as i128)));
                v.push(("align", J::Int(layout.align.abi.bytes() as i128)));
                if !adt.is_enum() {
                    let n = adt.non_enum_variant().fields.len();
                    let mut offs = Vec::new();
                    for i in 0..n {
                        offs.push(J::Int(layout.fields.offset(i).bytes() as i128));
                    }
                    v.push(("offsets", J::Arr(offs)));
                    let mut sizes = Vec::new();
                    for f in adt.non_enum_variant().fields.iter() {
                        let fty = tcx.type_of(f.did).instantiate_identity().skip_norm_wip();
                        let fty = tcx.erase_and_anonymize_regions(fty);
                        match tcx.layout_of(tenv.as_query_input(fty)) {
                            Ok(l) => sizes.push(J::Int(l.size.bytes() as i128)),
                            Err(_) => sizes.push(J::Null),
                        }
                    }
                    v.push(("field_sizes", J::Arr(sizes)));
                }
            }
        }
        J::obj(v)
    }

    fn trait_(&mut self, did: DefId) -> J {
        let tcx = self.tcx;
        let mut v = vec![("path", J::Str(self.path(did)))];
        let sup: Vec<J> = tcx
            .explicit_super_predicates_of(did)
            .iter_identity_copied()
            .map(|u| J::Str(format!("{}", u.skip_norm_wip().0)))
            .collect();
        v.push(("super", J::Arr(sup)));
        let preds: Vec<J> = tcx
            .predicates_of(did)
            .instantiate_identity(tcx)
            .predicates
            .iter()
            .map(|p| J::Str(format!("{}", p.skip_norm_wip())))
            .collect();
        v.push(("preds", J::Arr(preds)));
        v.push(("unsafe", J::Bool(!tcx.trait_def(did).safety.is_safe())));
        let mut items = Vec::new();
        for it in tcx.associated_items(did).in_definition_order() {
            items.push(J::obj(vec![
                ("name", J::Str(it.name().to_string())),
                ("kind", J::Str(format!("{:?}", it.kind))),
                ("has_default", J::Bool(it.defaultness(tcx).has_value())),
            ]));
        }
        v.push(("items", J::Arr(items)));
        v.push(("span", self.span(tcx.def_span(did))));
        J::obj(v)
    }

    fn impl_(&mut self, did: DefId) -> J {
        let tcx = self.tcx;
        let mut v = vec![("path", J::Str(self.path(did)))];
        let st = tcx.type_of(did).instantiate_identity().skip_norm_wip();
        v.push(("self", J::Str(format!("{}", st))));
        if let ty::Adt(adt, _) = st.kind() {
            v.push(("self_adt", J::Str(self.path(adt.did()))));
        }
        if let Some(tr) = tcx.impl_opt_trait_ref(did) {
            let tr = tr.instantiate_identity().skip_norm_wip();
            v.push(("trait", J::Str(self.path(tr.def_id))));
            v.push(("trait_full", J::Str(format!("{}", tr))));
            v.push(("negative", J::Bool(matches!(tcx.impl_polarity(did), ty::ImplPolarity::Negative))));
        }
        let preds: Vec<J> = tcx
            .predicates_of(did)
            .instantiate_identity(tcx)
            .predicates
            .iter()
            .map(|p| J::Str(format!("{}", p.skip_norm_wip())))
            .collect();
        v.push(("preds", J::Arr(preds)));
        let mut items = Vec::new();
        for it in tcx.associated_items(did).in_definition_order() {
            items.push(J::obj(vec![
                ("name", J::Str(it.name().to_string())),
                ("kind", J::Str(format!("{:?}", it.kind))),
                ("path", J::Str(self.path(it.def_id))),
            ]));
        }
        v.push(("items", J::Arr(items)));
        v.push(("span", self.span(tcx.def_span(did))));
        J::obj(v)
    }

    fn const_item(&mut self, did: DefId) -> Option<J> {
        let tcx = self.tcx;
        if tcx.generics_of(did).requires_monomorphization(tcx) {
            return None;
        }
        let is_static = matches!(tcx.def_kind(did), DefKind::Static { .. });
        let ty = tcx.type_of(did).instantiate_identity().skip_norm_wip();
        let mut v = vec![
            ("path", J::Str(self.path(did))),
            ("ty", J::Str(format!("{}", ty))),
            ("static", J::Bool(is_static)),
            ("span", self.span(tcx.def_span(did))),
        ];
        let newtype_int = match ty.kind() {
            ty::Adt(adt, args) if adt.is_struct() && adt.non_enum_variant().fields.len() == 1 => {
                let f = adt.non_enum_variant().fields.iter().next().unwrap();
                let fty = tcx.type_of(f.did).instantiate(tcx, args).skip_norm_wip();
                fty.is_integral()
            }
            _ => false,
        };
        if !is_static && (ty.is_integral() || ty.is_bool() || newtype_int) {
            if let Ok(val) = tcx.const_eval_poly(did) {
                if let Some(si) = val.try_to_scalar_int() {
                    let size = si.size();
                    let bits = si.to_bits(size);
                    let signed = if ty.is_signed() { size.sign_extend(bits) as i128 } else { bits as i128 };
                    v.push(("val", J::Str(signed.to_string())));
                    v.push(("bits", J::Str(bits.to_string())));
                }
            }
        }
        // aggregate constants of this crate (`const TABLE: [(u32, &str); 4] = [..]`): the statements of the
        // initialiser, so a table can be read row by row with the names of the constants it is built from
        if !is_static && did.is_local() && tcx.hir_maybe_body_owned_by(did.expect_local()).is_some() {
            let body = tcx.mir_for_ctfe(did.expect_local());
            let tenv = TypingEnv::post_analysis(tcx, did);
            let straight = body.basic_blocks.iter().all(|d| matches!(d.terminator().kind, mir::TerminatorKind::Goto { .. } | mir::TerminatorKind::Return));
            if straight && body.basic_blocks.len() <= 4 {
                let mut st = Vec::new();
                for data in body.basic_blocks.iter() {
                    for s in &data.statements {
                        if let Some(j) = self.statement(body, s, tenv) {
                            st.push(j);
                        }
                    }
                }
                v.push(("init", J::Arr(st)));
            }
        }
        Some(J::obj(v))
    }
}

fn cont_if_impl(_tcx: TyCtxt<'_>, did: DefId) -> DefId {
    did
}

fn binop(op: BinOp) -> &'static str {
    match op {
        BinOp::Add => "Add",
        BinOp::AddUnchecked => "AddUnchecked",
        BinOp::AddWithOverflow => "AddWithOverflow",
        BinOp::Sub => "Sub",
        BinOp::SubUnchecked => "SubUnchecked",
        BinOp::SubWithOverflow => "SubWithOverflow",
        BinOp::Mul => "Mul",
        BinOp::MulUnchecked => "MulUnchecked",
        BinOp::MulWithOverflow => "MulWithOverflow",
        BinOp::Div => "Div",
        BinOp::Rem => "Rem",
        BinOp::BitXor => "BitXor",
        BinOp::BitAnd => "BitAnd",
        BinOp::BitOr => "BitOr",
        BinOp::Shl => "Shl",
        BinOp::ShlUnchecked => "ShlUnchecked",
        BinOp::Shr => "Shr",
        BinOp::ShrUnchecked => "ShrUnchecked",
        BinOp::Eq => "Eq",
        BinOp::Lt => "Lt",
        BinOp::Le => "Le",
        BinOp::Ne => "Ne",
        BinOp::Ge => "Ge",
        BinOp::Gt => "Gt",
        BinOp::Cmp => "Cmp",
        BinOp::Offset => "Offset",
    }
}

fn assert_kind<'tcx>(msg: &mir::AssertKind<Operand<'tcx>>) -> String {
    use mir::AssertKind::*;
    match msg {
        BoundsCheck { .. } => "BoundsCheck".into(),
        Overflow(op, ..) => format!("Overflow({})", binop(*op)),
        OverflowNeg(_) => "OverflowNeg".into(),
        DivisionByZero(_) => "DivisionByZero".into(),
        RemainderByZero(_) => "RemainderByZero".into(),
        MisalignedPointerDereference { .. } => "MisalignedPointerDereference".into(),
        NullPointerDereference => "NullPointerDereference".into(),
        other => {
            let s = format!("{:?}", other);
            s.split(|c: char| !c.is_alphanumeric()).next().unwrap_or("").to_string()
        }
    }
}
