#!/usr/bin/env python3
"""Apply a patch to a scratch copy of /repo and run the checks against it.
usage: try_patch.py <patch.diff> [C01 C02 ...]   (default: all properties)"""
import os, shutil, subprocess, sys, tempfile
sys.path.insert(0, os.path.dirname(os.path.dirname(os.path.abspath(__file__))))
from rules import vitality
patch = os.path.abspath(sys.argv[1])
props = sys.argv[2:]
tmp = vitality.scratch_copy('/repo')
out = tempfile.mkdtemp(prefix='a10try.')
try:
    if not vitality.apply({'patch': patch}, tmp):
        print('patch does not apply'); sys.exit(2)
    cmd = [sys.executable, '/verif/run.py', '--repo', tmp, '--out-dir', out] + (sum([['-p', p] for p in props], []) if props else ['--all'])
    r = subprocess.run(cmd, stdout=subprocess.PIPE, stderr=subprocess.STDOUT, text=True)
    for line in r.stdout.splitlines():
        if 'KNOWN-FINDING' in line or line.endswith('[quick]'):
            continue
        print(line[:400])
    print('exit', r.returncode)
finally:
    shutil.rmtree(tmp, ignore_errors=True); shutil.rmtree(out, ignore_errors=True)
