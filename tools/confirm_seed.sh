#!/bin/bash
# Confirm a seeded change independently: demo passes on the unchanged tree, fails with the
# patch; the existing suite still passes with the patch. Usage: confirm_seed.sh <dir with patch.diff and demo/>
# Works in a throw-away git worktree under /tmp/confirm and removes it afterwards.
set -u
SRC=$1
NAME=$(basename "$SRC")
WT=/tmp/confirm/$NAME
rm -rf "$WT"; mkdir -p /tmp/confirm
git -C /repo worktree add -q --detach "$WT" HEAD || exit 2
cleanup() { git -C /repo worktree remove --force "$WT" 2>/dev/null; rm -rf "$WT"; }
trap cleanup EXIT
# private temp dir: the suite uses fixed names under $TMPDIR, concurrent runs would collide
export TMPDIR="$WT/.tmp"; mkdir -p "$TMPDIR"
# install demo files (tests/ or examples/)
if [ -d "$SRC/demo/tests" ]; then cp -r "$SRC/demo/tests/." "$WT/tests/"; fi
if [ -d "$SRC/demo/examples" ]; then cp -r "$SRC/demo/examples/." "$WT/examples/"; fi
DEMOS=$(cd "$SRC/demo" 2>/dev/null && find tests examples -maxdepth 1 -name '*.rs' 2>/dev/null | sed 's#.*/##; s#\.rs$##' | tr '\n' ' ')
echo "demos: $DEMOS"
run_demos() {
  rc=0
  for d in $DEMOS; do
    if [ -f "$WT/tests/$d.rs" ]; then
      (cd "$WT" && timeout 600 cargo test --offline --test "$d" -- --test-threads=1 > "$WT/demo_$d.log" 2>&1 < /dev/null); r=$?
    else
      (cd "$WT" && timeout 600 cargo run --offline --example "$d" > "$WT/demo_$d.log" 2>&1 < /dev/null); r=$?
    fi
    pkill -x sleep 2>/dev/null
    echo "  demo $d exit=$r: $(grep -E '^test result|panicked|FAILED' "$WT/demo_$d.log" | head -3 | tr '\n' ' ')"
    [ $r -ne 0 ] && rc=1
  done
  return $rc
}
echo "== unchanged tree"; run_demos; U=$?
(cd "$WT" && git apply "$SRC/patch.diff") || { echo "patch does not apply"; exit 2; }
echo "== with patch"; run_demos; P=$?
# full suite with the patch, demo files removed
for d in $DEMOS; do rm -f "$WT/tests/$d.rs" "$WT/examples/$d.rs"; done
(cd "$WT" && timeout 900 cargo test --workspace --no-fail-fast --offline > "$WT/suite.log" 2>&1 < /dev/null); S=$?
pkill -x sleep 2>/dev/null
cp "$WT/suite.log" "/tmp/confirm_$NAME.suite.log" 2>/dev/null
echo "== suite with patch exit=$S: $(grep -E '^test result' "$WT/suite.log" | tr '\n' ' ')"
echo "SUMMARY name=$NAME demo_unchanged_ok=$([ $U -eq 0 ] && echo yes || echo no) demo_patched_fails=$([ $P -ne 0 ] && echo yes || echo no) suite_ok=$([ $S -eq 0 ] && echo yes || echo no)"
