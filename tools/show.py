#!/usr/bin/env python3
"""Debug helper: pretty-print the MIR facts of functions matching a regex."""
import sys, json, re
sys.path.insert(0, '/verif')
from rules.kernel import *
facts = Facts(sys.argv[1])
rx = re.compile(sys.argv[2])
def opstr(o):
    if o.get('k') == 'const':
        return 'const %s' % (o.get('def') or o.get('fn_full') or o.get('text'))
    return ('move ' if o.get('k')=='move' else '') + place_str(o)
for f in facts.func_list:
    if not rx.search(f.path): continue
    print('fn', f.path, f.where(), 'args', f.nargs)
    for d in f.debug:
        v = d['val']; print('   dbg', d['name'], place_str(v) if 'l' in v else v.get('text'))
    for b, blk in enumerate(f.blocks):
        print(' bb%d%s:' % (b, ' (cleanup)' if blk['cleanup'] else ''))
        for s in blk['stmts']:
            m = s['span'].get('macros')
            print('     %-90s ; L%d %s' % (s['text'][:140], s['span']['line'], (m[-1] if m else '')))
        t = blk['term']
        k = t['k']
        if k == 'call':
            print('     %s = CALL %s(%s) -> bb%s unwind %s   [res=%s] ; L%d' % (place_str(t['dest']), t.get('callee_full') or opstr(t['func']), ', '.join(opstr(a) for a in t['args']), t['target'], t['unwind'], t.get('resolved_full'), t['span']['line']))
        elif k == 'switch':
            print('     SWITCH %s -> %s otherwise bb%s' % (opstr(t['discr']), t['targets'], t['otherwise']))
        elif k == 'drop':
            print('     DROP %s : %s -> bb%s' % (place_str(t['place']), t['place']['ty'], t['target']))
        elif k == 'assert':
            print('     ASSERT %s == %s (%s) -> bb%s' % (opstr(t['cond']), t['expected'], t['msg'], t['target']))
        else:
            print('     %s %s' % (k.upper(), t.get('target', '')))
