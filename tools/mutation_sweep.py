#!/usr/bin/env python3
"""Mechanical mutation sweep over the line ranges the properties are anchored in (properties.jsonl, anchors.mechanism[].where):
one-line edits (statement deleted, comparison / arithmetic operator flipped, constant flipped, atomic ordering weakened) are
applied one at a time to a scratch copy of /repo and the anchored property's check is run on it.  Survivors (edits that
compile and are not reported) are *candidates* for coverage gaps: they are triaged by reading (many are equivalent or
irrelevant to the property: logging, debug assertions, asan hooks).  Nothing is applied to /repo itself.

usage: mutation_sweep.py [-p C10] [--all-props-on-survivors] [--out sweep.json] [--workers 14]"""
import argparse, json, os, re, shutil, subprocess, sys, tempfile
from concurrent.futures import ThreadPoolExecutor
HERE = os.path.dirname(os.path.dirname(os.path.abspath(__file__)))
sys.path.insert(0, HERE)
from rules import vitality

FLIPS = [
    (r'<=', '<'), (r'>=', '>'), (r'(?<![<>=!-])<(?![<=])(?= )', '<='), (r'(?<![<>=!-])>(?![>=])(?= )', '>='), (r'==', '!='), (r'!=', '=='),
    (r' \+= ', ' -= '), (r' -= ', ' += '), (r' \|= ', ' &= '), (r' && ', ' || '), (r' \|\| ', ' && '),
    (r'wrapping_add', 'wrapping_sub'), (r'wrapping_sub', 'wrapping_add'), (r'saturating_sub', 'wrapping_sub'),
    (r'\btrue\b', 'false'), (r'\bfalse\b', 'true'),
    (r'Ordering::(Acquire|Release|AcqRel|SeqCst)', 'Ordering::Relaxed'),
    (r' \+ 1\b', ' + 2'), (r' - 1\b', ' - 2'), (r'\.min\(', '.max('), (r'\bmin\(', 'max('),
    (r'\bSome\((\w+)\) =>', r'Some(\1) if false =>'),
]
SKIP_LINE = re.compile(r'^\s*(//|#\[|log::|debug_assert|asan::|use |pub use |\}|\{|$)|trace!|unreachable!|///')


def ranges(prop):
    out = []
    for l in open(os.path.join(HERE, 'properties.jsonl')):
        p = json.loads(l)
        if prop and p['id'] != prop:
            continue
        for mech in p['anchors'].get('mechanism', []) + p['anchors'].get('state', []):
            for part in mech.get('where', '').split(';'):
                m = re.match(r'\s*(src/[\w/\.]+):([\d,\-]+)\s*$', part)
                if not m:
                    continue
                for rg in m.group(2).split(','):
                    a, _, b = rg.partition('-')
                    out.append((p['id'], m.group(1), int(a), int(b or a)))
    return out


def mutants(prop, pad=6):
    seen = set()
    for pid, file, lo, hi in ranges(prop):
        path = os.path.join('/repo', file)
        if not os.path.exists(path):
            continue
        lines = open(path).read().split('\n')
        for i in range(max(0, lo - 1 - pad), min(len(lines), hi + pad)):
            ln = lines[i]
            if SKIP_LINE.search(ln):
                continue
            cand = []
            s = ln.strip()
            # statement deletion: a one-line statement
            if s.endswith(';') and not s.startswith(('let ', 'return', 'const ', 'static ', 'type ', 'pub ', 'fn ')) and s.count('(') == s.count(')') and s.count('{') == s.count('}'):
                cand.append(('delete', ''))
            for pat, rep in FLIPS:
                for m in re.finditer(pat, ln):
                    new = ln[:m.start()] + m.expand(rep) + ln[m.end():]
                    cand.append(('%s->%s@%d' % (m.group(0).strip(), rep.strip(), m.start()), new))
            for kind, new in cand:
                key = (pid, file, i, new)
                if key in seen:
                    continue
                seen.add(key)
                yield {'property': pid, 'file': file, 'line': i + 1, 'kind': kind, 'old': ln, 'new': new}


def run(m, props=None):
    tmp = vitality.scratch_copy('/repo')
    out = tempfile.mkdtemp(prefix='a10swp.')
    try:
        p = os.path.join(tmp, m['file'])
        lines = open(p).read().split('\n')
        assert lines[m['line'] - 1] == m['old']
        lines[m['line'] - 1] = m['new']
        open(p, 'w').write('\n'.join(lines))
        args = ['--all'] if props == 'all' else ['-p', m['property']]
        r = subprocess.run([sys.executable, os.path.join(HERE, 'run.py')] + args + ['--repo', tmp, '--out-dir', out, '--tier', 'quick'],
                           stdout=subprocess.PIPE, stderr=subprocess.STDOUT, text=True)
        if 'fact extraction failed' in r.stdout:
            return dict(m, status='invalid')
        keys = re.findall(r'^\s+violated (.+?) at ', r.stdout, flags=re.M)
        if 'Traceback' in r.stdout:
            keys.append('TRACEBACK')
        return dict(m, status='caught' if keys else 'missed', keys=keys[:3])
    finally:
        shutil.rmtree(tmp, ignore_errors=True)
        shutil.rmtree(out, ignore_errors=True)


if __name__ == '__main__':
    ap = argparse.ArgumentParser()
    ap.add_argument('-p', '--property')
    ap.add_argument('--out', default='/tmp/sweep.json')
    ap.add_argument('--workers', type=int, default=14)
    ap.add_argument('--limit', type=int, default=0)
    ap.add_argument('--recheck', help='re-run the survivors of an earlier sweep file with all properties')
    a = ap.parse_args()
    if a.recheck:
        ms = [m for m in json.load(open(a.recheck)) if m['status'] == 'missed']
        with ThreadPoolExecutor(max_workers=a.workers) as ex:
            res = list(ex.map(lambda m: run(m, 'all'), ms))
    else:
        ms = list(mutants(a.property))
        if a.limit:
            ms = ms[:a.limit]
        print('%d mutants' % len(ms), flush=True)
        with ThreadPoolExecutor(max_workers=a.workers) as ex:
            res = list(ex.map(run, ms))
    json.dump(res, open(a.out, 'w'), indent=1)
    n = {}
    for x in res:
        n[x['status']] = n.get(x['status'], 0) + 1
    print(n)
    for x in res:
        if x['status'] == 'missed':
            print('%s %s:%d [%s]  %s' % (x['property'], x['file'], x['line'], x['kind'], x['old'].strip()[:110]))
