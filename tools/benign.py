#!/usr/bin/env python3
"""False-alarm probe: apply behaviour-preserving rewrites (benign/cases.json) to scratch copies of /repo and
require the checks of the named properties to stay quiet.  Developer tool (not a registered check): an alarm
here is a defect of the machinery, never a statement about /repo.
usage: python3 tools/benign.py [id ...]"""
import json, os, shutil, subprocess, sys, tempfile
from concurrent.futures import ThreadPoolExecutor
HERE = os.path.dirname(os.path.dirname(os.path.abspath(__file__)))
sys.path.insert(0, HERE)
from rules import vitality

def run(c):
    tmp = vitality.scratch_copy('/repo'); out = tempfile.mkdtemp(prefix='a10benign.')
    try:
        p = os.path.join(tmp, c['file']); s = open(p).read()
        for old, new in [[c['old'], c['new']]] + c.get('edits', []):
            if s.count(old) != 1:
                return c['id'], 'DOES-NOT-APPLY', []
            s = s.replace(old, new)
        open(p, 'w').write(s)
        for file2, old, new in c.get('edits_other', []):
            p2 = os.path.join(tmp, file2); s2 = open(p2).read()
            if s2.count(old) != 1:
                return c['id'], 'DOES-NOT-APPLY', []
            open(p2, 'w').write(s2.replace(old, new))
        cmd = [sys.executable, os.path.join(HERE, 'run.py'), '--repo', tmp, '--out-dir', out] + sum([['-p', x] for x in c['props']], [])
        r = subprocess.run(cmd, stdout=subprocess.PIPE, stderr=subprocess.STDOUT, text=True)
        bad = [l.strip()[:300] for l in r.stdout.splitlines() if 'violated' in l or 'extraction failed' in l or 'Traceback' in l]
        return c['id'], 'ALARM' if bad else 'quiet', bad
    finally:
        shutil.rmtree(tmp, ignore_errors=True); shutil.rmtree(out, ignore_errors=True)

cases = json.load(open(os.path.join(HERE, 'benign', 'cases.json')))
if sys.argv[1:]:
    cases = [c for c in cases if c['id'] in sys.argv[1:]]
with ThreadPoolExecutor(max_workers=8) as ex:
    res = list(ex.map(run, cases))
n = 0
for cid, st, bad in res:
    print('%-28s %s' % (cid, st))
    for b in bad:
        print('     ' + b)
    n += st != 'quiet'
sys.exit(1 if n else 0)
