#!/usr/bin/env python3
"""Install a confirmed seeded change under /verif/seeded/<id>/ (patch.diff, demo/, meta.json).
usage: install_seed.py <src dir> <id> <property> --expect KEY [--also C06:KEY ...] --what TEXT --needs TEXT --confirm LOGFILE"""
import argparse, json, os, shutil, re
ap = argparse.ArgumentParser()
ap.add_argument('src'); ap.add_argument('id'); ap.add_argument('property')
ap.add_argument('--expect', required=True); ap.add_argument('--also', action='append', default=[])
ap.add_argument('--what', required=True); ap.add_argument('--needs', required=True); ap.add_argument('--confirm', required=True)
ap.add_argument('--origin', default='independent sub-agent given only the property text and a scratch worktree')
a = ap.parse_args()
dst = os.path.join('/verif/seeded', a.id)
os.makedirs(dst, exist_ok=True)
shutil.copy(os.path.join(a.src, 'patch.diff'), os.path.join(dst, 'patch.diff'))
if os.path.isdir(os.path.join(a.src, 'demo')):
    shutil.rmtree(os.path.join(dst, 'demo'), ignore_errors=True)
    shutil.copytree(os.path.join(a.src, 'demo'), os.path.join(dst, 'demo'))
if os.path.exists(os.path.join(a.src, 'notes.md')):
    shutil.copy(os.path.join(a.src, 'notes.md'), os.path.join(dst, 'notes.md'))
log = open(a.confirm).read()
summary = re.findall(r'^SUMMARY.*$', log, flags=re.M)
keys = {a.property: a.expect}
also = []
for x in a.also:
    p, k = x.split(':', 1)
    keys[p] = k
    also.append(p)
meta = {
    'property': a.property, 'also': also, 'what': a.what, 'needs_to_manifest': a.needs, 'origin': a.origin,
    'confirmed_by': 'bash /verif/tools/confirm_seed.sh (fresh git worktree of /repo: demo passes unchanged, fails with patch.diff, existing suite passes with patch.diff)',
    'confirmation': summary[-1] if summary else log[-400:],
    'checks_run': 'python3 /verif/tools/try_patch.py seeded/%s/patch.diff (scratch copy of /repo, all properties)' % a.id,
    'expect_keys': keys, 'expect': a.expect,
}
json.dump(meta, open(os.path.join(dst, 'meta.json'), 'w'), indent=1)
print('installed', dst)
