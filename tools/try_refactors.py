#!/usr/bin/env python3
"""Replay behaviour-preserving refactorings (patch files) on scratch copies of /repo and list every alarm the
checks raise on them.  usage: try_refactors.py <patch> [<patch> ...]   (runs all properties on each)"""
import os, shutil, subprocess, sys, tempfile
from concurrent.futures import ThreadPoolExecutor
HERE = os.path.dirname(os.path.dirname(os.path.abspath(__file__)))
sys.path.insert(0, HERE)
from rules import vitality

def run(patch):
    tmp = vitality.scratch_copy('/repo'); out = tempfile.mkdtemp(prefix='a10ref.')
    try:
        if not vitality.apply({'patch': os.path.abspath(patch)}, tmp):
            return patch, 'DOES-NOT-APPLY', []
        r = subprocess.run([sys.executable, os.path.join(HERE, 'run.py'), '--all', '--repo', tmp, '--out-dir', out], stdout=subprocess.PIPE, stderr=subprocess.STDOUT, text=True)
        if 'fact extraction failed' in r.stdout:
            return patch, 'DOES-NOT-COMPILE', []
        bad = [l.strip()[:330] for l in r.stdout.splitlines() if l.strip().startswith('violated') or 'Traceback' in l]
        return patch, 'ALARM' if bad else 'quiet', bad
    finally:
        shutil.rmtree(tmp, ignore_errors=True); shutil.rmtree(out, ignore_errors=True)

with ThreadPoolExecutor(max_workers=int(os.environ.get("A10_WORKERS", "5"))) as ex:
    res = list(ex.map(run, sys.argv[1:]))
n = 0
for patch, st, bad in res:
    print('%-40s %s' % ('/'.join(patch.split('/')[-2:]), st))
    for b in bad:
        print('     ' + b)
    n += st == 'ALARM'
sys.exit(1 if n else 0)
