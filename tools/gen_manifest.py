#!/usr/bin/env python3
"""Generate /verif/MANIFEST.json from the rule modules that exist.

A property is claimed iff rules/cNN.py exists and defines `check`; everything
else is listed under not_applicable with the reason from NA below."""
import importlib
import json
import os
import sys

HERE = os.path.dirname(os.path.dirname(os.path.abspath(__file__)))
sys.path.insert(0, HERE)

NA = {}
PENDING = 'check not built yet in this session (static rules are designed in DESIGN.md §3); not claimed until the rule module exists'

TECH = 'static analysis: custom rules (CFG dominance/path, def-use origins, typestate, call-graph who-may-call) over rustc MIR + type facts'

props = [json.loads(l) for l in open(os.path.join(HERE, 'properties.jsonl'))]
checks = []
na = []
for p in props:
    pid = p['id']
    path = os.path.join(HERE, 'rules', pid.lower() + '.py')
    if os.path.exists(path):
        mod = importlib.import_module('rules.' + pid.lower())
        checks.append({
            'property_id': pid,
            'quick_cmd': 'python3 run.py --property %s --tier quick' % pid,
            'thorough_cmd': 'python3 run.py --property %s --tier thorough' % pid,
            'evidence_file': '/verif/evidence/%s.json' % pid,
            'replay_cmd_template': 'cat {path}',
            'engine': 'a10-rules',
            'level_claimed': {
                'category': 'other',
                'text': getattr(mod, 'LEVEL_TEXT', None) or (
                    'Static rule checking of the structural necessary conditions of this property on every CFG path / '
                    'every impl of the current tree (not a proof of the behavioural statement). ' + getattr(mod, 'EXPLANATION', '')),
                'design_ref': 'DESIGN.md §3 ' + pid,
            },
            'level_note': 'Trusted base: rustc nightly MIR (mir-opt-level=0, dev profile) of the host target, the fact extractor, '
                          'std Mutex/Arc/Box/atomics semantics, the hand-written io_uring ABI table where used. Not decided: '
                          + (getattr(mod, 'NOT_DECIDED', '') or 'see DESIGN.md'),
            'technique': getattr(mod, 'TECHNIQUE', TECH),
        })
    else:
        na.append({'property_id': pid, 'reason': NA.get(pid, PENDING)})

manifest = {
    'version': 1,
    'setup_cmd': 'cd tools/a10-facts && cargo +nightly build --release --offline',
    'hooks': {
        'guard': 'none',
        'enable': 'no source hooks: checks analyse /repo as it is (cargo +nightly check with the fact extractor as RUSTC_WORKSPACE_WRAPPER)',
        'baseline_off_cmd': 'bash /verif/tools/repo_tests.sh /repo',
        'source_commits': [],
        'add_only': True,
    },
    'engines': [
        {'name': 'a10-facts', 'path': 'tools/a10-facts', 'serves_properties': [c['property_id'] for c in checks],
         'kind_free_text': 'rustc_private driver dumping MIR/types/traits/consts of the a10 crate as JSON facts'},
        {'name': 'a10-rules', 'path': 'rules', 'serves_properties': [c['property_id'] for c in checks],
         'kind_free_text': 'Python rule kernel (CFG, dominators, def-use/origin, guard liveness, counter typestate) and per-property rules'},
    ],
    'checks': checks,
    'not_applicable': na,
    'notes': 'All checks are static (no execution of a10). Known findings: known_findings.txt. See DESIGN.md.',
}
with open(os.path.join(HERE, 'MANIFEST.json'), 'w') as fh:
    json.dump(manifest, fh, indent=1)
print('claimed', [c['property_id'] for c in checks])
print('not claimed', [n['property_id'] for n in na])
