#!/usr/bin/env python3
"""Entry point of the static checks.

  python3 run.py --property C04 --tier quick
  python3 run.py --all [--tier thorough]

Every invocation re-extracts facts from the current working tree of the
repository (default /repo) with the rustc_private driver in tools/a10-facts,
applies the rules of the property (rules/cNN.py), writes evidence/<id>.json and
evidence/<id>.report.txt, prints KNOWN-FINDING / VIOLATION lines and exits 0/1.
"""
import argparse
import importlib
import json
import os
import shutil
import subprocess
import sys
import tempfile
import time

HERE = os.path.dirname(os.path.abspath(__file__))
sys.path.insert(0, HERE)

from rules.kernel import Facts, AnchorMissing  # noqa: E402
from rules.report import Ctx  # noqa: E402

DRIVER = os.path.join(HERE, 'tools', 'a10-facts', 'target', 'release', 'a10-facts')
PROPS = ['C%02d' % i for i in range(1, 19)]


def sh(cmd, **kw):
    return subprocess.run(cmd, stdout=subprocess.PIPE, stderr=subprocess.STDOUT, text=True, **kw)


def ensure_driver():
    if os.path.exists(DRIVER):
        return
    r = sh(['cargo', '+nightly', 'build', '--release', '--offline'], cwd=os.path.join(HERE, 'tools', 'a10-facts'))
    if r.returncode != 0 or not os.path.exists(DRIVER):
        sys.stderr.write(r.stdout)
        raise SystemExit('cannot build the a10-facts driver')


def nightly_sysroot():
    r = subprocess.run(['rustc', '+nightly', '--print', 'sysroot'], stdout=subprocess.PIPE, text=True)
    return r.stdout.strip()


def extract(repo, features=None, keep=None):
    """Run the driver over `repo`'s working tree; returns path of a fact file
    inside a fresh temp dir (caller removes dir)."""
    ensure_driver()
    tmp = tempfile.mkdtemp(prefix='a10facts.')
    out = os.path.join(tmp, 'facts.json')
    env = dict(os.environ)
    env['LD_LIBRARY_PATH'] = os.path.join(nightly_sysroot(), 'lib') + ':' + env.get('LD_LIBRARY_PATH', '')
    env['RUSTFLAGS'] = '-Zmir-opt-level=0 -Awarnings'
    env['RUSTC_WORKSPACE_WRAPPER'] = DRIVER
    env['A10_FACTS_OUT'] = out
    env['CARGO_TARGET_DIR'] = os.path.join(tmp, 'target')
    env['CARGO_NET_OFFLINE'] = 'true'
    cmd = ['cargo', '+nightly', 'check', '--offline', '--lib']
    if features:
        cmd += ['--features', features]
    r = sh(cmd, cwd=repo, env=env)
    shutil.rmtree(os.path.join(tmp, 'target'), ignore_errors=True)
    if r.returncode != 0 or not os.path.exists(out):
        shutil.rmtree(tmp, ignore_errors=True)
        sys.stderr.write(r.stdout[-4000:])
        raise SystemExit('fact extraction failed (does the tree compile?)')
    return tmp, out


def load_known(path):
    known = {}
    fixed = []
    if not os.path.exists(path):
        return known, fixed
    for line in open(path):
        line = line.strip()
        if not line or line.startswith('#'):
            continue
        if line.startswith('known:'):
            parts = line.split(None, 3)
            prop = parts[1].split('=', 1)[1]
            key = parts[2].split('=', 1)[1]
            what = parts[3] if len(parts) > 3 else ''
            known[(prop, key)] = what
        elif line.startswith('fixed:'):
            fixed.append(line)
    return known, fixed


OUT_DIR = None


def out_dir():
    return OUT_DIR or os.path.join(HERE, 'evidence')


def run_property(prop, tier, facts_by_cfg, repo, seed):
    t0 = time.time()
    mod = importlib.import_module('rules.%s' % prop.lower())
    ctxs = []
    for cfg_name, facts in facts_by_cfg.items():
        ctx = Ctx(prop, facts, tier, cfg_name)
        ctx.repo = repo
        mod.check(ctx)
        ctxs.append(ctx)
    # extra (non-MIR) parts, e.g. witnesses; run once
    extra = getattr(mod, 'check_extra', None)
    if extra is not None:
        ctx = Ctx(prop, next(iter(facts_by_cfg.values())), tier, 'extra')
        ctx.repo = repo
        extra(ctx)
        ctxs.append(ctx)

    if tier == 'thorough' and os.environ.get('A10_VERIF_NO_MUTANTS') != '1':
        from rules import vitality
        ctx = Ctx(prop, next(iter(facts_by_cfg.values())), tier, 'mutants')
        ctx.repo = repo
        ctx.run('%s.M' % prop, 'vitality: every seeded mutant of this property (one broken rule instance each) is reported with its expected key', lambda r, facts: vitality.replay(r, prop, repo))
        ctxs.append(ctx)

    known, _fixed = load_known(os.path.join(HERE, 'known_findings.txt'))
    violations = {}
    for ctx in ctxs:
        for r in ctx.rules:
            for v in r.violations:
                violations.setdefault(v['key'], dict(v, rule=r.id, rule_text=r.text, cfg=ctx.cfg_name))
    new = {k: v for k, v in violations.items() if (prop, k) not in known}
    kn = {k: v for k, v in violations.items() if (prop, k) in known}

    # ---- report + evidence
    os.makedirs(out_dir(), exist_ok=True)
    report_path = os.path.join(out_dir(), '%s.report.txt' % prop)
    lines = []
    n_inst = 0
    rules_j = []
    samples = []
    first = ctxs[0]
    for ctx in ctxs:
        for r in ctx.rules:
            lines.append('[%s] rule %s — %s' % (ctx.cfg_name, r.id, r.text))
            lines.append('    instances=%d floor=%s violations=%d' % (len(r.instances), r.floor_n, len(r.violations)))
            for i in r.instances:
                lines.append('      inst %s %s %s' % (i['name'], i['where'], i['detail']))
            for v in r.violations:
                tag = 'KNOWN' if (prop, v['key']) in known else 'VIOLATION'
                lines.append('    %s key=%s at %s: %s' % (tag, v['key'], v['where'], v['msg']))
            if ctx is first or ctx.cfg_name in ('extra', 'mutants'):
                n_inst += len(r.instances)
                rules_j.append({
                    'rule': r.id, 'text': r.text, 'config': ctx.cfg_name,
                    'instances': len(r.instances), 'floor': r.floor_n,
                    'instance_names': [i['name'] for i in r.instances][:60],
                    'accepted_idioms': r.idioms, 'exceptions': r.exceptions,
                    'notes': r.notes,
                    'violations': [v['key'] for v in r.violations],
                })
                for i in r.instances[:2]:
                    samples.append({'rule': r.id, 'instance': i['name'], 'where': i['where'], 'detail': i['detail']})
        for e in ctx.internal_errors:
            lines.append('INTERNAL ERROR in rule:\n' + e)
    for n_ in getattr(first.facts, 'notes', []):
        lines.insert(0, 'normalisation: ' + n_)
    with open(report_path, 'w') as fh:
        fh.write('\n'.join(lines) + '\n')

    f0 = first.facts
    distinct = len({(r['rule'], n) for r in rules_j for n in r['instance_names']})
    ev = {
        'property_id': prop,
        'tier': tier,
        'seed': seed,
        'level': 'other',
        'coverage': {
            'explanation': getattr(mod, 'EXPLANATION', ''),
            'technique': 'static analysis: rules over rustc MIR/type facts of the current working tree (no execution of a10)',
            'configurations': list(facts_by_cfg.keys()),
            'not_analysed': ['src/kqueue/** (cfg\'d out on Linux)', 'sys/ (stand-alone bindgen crate)', 'tests/', 'examples/'],
            'functions_parsed': len(f0.func_list),
            'call_sites_parsed': sum(1 for f in f0.func_list for _ in f.calls(cleanup=True)),
            'adts_parsed': len(f0.adts),
            'impls_parsed': len(f0.impls),
            'normalisation': getattr(f0, 'notes', []) or ['no helper was extracted or renamed relative to abi/known_functions.json'],
            'rules': rules_j,
            'evaluations': max(n_inst, 1),
            'distinct_nontrivial': distinct,
            'rule': 'one evaluation = one rule instance (function, call site, impl or path obligation) derived from the tree on this run; distinct = distinct (rule, instance) pairs',
            'samples': samples[:12] or [{'note': 'no instances'}],
            'obligations': n_inst,
            'discharged': n_inst - len(violations),
            'known_findings_hit': sorted(kn.keys()),
            'not_decided': getattr(mod, 'NOT_DECIDED', ''),
        },
        'assumptions': getattr(mod, 'ASSUMPTIONS', []) + [
            'rustc nightly MIR (mir-opt-level=0, dev profile) faithfully represents the source',
            'std Mutex/Arc/Box/atomics behave as documented',
            'host target x86_64-unknown-linux-gnu; kqueue back end not analysed',
        ],
        'wall_s': round(time.time() - t0, 3),
        'violations': len(new),
    }
    with open(os.path.join(out_dir(), '%s.json' % prop), 'w') as fh:
        json.dump(ev, fh, indent=1)
    for k, v in sorted(kn.items()):
        print('KNOWN-FINDING: property=%s key=%s %s' % (prop, k, known[(prop, k)]))
    for k, v in sorted(new.items()):
        print('  violated %s at %s: %s' % (k, v['where'], v['msg']))
    if new:
        print('VIOLATION property=%s replay=%s' % (prop, report_path))
        return 1
    print('%s: ok (%d rules, %d instances, %d known findings) [%s]' % (
        prop, len(rules_j), n_inst, len(kn), tier))
    return 0


def main():
    ap = argparse.ArgumentParser()
    ap.add_argument('--property', '-p', action='append')
    ap.add_argument('--all', action='store_true')
    ap.add_argument('--tier', default=os.environ.get('VERIF_TIER', 'quick'), choices=['quick', 'thorough'])
    ap.add_argument('--repo', default=os.environ.get('A10_VERIF_REPO', '/repo'))
    ap.add_argument('--facts', help='reuse an existing fact file (debugging only)')
    ap.add_argument('--keep-facts', help='copy the default-config fact file here')
    ap.add_argument('--out-dir', help='write evidence/report here instead of /verif/evidence (mutant replays)')
    ap.add_argument('--no-mutants', action='store_true', help='skip the mutant replay of the thorough tier')
    args = ap.parse_args()
    have = [p for p in PROPS if os.path.exists(os.path.join(HERE, 'rules', p.lower() + '.py'))]
    props = have if args.all else (args.property or [])
    if not props:
        ap.error('need --property or --all')
    seed = int(os.environ.get('VERIF_SEED', '0') or 0)
    global OUT_DIR
    OUT_DIR = args.out_dir
    os.environ['A10_VERIF_NO_MUTANTS'] = '1' if (args.no_mutants or args.out_dir) else os.environ.get('A10_VERIF_NO_MUTANTS', '0')
    tmps = []
    facts_by_cfg = {}
    try:
        if args.facts:
            facts_by_cfg['default'] = Facts(args.facts)
        else:
            tmp, out = extract(args.repo)
            tmps.append(tmp)
            if args.keep_facts:
                shutil.copy(out, args.keep_facts)
            facts_by_cfg['default'] = Facts(out)
            if args.tier == 'thorough':
                tmp, out = extract(args.repo, features='nightly')
                tmps.append(tmp)
                facts_by_cfg['nightly'] = Facts(out)
        rc = 0
        for p in props:
            rc |= run_property(p, args.tier, facts_by_cfg, args.repo, seed)
        return rc
    finally:
        try:
            from rules import witness
            witness.cleanup()
        except Exception:
            pass
        for t in tmps:
            shutil.rmtree(t, ignore_errors=True)


if __name__ == '__main__':
    sys.exit(main())
