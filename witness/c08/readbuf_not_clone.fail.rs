//@ error: E0277
//@ what: ReadBuf is Clone (two owners of one pool buffer)
fn need<T: Clone>() {}
pub fn f() {
    need::<a10::io::ReadBuf>();
}
