fn need<T: Clone>() {}
pub fn f() {
    need::<a10::io::ReadBufPool>();
}
