//@ error: E0499, E0502, E0505
//@ what: a &Event is still usable after the next poll_next, which clears and re-submits the buffer the event points into
use std::task::{Context, Poll};
pub fn f(w: &mut a10::fs::notify::Watcher, ctx: &mut Context<'_>) -> usize {
    let mut events = Box::pin(w.events());
    let first = match events.as_mut().poll_next(ctx) {
        Poll::Ready(Some(Ok(ev))) => ev,
        _ => return 0,
    };
    let _second = events.as_mut().poll_next(ctx);
    first.file_path().as_os_str().len()
}
