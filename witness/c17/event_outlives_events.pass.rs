use std::task::{Context, Poll};
pub fn f(w: &mut a10::fs::notify::Watcher, ctx: &mut Context<'_>) -> usize {
    let mut events = Box::pin(w.events());
    let ev = match events.as_mut().poll_next(ctx) {
        Poll::Ready(Some(Ok(ev))) => ev,
        _ => return 0,
    };
    let n = ev.file_path().as_os_str().len();
    drop(events);
    n
}
