//@ error: E0505, E0597, E0499, E0502
//@ what: a &Event returned by Events::poll_next is still usable after the Events iterator (which owns the bytes) was dropped
use std::task::{Context, Poll};
pub fn f(w: &mut a10::fs::notify::Watcher, ctx: &mut Context<'_>) -> usize {
    let mut events = Box::pin(w.events());
    let ev = match events.as_mut().poll_next(ctx) {
        Poll::Ready(Some(Ok(ev))) => ev,
        _ => return 0,
    };
    drop(events);
    ev.file_path().as_os_str().len()
}
