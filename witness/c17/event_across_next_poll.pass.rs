use std::task::{Context, Poll};
pub fn f(w: &mut a10::fs::notify::Watcher, ctx: &mut Context<'_>) -> usize {
    let mut events = Box::pin(w.events());
    let first = match events.as_mut().poll_next(ctx) {
        Poll::Ready(Some(Ok(ev))) => ev,
        _ => return 0,
    };
    let n = first.file_path().as_os_str().len();
    let _second = events.as_mut().poll_next(ctx);
    n
}
