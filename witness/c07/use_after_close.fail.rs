//@ error: E0382
//@ what: an AsyncFd can still be used after close() consumed it
pub fn f(fd: a10::AsyncFd) {
    let c = fd.close();
    drop(c);
    let _k = fd.kind();
}
