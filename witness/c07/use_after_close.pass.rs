pub fn f(fd: a10::AsyncFd) {
    let _k = fd.kind();
    let c = fd.close();
    drop(c);
}
