//@ error: E0277
//@ what: AsyncFd is Clone (two owners of one descriptor)
fn need<T: Clone>() {}
pub fn f() {
    need::<a10::AsyncFd>();
}
