pub struct Owned(pub Vec<u8>);
unsafe impl a10::io::Buf for Owned {
    unsafe fn parts(&self) -> (*const u8, u32) {
        (self.0.as_ptr(), self.0.len() as u32)
    }
}
