//@ error: E0478
//@ what: a user type borrowing non-'static data can implement Buf and be handed to the kernel
pub struct Borrowed<'a>(pub &'a [u8]);
unsafe impl<'a> a10::io::Buf for Borrowed<'a> {
    unsafe fn parts(&self) -> (*const u8, u32) {
        (self.0.as_ptr(), self.0.len() as u32)
    }
}
