//@ error: E0597, E0521, E0716
//@ what: a slice borrowed from a local can be passed to AsyncFd::write
pub fn f(fd: &a10::AsyncFd) {
    let v = vec![1u8, 2, 3];
    let w = fd.write(&v[..]);
    drop(w);
}
