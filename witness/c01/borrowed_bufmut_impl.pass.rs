pub struct OwnedMut(pub Vec<u8>);
unsafe impl a10::io::BufMut for OwnedMut {
    unsafe fn parts_mut(&mut self) -> (*mut u8, u32) {
        (self.0.as_mut_ptr(), self.0.capacity() as u32)
    }
    unsafe fn set_init(&mut self, _n: usize) {}
    fn spare_capacity(&self) -> u32 { 0 }
}
