//@ error: E0478
//@ what: a user type borrowing non-'static data can implement BufMut and be written to by the kernel
pub struct BorrowedMut<'a>(pub &'a mut Vec<u8>);
unsafe impl<'a> a10::io::BufMut for BorrowedMut<'a> {
    unsafe fn parts_mut(&mut self) -> (*mut u8, u32) {
        (self.0.as_mut_ptr(), self.0.capacity() as u32)
    }
    unsafe fn set_init(&mut self, _n: usize) {}
    fn spare_capacity(&self) -> u32 { 0 }
}
