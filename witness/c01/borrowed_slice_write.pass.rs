pub fn f(fd: &a10::AsyncFd) {
    let v = vec![1u8, 2, 3];
    let w = fd.write(v);
    drop(w);
}
