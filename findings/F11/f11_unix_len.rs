//! F11: the kernel reports a length of 111 (> size_of::<sockaddr_un>() == 110) for a Unix socket bound to a
//! 108 byte path (no room for the terminating NUL, see unix(7) BUGS). `SocketAddress::init` must not read
//! past the storage.
use std::mem::MaybeUninit;
use std::os::unix::net::SocketAddr;

use a10::net::SocketAddress;

#[test]
fn max_length_path_reported_as_111() {
    let mut storage: MaybeUninit<<SocketAddr as SocketAddress>::Storage> = MaybeUninit::zeroed();
    unsafe {
        let s = &mut *storage.as_mut_ptr();
        s.sun_family = libc::AF_UNIX as libc::sa_family_t;
        for b in s.sun_path.iter_mut() {
            *b = b'a' as _; // 108 bytes, no NUL.
        }
    }
    // What the kernel reports for such an address (getsockname/accept/recvmsg).
    let length = 111;
    let addr = unsafe { <SocketAddr as SocketAddress>::init(storage, length) };
    // std can't represent 108 byte paths, so this reads back as unnamed; the point is that it must not
    // touch memory outside of `storage` (run under Miri).
    assert!(addr.is_unnamed() || addr.as_pathname().is_some());
}
