//! A future parked on a full submission queue must be woken by a later `Ring::poll` once room is
//! available, even if no other operation completes.
use std::pin::Pin;
use std::sync::atomic::{AtomicUsize, Ordering};
use std::sync::Arc;
use std::task::{Context, Poll, Wake, Waker};
use std::time::Duration;
use std::future::Future;

struct Count(AtomicUsize);
impl Wake for Count {
    fn wake(self: Arc<Self>) { self.0.fetch_add(1, Ordering::SeqCst); }
}

#[test]
fn leftover_waiter_is_woken_once_room_is_available() {
    let mut ring = a10::Ring::config().with_submission_queue_size(2).build().unwrap();
    let sq = ring.sq();
    // A pipe that never gets data: reads on it never complete.
    let mut fds = [0; 2];
    assert_eq!(unsafe { libc::pipe(fds.as_mut_ptr()) }, 0);
    let rfd = unsafe { a10::AsyncFd::from_raw_fd(fds[0], sq.clone()) };
    let noop = Waker::noop();
    let mut cx = Context::from_waker(&noop);
    // Fill the queue with two reads (queued, not submitted).
    let mut a = Box::pin(rfd.read(Vec::with_capacity(8)));
    let mut b = Box::pin(rfd.read(Vec::with_capacity(8)));
    assert!(a.as_mut().poll(&mut cx).is_pending());
    assert!(b.as_mut().poll(&mut cx).is_pending());
    // Three more futures find the queue full and park.
    let counts: Vec<Arc<Count>> = (0..3).map(|_| Arc::new(Count(AtomicUsize::new(0)))).collect();
    let mut parked: Vec<_> = (0..3).map(|_| Some(Box::pin(rfd.read(Vec::with_capacity(8))))).collect();
    for (f, c) in parked.iter_mut().zip(&counts) {
        let w = Waker::from(c.clone());
        let mut cx = Context::from_waker(&w);
        assert!(f.as_mut().unwrap().as_mut().poll(&mut cx).is_pending());
    }
    // This poll submits the two queued reads: two slots become free, two waiters are woken.
    ring.poll(Some(Duration::from_millis(20))).unwrap();
    let woken: Vec<usize> = counts.iter().map(|c| c.0.load(Ordering::SeqCst)).collect();
    assert!(woken.iter().filter(|n| **n > 0).count() >= 2, "expected two of three waiters to be woken: {woken:?}");
    // The woken futures are dropped without ever taking their slot.
    for (f, n) in parked.iter_mut().zip(&woken) {
        if *n > 0 { *f = None; }
    }
    // The queue is now empty, one waiter is still parked. Nothing completes.
    for _ in 0..10 {
        ring.poll(Some(Duration::from_millis(10))).unwrap();
    }
    for c in &counts {
        assert!(c.0.load(Ordering::SeqCst) > 0, "LOST WAKE-UP: the leftover waiter was never woken although the submission queue is empty");
    }
    drop(parked); drop(a); drop(b);
}
