//! F12: metadata of a file whose modification time lies before 1970.
use std::time::{Duration, SystemTime};

use a10::fs::OpenOptions;
use a10::Ring;

#[test]
fn modified_before_epoch() {
    let mut ring = Ring::new().unwrap();
    let sq = ring.sq();
    let dir = std::env::temp_dir().join(format!("a10_f12_{}", std::process::id()));
    std::fs::create_dir_all(&dir).unwrap();
    let path = dir.join("old.txt");
    std::fs::write(&path, b"x").unwrap();
    // 1960-01-01T00:00:00.25Z == -315619199.75 s
    let want = SystemTime::UNIX_EPOCH - Duration::new(315_619_200, 0) + Duration::new(0, 250_000_000);
    let f = std::fs::File::options().write(true).open(&path).unwrap();
    f.set_modified(want).unwrap();
    drop(f);
    assert_eq!(std::fs::metadata(&path).unwrap().modified().unwrap(), want, "std disagrees (filesystem without old timestamps?)");

    let mut open = std::pin::pin!(OpenOptions::new().open(sq, path.clone()));
    let waker = std::task::Waker::noop();
    let mut cx = std::task::Context::from_waker(waker);
    let file = loop {
        if let std::task::Poll::Ready(res) = std::future::Future::poll(open.as_mut(), &mut cx) { break res.unwrap(); }
        ring.poll(Some(Duration::from_millis(50))).unwrap();
    };
    let mut md = std::pin::pin!(file.metadata());
    let metadata = loop {
        if let std::task::Poll::Ready(res) = std::future::Future::poll(md.as_mut(), &mut cx) { break res.unwrap(); }
        ring.poll(Some(Duration::from_millis(50))).unwrap();
    };
    let got = metadata.modified();
    let _ = std::fs::remove_dir_all(&dir);
    assert_eq!(got, want);
}
